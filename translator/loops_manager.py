#!/usr/bin/env python3
"""Translator for the MANAGER layer of perception_eval (property C13): Python `ast` -> Gallina (Gen/loops_manager.v).

Layer of the redundant tie for C13, the evaluation manager's BOOKKEEPING: PerceptionEvaluationManager.add_frame_result,
_filter_objects, get_scene_result and _EvaluationMangerBase.get_ground_truth_now_frame are re-translated from the source on every run
and Props/GenTieManager.v proves each generated definition EQUAL, for all inputs, to the hand model (Model/Manager.v: the state machine
`step`, through an explicit abstraction function; Model/Lookup.v for the dispatch).

What is translated is the control structure: the COPY of the dataset frame before anything is written, which list is filtered with
which `is_gt`, which lists are handed to the matcher, the target-uuid post-filter, the choice of the predecessor
(`self.frame_results[-1]` under `len(self.frame_results) > 0`), the append AFTER the evaluation, and for the scene the initial `[[]]`,
the order of the frames, the per-label append / `+=` and which score is evaluated for which configuration.  The frame evaluation
itself is a LEAF: every leaf is a field of the record `world` of the generated file (fixed text), so the equations hold for ALL
leaves (they are the section variables G, W, T, Sc of Model/Manager.v in another guise; several are tied by other layers:
Gen/loops_passfail.v filter_objects / filter_object_results, Gen/loops_matcher.v get_object_results).

How the mutable objects are rendered (fixed text of the generated file):
  heap            FrameGroundTruth objects live on a heap (address -> content, next free address); a variable holding a frame holds
                  its ADDRESS.  `copy(x)` allocates a new address with the same content (shallow: the lists are values),
                  `x.objects = v` writes the heap at x, `x.objects` / `.transforms` / `.frame_name` read it.  The heap is threaded
                  through the translated functions as the hidden local `heap_` (first component of their results).
  frame result    a PerceptionFrameResult is a record holding the ADDRESS of its ground-truth frame; `r.evaluate_frame(previous)` (a
                  leaf with a footprint) replaces r.object_results, WRITES the critically filtered ground truths onto the frame r
                  holds, and reads `previous.object_results` only.
  self.frame_results   a local of the method (`self_frame_results`), returned next to the heap.
  dicts           the manager's own dicts (`{label: [[]] for label in target_labels}`) are insertion-ordered association lists:
                  the comprehension is a fold of `dset` (a repeated key keeps its first position), `d[k].append(v)` / `d[k] += v`
                  are `dget` (KeyError) + `dset`; the dicts RETURNED by the leaves divide_objects / divide_objects_to_num are
                  functions of the label (their KeyError is the leaf's business).
  self.<property> the @property getters (target_labels, metrics_config, filtering_params, evaluation_task) are checked against the
                  source on every run to be `return self.evaluator_config.<name>`.
Statements that cannot influence a value (`if <no call>: pass`) are dropped.  The statement / expression translator is the one of
loops_passfail.py with the forms of loops_classif.py, through PRIVATE instances (the instances the other layers use are untouched).
Only `ast` is used; the library is never imported.
"""
import ast
import importlib.util
import os
import sys

HERE = os.path.dirname(os.path.abspath(__file__))
sys.path.insert(0, HERE)
from py_to_coq import TranslatorError, coq_str  # noqa: E402
from decisions import fail, paren, parse, find_function  # noqa: E402

MODNAME = "loops_manager"          # harness/lib/core.py regenerate_gen: translator/<modname>.py writes Gen/<modname>.v


def _private(name):
    spec = importlib.util.spec_from_file_location("_loops_manager_private_" + name, os.path.join(HERE, name + ".py"))
    m = importlib.util.module_from_spec(spec)
    spec.loader.exec_module(m)
    return m


C = _private("loops_classif")       # its own private loops_passfail is C.P
P = C.P
BOOL, NAT, UNIT, NONE, NUM, ANYLIST, STR, LBL, FLAG = P.BOOL, P.NAT, P.UNIT, P.NONE, P.NUM, P.ANYLIST, P.STR, P.LBL, P.FLAG
coqt, opt, lst, tup, is_opt, is_list, E, CallSpec, Fn, Env, lname, show = P.coqt, P.opt, P.lst, P.tup, P.is_opt, P.is_list, P.E, \
    P.CallSpec, P.Fn, P.Env, P.lname, P.show
ZT = "Z"
OBJ, RES, TR, NAME, TASK, POLICY, RADII, FPARAMS, LPARAMS, METRICS, CRIT, PASS = [coqt(f"{n} w") for n in (
    "ObjT", "ResT", "TrT", "NameT", "TaskT", "PolicyT", "RadiiT", "FParamsT", "LParamsT", "MetricsT", "CritT", "PassT")]
HEAP, FRAME, FRES, SCORE, SELF, ECFG = coqt("heap w"), coqt("addr"), coqt("fresult w"), coqt("sscore w"), coqt("mcfg w"), coqt("ecfg w")
DRES, DNUM = coqt("list (nat * list (list (ResT w)))"), coqt("list (nat * nat)")
DIVR, DIVN = coqt("(nat -> list (ResT w))"), coqt("(nat -> nat)")
NOWRES = coqt("option (Lookup.frame + (Lookup.frame * Lookup.frame * Z))")
LOOKUP_FRAMES = lst(coqt("Lookup.frame"))

_c = {n: getattr(C, n) for n in ("tr", "tr_block")}


# =============================================================================================
# expressions
# =============================================================================================
def int_literal(node):
    """the integer a literal such as 0, -1, -0 denotes (None: not a literal)"""
    if isinstance(node, ast.Constant) and isinstance(node.value, int) and not isinstance(node.value, bool):
        return node.value
    if isinstance(node, ast.UnaryOp) and isinstance(node.op, ast.USub):
        v = int_literal(node.operand)
        return None if v is None else -v
    return None


def attr_lookup(fn, b, key, node, k, what):
    a = fn.attrs.get((b.ty, key))
    if a is None:
        fail(f"{what} not in the vocabulary: `{key}` of a {show(b.ty)}", node)
    if len(a) == 3:        # a lookup that can raise
        return P.emit_bind(fn, a[0].format(paren(b.term)), lambda v: k(E(v, a[1])))
    return k(E(a[0].format(paren(b.term)), a[1]))


def tr(node, env, k):
    fn = env.fn
    key = ast.unparse(node)
    if key in env.narrow or key in fn.consts or (isinstance(node, ast.Attribute) and key in env.vars):
        return _c["tr"](node, env, k)
    if isinstance(node, ast.Subscript):
        ix = node.slice
        if isinstance(ix, ast.Constant) and isinstance(ix.value, str):          # cfg["key"]
            return tr(node.value, env, lambda b: attr_lookup(fn, b, f"[{ix.value!r}]", node, k, "key"))
        n = int_literal(ix)

        def with_base(b):
            if b.ty in getattr(fn, "subscripts", {}):                           # a dict returned by a leaf: a function of the key
                kty, vty = fn.subscripts[b.ty]
                return tr(ix, env, lambda i: k(E(f"({b.term} {paren(P.coerce(i, kty, node))})", vty)))
            if n is None:
                fail("subscript that is neither an integer literal nor a key of a leaf's dict", node)
            if not is_list(b.ty) or b.ty == ANYLIST:
                fail("subscript of something that is not a list", node)
            if n >= 0:
                t = f"match nth_error {paren(b.term)} {n} with Some x_ => Ok x_ | None => ErrIndex end"
            else:       # xs[-k]: the element at len(xs) - k, IndexError when k > len(xs)
                t = (f"(if Nat.leb {-n} (length {paren(b.term)}) then match nth_error {paren(b.term)} (length {paren(b.term)} - {-n}) "
                     f"with Some x_ => Ok x_ | None => ErrIndex end else ErrIndex)")
            return P.emit_bind(fn, t, lambda v: k(E(v, b.ty[1])))
        return tr(node.value, env, with_base)
    if isinstance(node, ast.Call) and isinstance(node.func, ast.Attribute) and node.func.attr == "get" and len(node.args) == 1 \
            and not node.keywords and isinstance(node.args[0], ast.Constant) and isinstance(node.args[0].value, str):
        return tr(node.func.value, env, lambda b: attr_lookup(fn, b, f".get({node.args[0].value!r})", node, k, "key"))
    return _c["tr"](node, env, k)


# =============================================================================================
# statements
# =============================================================================================
DICT_VALUES = {"[[]]": "[[]]", "[]": "[]"}


def tr_block(ss, env, k):
    fn = env.fn
    if ss:
        s = ss[0]
        if isinstance(s, (ast.Assign, ast.AnnAssign)) and isinstance(getattr(s, "value", None), ast.DictComp):
            targets = s.targets if isinstance(s, ast.Assign) else [s.target]
            dc = s.value
            if len(targets) != 1 or not isinstance(targets[0], ast.Name) or len(dc.generators) != 1 or dc.generators[0].ifs \
                    or dc.generators[0].is_async or not isinstance(dc.generators[0].target, ast.Name) \
                    or not isinstance(dc.key, ast.Name) or dc.key.id != dc.generators[0].target.id:
                fail("dict comprehension form", s)
            nme = targets[0].id
            ty = fn.local_types.get(nme)
            if ty not in (DRES, DNUM):
                fail(f"the type of the dict `{nme}` is not known", s)
            vtxt = ast.unparse(dc.value)
            if ty == DRES and vtxt in DICT_VALUES:
                v = DICT_VALUES[vtxt]
            elif ty == DNUM and int_literal(dc.value) is not None and int_literal(dc.value) >= 0:
                v = f"{int_literal(dc.value)}%nat"
            else:
                fail(f"the initial value `{vtxt}` of the dict `{nme}`", s)

            def with_iter(l):
                if l.ty != lst(LBL):
                    fail("dict comprehension over something that is not a list of labels", s)
                e1 = P.bind_local(env, nme, ty, s)
                return f"let {lname(nme)} := fold_left (fun d_ k_ => dset d_ k_ {v}) {paren(l.term)} [] in\n{tr_block(list(ss[1:]), e1, k)}"
            return tr(dc.generators[0].iter, env, with_iter)
    return _c["tr_block"](ss, env, k)


for _m in (P, C):
    setattr(_m, "tr", tr)
    setattr(_m, "tr_block", tr_block)
P.ANNOTATIONS = {}


# =============================================================================================
# preparation of a method body: the hidden heap, the state of self, in-place updates as re-bindings
# =============================================================================================
def _name(n, store=False):
    return ast.Name(id=n, ctx=ast.Store() if store else ast.Load())


def _call(f, args, keywords=()):
    return ast.Call(func=_name(f), args=list(args), keywords=list(keywords))


class Prep(ast.NodeTransformer):
    def __init__(self, fn):
        self.fn = fn

    def fix(self, new, old):
        return ast.fix_missing_locations(ast.copy_location(new, old))

    def visit_FunctionDef(self, node):
        fail("nested function", node)

    def visit_Attribute(self, node):
        node = self.generic_visit(node)
        if isinstance(node.value, ast.Name) and node.value.id == "self" and node.attr in self.fn.state_attrs:
            if not isinstance(node.ctx, ast.Load):
                fail(f"`self.{node.attr}` is re-bound", node)
            return self.fix(_name("self_" + node.attr), node)
        return node

    def visit_Call(self, node):
        node = self.generic_visit(node)
        kws = []
        for kw in node.keywords:
            if kw.arg is None:          # **cfg: the whole keyword dict is ONE argument of the leaf
                if any(x.arg == "kwargs_" for x in kws):
                    fail("two `**` arguments", node)
                kws.append(ast.keyword(arg="kwargs_", value=kw.value))
            else:
                if kw.arg in ("kwargs_", "heap_"):
                    fail(f"keyword `{kw.arg}`", node)
                kws.append(kw)
        node.keywords = kws
        return node

    def visit_Assign(self, node):
        node = self.generic_visit(node)
        if len(node.targets) != 1:
            return node
        tg, v = node.targets[0], node.value
        if isinstance(v, ast.Call) and isinstance(v.func, ast.Name) and v.func.id == "copy" and isinstance(tg, ast.Name) \
                and self.fn.heap:
            new = ast.Assign(targets=[ast.Tuple(elts=[_name("heap_", True), tg], ctx=ast.Store())],
                             value=_call("copy_", [_name("heap_")] + v.args, v.keywords))
            return self.fix(new, node)
        if isinstance(tg, ast.Attribute) and isinstance(tg.value, ast.Name) and tg.value.id != "self" and self.fn.heap:
            if tg.attr != "objects":
                fail(f"`{ast.unparse(tg)}` is written", node)
            new = ast.Assign(targets=[_name("heap_", True)], value=_call("set_objects_", [_name("heap_"), _name(tg.value.id), v]))
            return self.fix(new, node)
        if isinstance(v, ast.Call) and ast.unparse(v.func) in self.fn.heap_calls and isinstance(tg, ast.Tuple):
            new = ast.Assign(targets=[ast.Tuple(elts=[_name("heap_", True)] + list(tg.elts), ctx=ast.Store())],
                             value=ast.Call(func=v.func, args=v.args, keywords=list(v.keywords) + [ast.keyword(arg="heap_", value=_name("heap_"))]))
            return self.fix(new, node)
        return node

    def visit_AnnAssign(self, node):
        node = self.generic_visit(node)
        if node.value is not None and not isinstance(node.target, ast.Name):
            return self.visit_Assign(self.fix(ast.Assign(targets=[node.target], value=node.value), node))
        if node.value is not None and isinstance(node.value, ast.Call) and isinstance(node.value.func, ast.Name) and node.value.func.id == "copy":
            return self.visit_Assign(self.fix(ast.Assign(targets=[node.target], value=node.value), node))
        return node

    def visit_AugAssign(self, node):
        node = self.generic_visit(node)
        tg = node.target
        if isinstance(tg, ast.Subscript) and isinstance(tg.value, ast.Name) and isinstance(node.op, ast.Add):
            new = ast.Assign(targets=[_name(tg.value.id, True)], value=_call("dict_add_", [_name(tg.value.id), tg.slice, node.value]))
            return self.fix(new, node)
        return node

    def visit_Expr(self, node):
        node = self.generic_visit(node)
        v = node.value
        if isinstance(v, ast.Call) and isinstance(v.func, ast.Attribute):
            f = v.func
            if f.attr == "append" and isinstance(f.value, ast.Subscript) and isinstance(f.value.value, ast.Name) and len(v.args) == 1 \
                    and not v.keywords:
                d = f.value.value.id
                new = ast.Assign(targets=[_name(d, True)], value=_call("dict_append_", [_name(d), f.value.slice, v.args[0]]))
                return self.fix(new, node)
            if isinstance(f.value, ast.Name) and f.attr in self.fn.mutators:
                r, (callee, with_heap) = f.value.id, self.fn.mutators[f.attr]
                if with_heap:
                    new = ast.Assign(targets=[ast.Tuple(elts=[_name("heap_", True), _name(r, True)], ctx=ast.Store())],
                                     value=_call(callee, [_name("heap_"), _name(r)] + v.args, v.keywords))
                else:
                    new = ast.Assign(targets=[_name(r, True)], value=_call(callee, [_name(r)] + v.args, v.keywords))
                return self.fix(new, node)
        return node

    def bare_state(self, t):
        while isinstance(t, ast.UnaryOp) and isinstance(t.op, ast.Not):
            t = t.operand
        return isinstance(t, ast.Attribute) and isinstance(t.value, ast.Name) and t.value.id == "self" and t.attr in self.fn.state_attrs

    def visit_IfExp(self, node):
        if self.bare_state(node.test):
            fail("truthiness of a list owned by self (the equations are proved for a test of its len())", node)
        return self.generic_visit(node)

    def visit_If(self, node):
        if self.bare_state(node.test):
            fail("truthiness of a list owned by self (the equations are proved for a test of its len())", node)
        node = self.generic_visit(node)
        if not node.orelse and all(isinstance(x, ast.Pass) for x in node.body) \
                and not any(isinstance(n, (ast.Call, ast.Subscript)) for n in ast.walk(node.test)):
            return None         # cannot influence a value
        return node

    def visit_Return(self, node):
        node = self.generic_visit(node)
        pre = list(self.fn.ret_prefix)
        if not pre:
            return node
        if node.value is None:
            fail("bare return", node)
        elts = list(node.value.elts) if isinstance(node.value, ast.Tuple) else [node.value]
        return self.fix(ast.Return(value=ast.Tuple(elts=[_name(n) for n in pre] + elts, ctx=ast.Load())), node)


def check_property(tree, cls, name, expected):
    f = find_function(tree, cls, name)
    body = [s for s in f.body if not (isinstance(s, ast.Expr) and isinstance(s.value, ast.Constant))]
    deco = [ast.unparse(d) for d in f.decorator_list]
    if deco != ["property"] or len(body) != 1 or not isinstance(body[0], ast.Return) or body[0].value is None \
            or ast.unparse(body[0].value) != expected:
        fail(f"the property {cls}.{name} is no longer `return {expected}`")


def translate_function(fn, repo, trees):
    def tree_of(rel):
        if rel not in trees:
            trees[rel] = parse(repo, rel)
        return trees[rel]

    f = find_function(tree_of(fn.file), fn.cls, fn.func)
    fn.tree_body = []
    fn.nested = {}
    for rel, cls, func, expected in fn.sigs:
        P.check_signature(tree_of(rel), cls, func, expected)
    for rel, cls, name, expected in fn.properties:
        check_property(tree_of(rel), cls, name, expected)
    fn.counter, fn.effects, fn.found, fn.inline_depth = 0, 0, [], 0
    body = list(f.body)
    if body and isinstance(body[0], ast.Expr) and isinstance(body[0].value, ast.Constant) and isinstance(body[0].value.value, str):
        body = body[1:]
    for st in body:
        for n in ast.walk(st):
            if isinstance(n, (ast.While, ast.Try, ast.With, ast.NamedExpr, ast.Global, ast.Nonlocal, ast.Delete, ast.Assert, ast.Lambda,
                              ast.Yield, ast.YieldFrom, ast.Await, ast.FunctionDef, ast.ClassDef, ast.Starred, ast.Break, ast.Raise)):
                fail(f"unsupported construct {type(n).__name__}", n)
            if isinstance(n, ast.Name) and (n.id in ("heap_",) or n.id.startswith("self_") or n.id.endswith("_") and n.id in fn.funcs):
                fail(f"the name `{n.id}` is reserved", n)
    a = f.args
    if a.kwonlyargs or a.posonlyargs or a.vararg or a.kwarg:
        fail("parameter list form")
    pynames = [x.arg for x in a.args]
    if sorted(pynames) != sorted(fn.penv):
        fail(f"parameters changed: {pynames} (expected {sorted(fn.penv)})")
    defaults = [None] * (len(a.args) - len(a.defaults)) + [ast.unparse(d) for d in a.defaults]
    for x, d in zip(a.args, defaults):
        if fn.pdefaults.get(x.arg) != d:
            fail(f"the default of `{x.arg}` changed: {d} (the callers' vocabulary was written for {fn.pdefaults.get(x.arg)})")
    prep = Prep(fn)
    new_body = []
    for s in body:
        r = prep.visit(ast.parse(ast.unparse(s)).body[0])          # a private copy
        if r is not None:
            new_body.append(ast.fix_missing_locations(r))
    env = Env(fn)
    for p in pynames:
        env.vars[p] = fn.penv[p]           # parameters may be re-bound (`frame = copy(frame)`): they are ordinary locals
    for nme, (term, ty) in fn.hidden.items():
        env.vars[nme] = (term, ty)
        if nme.startswith("self_") and is_list(ty) and fn.ret_prefix:
            env.made.add(nme)
    term = P.tr_block(new_body, env, None)
    if fn.found != fn.loops:
        def shw(ls):
            return "; ".join(f"{kd} over ({', '.join(show(t) for t in ts)})" for kd, ts in ls) or "none"
        fail(f"the loops of the function ({shw(fn.found)}) are not the ones its equation is proved for ({shw(fn.loops)})")
    out = [f"Module Gen_{fn.name}.", f"(* {fn.file}: {(fn.cls + '.') if fn.cls else ''}{fn.func} *)",
           f"Definition f {fn.params} : res {paren(P.cty(fn.ret))} :=\n{term}.", f"End Gen_{fn.name}."]
    return "\n".join(out)


# =============================================================================================
# the functions and their vocabularies
# =============================================================================================
MANAGER_PY = "manager/perception_evaluation_manager.py"
BASE_PY = "manager/_evaluation_manager_base.py"
FILTER_PY = "evaluation/matching/objects_filter.py"
RESULT_PY = "evaluation/result/object_result.py"
FRAME_PY = "evaluation/result/perception_frame_result.py"
METRICS_PY = "evaluation/metrics/metrics.py"
DATASET_PY = "common/dataset.py"
MGR, BASE = "PerceptionEvaluationManager", "_EvaluationMangerBase"

LO, LR, LL, LZ = lst(OBJ), lst(RES), lst(LBL), lst(ZT)
OLS = opt(lst(STR))

KEY_ERROR = "match {} with Some u_ => Ok (Some u_) | None => ErrKey end"
ATTRS = {
    (SELF, "evaluator_config"): ("mc_config {}", ECFG),
    (SELF, "target_labels"): ("ec_targets (mc_config {})", LL),
    (SELF, "metrics_config"): ("ec_metrics (mc_config {})", METRICS),
    (SELF, "filtering_params"): ("ec_fparams (mc_config {})", FPARAMS),
    (SELF, "evaluation_task"): ("ec_task (mc_config {})", TASK),
    (ECFG, "target_labels"): ("ec_targets {}", LL),
    (ECFG, "metrics_config"): ("ec_metrics {}", METRICS),
    (ECFG, "filtering_params"): ("ec_fparams {}", FPARAMS),
    (ECFG, "evaluation_task"): ("ec_task {}", TASK),
    (ECFG, "label_params"): ("ec_lparams {}", LPARAMS),
    (LPARAMS, "['matching_label_policy']"): ("lp_policy w {}", POLICY),
    (FPARAMS, "['max_matchable_radii']"): ("fp_radii w {}", RADII),
    (FPARAMS, "['uuid_matching_first']"): ("fp_uuid_first w {}", BOOL),
    (FPARAMS, ".get('target_uuids')"): ("fp_uuids w {}", OLS),
    (FPARAMS, "['target_uuids']"): (KEY_ERROR.format("fp_uuids w {}"), OLS, "eff"),          # present under the .get() guard
    (METRICS, "detection_config"): ("has_detection w {}", FLAG),
    (METRICS, "tracking_config"): ("has_tracking w {}", FLAG),
    (METRICS, "prediction_config"): ("has_prediction w {}", FLAG),
    (METRICS, "classification_config"): ("has_classification w {}", FLAG),
    # a FrameGroundTruth is an address of the heap; the current heap is always the Coq variable l_heap_
    (FRAME, "objects"): ("gf_objects (h_at l_heap_ {})", LO),
    (FRAME, "transforms"): ("gf_transforms (h_at l_heap_ {})", TR),
    (FRAME, "frame_name"): ("gf_name (h_at l_heap_ {})", NAME),
    (FRES, "object_results"): ("fr_results {}", LR),
    (FRES, "frame_ground_truth"): ("fr_gt {}", FRAME),
    (FRES, "frame_name"): ("fr_name {}", NAME),
}
PROPERTIES = [(MANAGER_PY, MGR, "target_labels", "self.evaluator_config.target_labels"),
              (MANAGER_PY, MGR, "metrics_config", "self.evaluator_config.metrics_config"),
              (BASE_PY, BASE, "filtering_params", "self.evaluator_config.filtering_params"),
              (BASE_PY, BASE, "evaluation_task", "self.evaluator_config.evaluation_task")]

FILTER_REST = ["target_labels", "ignore_attributes", "max_x_position_list", "max_y_position_list", "max_distance_list", "min_distance_list",
               "min_point_numbers", "confidence_threshold_list", "target_uuids"]
FILTER_OBJECTS = CallSpec("filter_objects w {kwargs_} {is_gt} {transforms} {objects}",
                          [("objects", LO, None), ("is_gt", BOOL, None), ("transforms", opt(TR), "None"), ("kwargs_", FPARAMS, None)], LO)
FILTER_OBJECTS_SIG = (FILTER_PY, None, "filter_objects", [("objects", None), ("is_gt", None)] + [(p, "None") for p in FILTER_REST]
                      + [("transforms", "None")])
# filter_object_results(object_results, transforms=..., target_uuids=...): only the uuid criterion is passed
FILTER_RESULTS = CallSpec("filter_results_by_uuid w {target_uuids} {transforms} {object_results}",
                          [("object_results", LR, None), ("target_uuids", OLS, "None"), ("transforms", opt(TR), "None")], LR)
FILTER_RESULTS_SIG = (FILTER_PY, None, "filter_object_results", [("object_results", None)] + [(p, "None") for p in FILTER_REST]
                      + [("transforms", "None")])
GET_OBJECT_RESULTS = CallSpec(
    "get_object_results w {evaluation_task} {target_labels} {matching_label_policy} {matchable_thresholds} {uuid_matching_first} "
    "{transforms} {estimated_objects} {ground_truth_objects}",
    [("evaluation_task", TASK, None), ("estimated_objects", LO, None), ("ground_truth_objects", LO, None), ("target_labels", LL, None),
     ("matching_label_policy", POLICY, None), ("matchable_thresholds", RADII, None), ("transforms", opt(TR), "None"),
     ("uuid_matching_first", BOOL, "false")], LR)
GET_OBJECT_RESULTS_SIG = (RESULT_PY, None, "get_object_results",
                          [("evaluation_task", None), ("estimated_objects", None), ("ground_truth_objects", None), ("target_labels", "None"),
                           ("matching_label_policy", "MatchingLabelPolicy.DEFAULT"), ("matching_mode", "MatchingMode.CENTERDISTANCE"),
                           ("matchable_thresholds", "None"), ("transforms", "None"), ("uuid_matching_first", "False")])
COPY = CallSpec("h_alloc {h} {x}", [("h", HEAP, None), ("x", FRAME, None)], tup(HEAP, FRAME))
SET_OBJECTS = CallSpec("h_set_objects {h} {x} {v}", [("h", HEAP, None), ("x", FRAME, None), ("v", LO, None)], HEAP)
NEW_FRESULT = CallSpec("new_frame_result l_heap_ {object_results} {frame_ground_truth} {metrics_config} {critical_object_filter_config} "
                       "{frame_pass_fail_config} {unix_time} {target_labels}",
                       [("object_results", LR, None), ("frame_ground_truth", FRAME, None), ("metrics_config", METRICS, None),
                        ("critical_object_filter_config", CRIT, None), ("frame_pass_fail_config", PASS, None), ("unix_time", ZT, None),
                        ("target_labels", LL, None)], FRES)
NEW_FRESULT_SIG = (FRAME_PY, "PerceptionFrameResult", "__init__",
                   [("object_results", None), ("frame_ground_truth", None), ("metrics_config", None), ("critical_object_filter_config", None),
                    ("frame_pass_fail_config", None), ("unix_time", None), ("target_labels", None)])
EVALUATE_FRAME = CallSpec("evaluate_frame {h} {r} {previous_result}", [("h", HEAP, None), ("r", FRES, None), ("previous_result", opt(FRES), "None")],
                          tup(HEAP, FRES))
EVALUATE_FRAME_SIG = (FRAME_PY, "PerceptionFrameResult", "evaluate_frame", [("previous_result", "None")])
FILTER_CALL = CallSpec("Gen__filter_objects.f w mc {heap_} {estimated_objects} {frame_ground_truth}",
                       [("estimated_objects", LO, None), ("frame_ground_truth", FRAME, None), ("heap_", HEAP, None)], tup(HEAP, LR, FRAME), eff=True)
FILTER_CALL_SIG = (MANAGER_PY, MGR, "_filter_objects", [("estimated_objects", None), ("frame_ground_truth", None)])

DIVIDE = CallSpec("divide_objects w {objects} {target_labels}", [("objects", LR, None), ("target_labels", LL, None)], DIVR)
DIVIDE_NUM = CallSpec("divide_objects_to_num w {objects} {target_labels}", [("objects", LO, None), ("target_labels", LL, None)], DIVN)
DIVIDE_SIGS = [(FILTER_PY, None, "divide_objects", [("objects", None), ("target_labels", "None")]),
               (FILTER_PY, None, "divide_objects_to_num", [("objects", None), ("target_labels", "None")])]
DICT_APPEND = CallSpec("dappend {d} {k} {v}", [("d", DRES, None), ("k", LBL, None), ("v", LR, None)], DRES, eff=True)
DICT_ADD = CallSpec("dadd {d} {k} {v}", [("d", DNUM, None), ("k", LBL, None), ("v", NAT, None)], DNUM, eff=True)
TO_INT = CallSpec("frame_number w {x}", [("x", NAME, None)], ZT)
NEW_SCORE = CallSpec("new_score {config} {used_frame}", [("config", METRICS, None), ("used_frame", LZ, None)], SCORE)
NEW_SCORE_SIG = (METRICS_PY, "MetricsScore", "__init__", [("config", None), ("used_frame", None)])
SCORE_PARAMS = [("s", SCORE, None), ("object_results", DRES, None), ("num_ground_truth", DNUM, None)]
SCORE_SIGS = [(METRICS_PY, "MetricsScore", m, [("object_results", None), ("num_ground_truth", None)])
              for m in ("evaluate_detection", "evaluate_tracking", "evaluate_classification")]

GET_NOW = CallSpec("call_get_now_frame {ground_truth_frames} {unix_time} {threshold_min_time}",
                   [("ground_truth_frames", LOOKUP_FRAMES, None), ("unix_time", ZT, None), ("threshold_min_time", ZT, None)], NOWRES, eff=True)
GET_INTERP = CallSpec("loops_interp.Gen_get_interpolated_now_frame.f {ground_truth_frames} {unix_time} {threshold_min_time}",
                      [("ground_truth_frames", LOOKUP_FRAMES, None), ("unix_time", ZT, None), ("threshold_min_time", ZT, None)], NOWRES, eff=True)
LOOKUP_SIGS = [(DATASET_PY, None, n, [("ground_truth_frames", None), ("unix_time", None), ("threshold_min_time", None)])
               for n in ("get_now_frame", "get_interpolated_now_frame")]


def mk(name, file, func, params, penv, ret, pdefaults=None, hidden=None, heap=False, state_attrs=(), ret_prefix=(), mutators=None,
       heap_calls=(), properties=(), subscripts=None, **kw):
    fn = Fn(name, file, func, params, penv, ret, **kw)
    fn.pdefaults = pdefaults or {}
    fn.hidden, fn.heap, fn.state_attrs, fn.ret_prefix, fn.mutators, fn.heap_calls = hidden or {}, heap, tuple(state_attrs), tuple(ret_prefix), \
        mutators or {}, tuple(heap_calls)
    fn.properties, fn.subscripts = list(properties), subscripts or {}
    return fn


HEAP_HIDDEN = {"heap_": ("l_heap_", HEAP)}
RESULTS_HIDDEN = {"self_frame_results": ("l_self_frame_results", lst(FRES))}


def specs():
    S = []
    S.append(mk("_filter_objects", MANAGER_PY, "_filter_objects",
                "(w : world) (mc : mcfg w) (l_heap_ : heap w) (estimated_objects : list (ObjT w)) (frame_ground_truth : addr)",
                {"self": ("mc", SELF), "estimated_objects": ("estimated_objects", LO), "frame_ground_truth": ("frame_ground_truth", FRAME)},
                tup(HEAP, LR, FRAME), cls=MGR, attrs=ATTRS,
                funcs={"copy_": COPY, "set_objects_": SET_OBJECTS, "filter_objects": FILTER_OBJECTS, "filter_object_results": FILTER_RESULTS,
                       "get_object_results": GET_OBJECT_RESULTS},
                sigs=[FILTER_OBJECTS_SIG, FILTER_RESULTS_SIG, GET_OBJECT_RESULTS_SIG], properties=PROPERTIES,
                hidden=HEAP_HIDDEN, heap=True, ret_prefix=("heap_",)))
    S.append(mk("add_frame_result", MANAGER_PY, "add_frame_result",
                "(w : world) (mc : mcfg w) (l_heap_ : heap w) (l_self_frame_results : list (fresult w)) (unix_time : Z) "
                "(ground_truth_now_frame : addr) (estimated_objects : list (ObjT w)) (critical_object_filter_config : CritT w) "
                "(frame_pass_fail_config : PassT w)",
                {"self": ("mc", SELF), "unix_time": ("unix_time", ZT), "ground_truth_now_frame": ("ground_truth_now_frame", FRAME),
                 "estimated_objects": ("estimated_objects", LO), "critical_object_filter_config": ("critical_object_filter_config", CRIT),
                 "frame_pass_fail_config": ("frame_pass_fail_config", PASS)},
                tup(HEAP, lst(FRES), FRES), cls=MGR, attrs=ATTRS,
                funcs={"self._filter_objects": FILTER_CALL, "PerceptionFrameResult": NEW_FRESULT, "evaluate_frame_": EVALUATE_FRAME},
                sigs=[FILTER_CALL_SIG, NEW_FRESULT_SIG, EVALUATE_FRAME_SIG], properties=PROPERTIES, needs=("_filter_objects",),
                hidden={**HEAP_HIDDEN, **RESULTS_HIDDEN}, heap=True, state_attrs=("frame_results",),
                ret_prefix=("heap_", "self_frame_results"), mutators={"evaluate_frame": ("evaluate_frame_", True)},
                heap_calls=("self._filter_objects",)))
    score_call = {m: CallSpec(f"score_{m} w mc {{s}} {{object_results}} {{num_ground_truth}}", SCORE_PARAMS, SCORE)
                  for m in ("detection", "tracking", "classification")}
    S.append(mk("get_scene_result", MANAGER_PY, "get_scene_result",
                "(w : world) (mc : mcfg w) (l_heap_ : heap w) (l_self_frame_results : list (fresult w))",
                {"self": ("mc", SELF)}, SCORE, cls=MGR, attrs=ATTRS,
                funcs={"divide_objects": DIVIDE, "divide_objects_to_num": DIVIDE_NUM, "dict_append_": DICT_APPEND, "dict_add_": DICT_ADD,
                       "int": TO_INT, "MetricsScore": NEW_SCORE, **{f"evaluate_{m}_": c for m, c in score_call.items()}},
                sigs=DIVIDE_SIGS + [NEW_SCORE_SIG] + SCORE_SIGS, properties=PROPERTIES,
                local_types={"all_frame_results": DRES, "all_num_gt": DNUM, "used_frame": LZ},
                loops=[("list", (DRES, DNUM)), ("list", (DRES, DNUM, LZ))],
                hidden={**HEAP_HIDDEN, **RESULTS_HIDDEN}, state_attrs=("frame_results",),
                mutators={f"evaluate_{m}": (f"evaluate_{m}_", False) for m in score_call},
                subscripts={DIVR: (LBL, LR), DIVN: (LBL, NAT)}))
    S.append(mk("get_ground_truth_now_frame", BASE_PY, "get_ground_truth_now_frame",
                "(ground_truth_frames : list Lookup.frame) (unix_time threshold_min_time : Z) (interpolate_ground_truth : bool)",
                {"self": ("tt", coqt("unit")), "unix_time": ("unix_time", ZT), "threshold_min_time": ("threshold_min_time", ZT),
                 "interpolate_ground_truth": ("interpolate_ground_truth", BOOL)}, NOWRES, cls=BASE,
                pdefaults={"threshold_min_time": "75000", "interpolate_ground_truth": "False"},
                attrs={(coqt("unit"), "ground_truth_frames"): ("ground_truth_frames", LOOKUP_FRAMES)},
                funcs={"get_now_frame": GET_NOW, "get_interpolated_now_frame": GET_INTERP}, sigs=LOOKUP_SIGS))
    return S


HEADER = """(* GENERATED by translator/loops_manager.py from the Python source of /repo on every run -- do not edit.
   Part 1 (fixed text): the leaves of the frame evaluation (record `world`), the heap of ground-truth frames, frame results, scene
   scores, association-list dicts.  Part 2: one module per function, `f` = its body in the error monad Filter.res.
   Props/GenTieManager.v proves each `f` equal to the hand model (Model/Manager.v through an abstraction function, Model/Lookup.v). *)
From Coq Require Import String.
From Coq Require Import List Bool ZArith Arith.
From PE Require Import Base.QUtil.
From PE Require Model.Filter Model.Lookup.
From PE Require Gen.loops_tracking Gen.loops_interp.
Import ListNotations.
Import Filter.

(* KeyError: Filter.res has no constructor of its own for it (every KeyError of this file is proved unreachable) *)
Definition ErrKey {A : Type} : res A := ErrIndex.

(* ---- the LEAVES: everything the manager calls but does not define.  Labels are natural numbers (as in Model/AP.v). *)
Record world := mkWorld {
  ObjT : Type; ResT : Type; TrT : Type; NameT : Type; TaskT : Type; PolicyT : Type; RadiiT : Type; FParamsT : Type; LParamsT : Type;
  MetricsT : Type; CritT : Type; PassT : Type; DetT : Type; TrkT : Type; SDetT : Type; STrkT : Type; SClsT : Type;
  lp_policy : LParamsT -> PolicyT;                      (* label_params["matching_label_policy"] *)
  fp_radii : FParamsT -> RadiiT;                        (* filtering_params["max_matchable_radii"] *)
  fp_uuid_first : FParamsT -> bool;                     (* filtering_params["uuid_matching_first"] *)
  fp_uuids : FParamsT -> option (list string);          (* filtering_params.get("target_uuids") *)
  has_detection : MetricsT -> bool; has_tracking : MetricsT -> bool;       (* metrics_config.<x>_config is not None *)
  has_prediction : MetricsT -> bool; has_classification : MetricsT -> bool;
  (* filter_objects(objects, is_gt, transforms, **filtering_params) *)
  filter_objects : FParamsT -> bool -> option TrT -> list ObjT -> list ObjT;
  (* get_object_results(task, est, gt, target_labels, policy, matchable_thresholds, transforms, uuid_matching_first) *)
  get_object_results : TaskT -> list nat -> PolicyT -> RadiiT -> bool -> option TrT -> list ObjT -> list ObjT -> list ResT;
  (* filter_object_results(object_results, transforms, target_uuids) *)
  filter_results_by_uuid : option (list string) -> option TrT -> list ResT -> list ResT;
  (* PerceptionFrameResult.evaluate_frame without its tracking branch: (metrics, critical cfg, pass/fail cfg, unix_time, target labels,
     frame name, transforms, object results, ground truths) -> (results and ground truths after the critical filter, scores + pass/fail) *)
  eval_core : MetricsT -> CritT -> PassT -> Z -> list nat -> NameT -> TrT -> list ResT -> list ObjT -> list ResT * list ObjT * DetT;
  (* its tracking branch: reads previous_result.object_results (None: no predecessor) and the current filtered results / ground truths *)
  eval_track : MetricsT -> CritT -> option (list ResT) -> list ResT -> list ObjT -> TrkT;
  divide_objects : list ResT -> list nat -> nat -> list ResT;            (* divide_objects(results, target_labels)[label] *)
  divide_objects_to_num : list ObjT -> list nat -> nat -> nat;           (* divide_objects_to_num(objects, target_labels)[label] *)
  frame_number : NameT -> Z;                                             (* int(frame_name) *)
  (* MetricsScore(config, used_frame).evaluate_<x>(all_frame_results, all_num_gt): the dicts as they are *)
  scene_detection : MetricsT -> list Z -> list (nat * list (list ResT)) -> list (nat * nat) -> SDetT;
  scene_tracking : MetricsT -> list Z -> list (nat * list (list ResT)) -> list (nat * nat) -> STrkT;
  scene_classification : MetricsT -> list Z -> list (nat * list (list ResT)) -> list (nat * nat) -> SClsT
}.

(* ---- the manager's configuration (PerceptionEvaluationConfig) *)
Record ecfg (w : world) := mkEC { ec_task : TaskT w; ec_targets : list nat; ec_lparams : LParamsT w; ec_fparams : FParamsT w;
                                  ec_metrics : MetricsT w }.
Arguments ec_task {w}. Arguments ec_targets {w}. Arguments ec_lparams {w}. Arguments ec_fparams {w}. Arguments ec_metrics {w}.
Record mcfg (w : world) := mkMC { mc_config : ecfg w }.
Arguments mc_config {w}.

(* ---- the heap of FrameGroundTruth objects *)
Definition addr := nat.
Record gtframe (w : world) := mkGF { gf_name : NameT w; gf_transforms : TrT w; gf_objects : list (ObjT w) }.
Arguments mkGF {w}. Arguments gf_name {w}. Arguments gf_transforms {w}. Arguments gf_objects {w}.
Record heap (w : world) := mkHeap { h_next : addr; h_at : addr -> gtframe w }.
Arguments mkHeap {w}. Arguments h_next {w}. Arguments h_at {w}.
Definition h_set {w} (h : heap w) (a : addr) (g : gtframe w) : heap w :=
  mkHeap (h_next h) (fun b => if Nat.eqb b a then g else h_at h b).
(* copy.copy(frame): a new object with the same attribute values *)
Definition h_alloc {w} (h : heap w) (a : addr) : heap w * addr :=
  (mkHeap (S (h_next h)) (fun b => if Nat.eqb b (h_next h) then h_at h a else h_at h b), h_next h).
(* frame.objects = v *)
Definition h_set_objects {w} (h : heap w) (a : addr) (v : list (ObjT w)) : heap w :=
  h_set h a (mkGF (gf_name (h_at h a)) (gf_transforms (h_at h a)) v).

(* ---- PerceptionFrameResult: what the constructor stores, what evaluate_frame leaves behind *)
Record fresult (w : world) := mkFR {
  fr_name : NameT w; fr_time : Z; fr_targets : list nat; fr_results : list (ResT w); fr_gt : addr; fr_metrics : MetricsT w;
  fr_crit : CritT w; fr_pass : PassT w; fr_transforms : TrT w; fr_det : option (DetT w); fr_trk : option (TrkT w) }.
Arguments mkFR {w}. Arguments fr_name {w}. Arguments fr_time {w}. Arguments fr_targets {w}. Arguments fr_results {w}. Arguments fr_gt {w}.
Arguments fr_metrics {w}. Arguments fr_crit {w}. Arguments fr_pass {w}. Arguments fr_transforms {w}. Arguments fr_det {w}. Arguments fr_trk {w}.
Definition new_frame_result {w} (h : heap w) (rs : list (ResT w)) (a : addr) (m : MetricsT w) (c : CritT w) (p : PassT w) (t : Z)
    (tl : list nat) : fresult w :=
  mkFR (gf_name (h_at h a)) t tl rs a m c p (gf_transforms (h_at h a)) None None.
(* LEAF with a footprint: evaluate_frame replaces self.object_results, WRITES self.frame_ground_truth.objects, fills the scores *)
Definition evaluate_frame {w} (h : heap w) (r : fresult w) (prev : option (fresult w)) : heap w * fresult w :=
  let '(rs, gts, d) := eval_core w (fr_metrics r) (fr_crit r) (fr_pass r) (fr_time r) (fr_targets r) (fr_name r) (fr_transforms r)
                                 (fr_results r) (gf_objects (h_at h (fr_gt r))) in
  let tk := eval_track w (fr_metrics r) (fr_crit r) (option_map fr_results prev) rs gts in
  (h_set_objects h (fr_gt r) gts,
   mkFR (fr_name r) (fr_time r) (fr_targets r) rs (fr_gt r) (fr_metrics r) (fr_crit r) (fr_pass r) (fr_transforms r) (Some d) (Some tk)).

(* ---- insertion-ordered dicts keyed by labels *)
Fixpoint dget {V} (d : list (nat * V)) (k : nat) : option V :=
  match d with [] => None | (k', v) :: t => if Nat.eqb k' k then Some v else dget t k end.
Fixpoint dset {V} (d : list (nat * V)) (k : nat) (v : V) : list (nat * V) :=
  match d with [] => [(k, v)] | (k', v') :: t => if Nat.eqb k' k then (k', v) :: t else (k', v') :: dset t k v end.
Definition dappend {A} (d : list (nat * list A)) (k : nat) (x : A) : res (list (nat * list A)) :=
  match dget d k with Some cur => Ok (dset d k (cur ++ [x])) | None => ErrKey end.
Definition dadd (d : list (nat * nat)) (k : nat) (n : nat) : res (list (nat * nat)) :=
  match dget d k with Some cur => Ok (dset d k (cur + n)%nat) | None => ErrKey end.

(* ---- MetricsScore of a scene *)
Record sscore (w : world) := mkSS { ss_config : MetricsT w; ss_used : list Z; ss_detection : option (SDetT w);
                                    ss_tracking : option (STrkT w); ss_classification : option (SClsT w) }.
Arguments mkSS {w}. Arguments ss_config {w}. Arguments ss_used {w}. Arguments ss_detection {w}. Arguments ss_tracking {w}.
Arguments ss_classification {w}.
Definition new_score {w} (m : MetricsT w) (used : list Z) : sscore w := mkSS m used None None None.
Definition score_detection (w : world) (mc : mcfg w) (s : sscore w) d n : sscore w :=
  mkSS (ss_config s) (ss_used s) (Some (scene_detection w (ss_config s) (ss_used s) d n)) (ss_tracking s) (ss_classification s).
Definition score_tracking (w : world) (mc : mcfg w) (s : sscore w) d n : sscore w :=
  mkSS (ss_config s) (ss_used s) (ss_detection s) (Some (scene_tracking w (ss_config s) (ss_used s) d n)) (ss_classification s).
Definition score_classification (w : world) (mc : mcfg w) (s : sscore w) d n : sscore w :=
  mkSS (ss_config s) (ss_used s) (ss_detection s) (ss_tracking s) (Some (scene_classification w (ss_config s) (ss_used s) d n)).

(* ---- the two lookups (tied by Props/GenTieTracking.v / GenTieInterp.v) with ONE result type: a loaded frame, or the two neighbours
   and the time to interpolate at.  get_now_frame raises beyond 10^17 (its leading test is a definition of its own there) *)
Definition now_result := option (Lookup.frame + (Lookup.frame * Lookup.frame * Z)).
Definition call_get_now_frame (l : list Lookup.frame) (t tol : Z) : res now_result :=
  bind (loops_tracking.Gen_get_now_frame.raises_DatasetLoadingError l t tol) (fun r_ =>
  if r_ then ErrType else bind (loops_tracking.Gen_get_now_frame.f l t tol) (fun x_ => Ok (option_map inl x_))).
"""


def generate(repo):
    """-> (text, {function: why-not-translated})"""
    trees, out, bad, done = {}, [HEADER], {}, []
    for fn in specs():
        try:
            missing = [n for n in fn.needs if n not in done]
            if missing:
                fail("depends on " + ", ".join(missing) + " (not translated)")
            txt = translate_function(fn, repo, trees)
        except (TranslatorError, SyntaxError, OSError, RecursionError) as e:
            bad[fn.name] = f"{type(e).__name__}: {e}" if not isinstance(e, TranslatorError) else str(e)
            out.append(f"(* {fn.name}: not translated: {bad[fn.name].replace('*)', '* )').replace('(*', '( *')} *)\n")
            continue
        except Exception as e:  # noqa: BLE001  -- a defect of the translator itself must not look like a translation
            bad[fn.name] = f"internal error {type(e).__name__}: {e}"
            out.append(f"(* {fn.name}: not translated: {bad[fn.name].replace('*)', '* )').replace('(*', '( *')} *)\n")
            continue
        done.append(fn.name)
        out.append(txt + "\n")
    out.append("Open Scope string_scope.")
    out.append("Definition translated : list string := [" + "; ".join(coq_str(n) for n in done) + "].")
    return "\n".join(out) + "\n", bad


def regenerate(repo, outdir):
    """Write <outdir>/loops_manager.v (only when the content changes).  {"loops_manager.v": None} when every function was translated,
    else {"loops_manager.v": "partial: f1: not translated: why; ..."}."""
    os.makedirs(outdir, exist_ok=True)
    txt, bad = generate(repo)
    fname = MODNAME + ".v"
    path = os.path.join(outdir, fname)
    old = None
    if os.path.exists(path):
        with open(path) as fh:
            old = fh.read()
    if old != txt:
        with open(path, "w") as fh:
            fh.write(txt)
    if not bad:
        return {fname: None}
    return {fname: "partial: " + "; ".join(f"{k}: not translated: {v}" for k, v in bad.items())}


if __name__ == "__main__":
    repo_ = sys.argv[1] if len(sys.argv) > 1 else "/repo"
    outdir_ = sys.argv[2] if len(sys.argv) > 2 else os.path.join(HERE, "..", "coq", "theories", "Gen")
    try:
        st = regenerate(repo_, outdir_)
    except OSError as e_:
        print(f"{MODNAME}.v: could not be written: {e_}")
        sys.exit(1)
    for k_, v_ in st.items():
        print(f"{k_}: {'ok' if v_ is None else v_}")
    sys.exit(0)
