#!/usr/bin/env python3
"""Translator for the small pure DECISION FUNCTIONS of perception_eval: Python `ast` -> Gallina (Gen/Decisions.v).

A second, redundant tie between the code and the hand-written models (the first one is the correspondence that runs both on
the same inputs): every function below is re-translated from the source on every run and Props/GenTie*.v proves, for ALL
inputs, that the generated definition equals the hand model.  A one-token change of the source (`<` / `<=`, `and` / `or`, a
dropped `not`, a changed constant, a swapped branch) changes the generated definition and the equation stops checking.

What is generic (the "Python semantics" part, about 500 lines):
  expressions  BoolOp and/or (short-circuit, also when an operand can raise), `not`, Compare (< <= > >= == != is / is not
               None|True|False, `in (a, b)`, chains), IfExp, `bool(x)`, `abs(x)`, `a * b` on booleans, `seq[k]`, constants
               (numbers become exact Q / Z literals);
  statements   `if`/`elif`/`else`, `return`, (annotated) assignment, re-assignment of accumulators (let-binding in program
               order, joined after an `if` as a tuple), leading `assert`s (collected into a separate precondition `pre`);
  None         `x is None` / `x is not None` / truthiness of an Optional NARROWS x in the branch (a Coq `match`); an ordering
               comparison with a possibly-None operand raises TypeError (`ErrType` of Model/Filter.v), `nan` compares False;
  exceptions   functions declared `eff` live in the error monad `Filter.res` of the hand models (Ok / ErrType / ErrIndex).
What is per function (the VOCABULARY): the LEAF expressions -- attribute chains and calls on the objects -- are mapped to the
facts / record projections of the hand model's input type by an explicit table (key = `ast.unparse` of the leaf after
substituting single-assignment locals that merely name a fact).  A leaf that is not in the table, a statement form that is not
supported, a type that does not fit: TranslatorError for THAT function only (emitted as absent, reported as
"<function>: not translated: <why>").  Value-free statements are dropped first (`_DropNoOps` of py_to_coq + type asserts).

Only `ast` is used; the library is never imported.
"""
import ast
import copy
import os
import sys
from fractions import Fraction

sys.path.insert(0, os.path.dirname(os.path.abspath(__file__)))
from py_to_coq import PKG, TranslatorError, _DropNoOps, coq_str  # noqa: E402


def fail(msg, node=None):
    loc = f" (line {node.lineno})" if node is not None and hasattr(node, "lineno") else ""
    raise TranslatorError(msg + loc)


# =============================================================================================
# types
# =============================================================================================
class T:
    """base: bool Q Z nat str num none Pos obj flag | ('list', T) | ('enum', name) | ('tvar', name)
    nan: the value may be nan (only Q; rendered `option Q`, None = nan);  opt: the value may be Python's None."""

    def __init__(self, base, nan=False, opt=False):
        self.base, self.nan, self.opt = base, nan, opt

    def __eq__(self, o):
        return isinstance(o, T) and (self.base, self.nan, self.opt) == (o.base, o.nan, o.opt)

    def __hash__(self):
        return hash((str(self.base), self.nan, self.opt))

    def inner(self):
        return T(self.base, self.nan, False)

    def coq(self):
        b = self.base
        if isinstance(b, tuple):
            s = {"list": lambda: f"list {paren(b[1].coq())}", "enum": lambda: b[1], "tvar": lambda: b[1]}[b[0]]()
        else:
            s = {"bool": "bool", "Q": "Q", "Z": "Z", "nat": "nat", "str": "string", "Pos": "(Q * Q * Q)"}.get(b)
            if s is None:
                fail(f"type {b} has no Coq rendering")
        if self.nan:
            s = f"option {paren(s)}"
        if self.opt:
            s = f"option {paren(s)}"
        return s

    def __repr__(self):
        return ("opt " if self.opt else "") + ("nan " if self.nan else "") + str(self.base)


def paren(s):
    s = s.strip()
    if " " in s and not (s.startswith("(") and s.endswith(")") and _balanced(s[1:-1])):
        return f"({s})"
    return s


def _balanced(s):
    d = 0
    for ch in s:
        d += ch == "("
        d -= ch == ")"
        if d < 0:
            return False
    return d == 0


BOOL, QT, ZT, NAT, STR, NUM, NONE, POS, OBJ, FLAG = (T(x) for x in ("bool", "Q", "Z", "nat", "str", "num", "none", "Pos", "obj", "flag"))


def opt(t):
    return T(t.base, t.nan, True)


def lst(t):
    return T(("list", t))


def join(a, b, node=None):
    """least upper bound; the coercions are Some / option_map Some / exact literals"""
    if a.base == "none" and b.base == "none":
        return NONE
    if a.base == "none":
        return opt(b)
    if b.base == "none":
        return opt(a)
    if a.base == b.base:
        base = a.base
    elif a.base == "num" and b.base in ("Q", "Z"):
        base = b.base
    elif b.base == "num" and a.base in ("Q", "Z"):
        base = a.base
    else:
        fail(f"incompatible types {a} / {b}", node)
    return T(base, a.nan or b.nan, a.opt or b.opt)


def qlit(x):
    f = Fraction(x)
    return f"({f.numerator} # {f.denominator})" if f >= 0 else f"(- ({-f.numerator} # {f.denominator}))"


class E:
    """a translated expression: Coq term, type, eff (True: the term has type `Filter.res <type>`)"""

    def __init__(self, term, ty, eff=False, const=None):
        self.term, self.ty, self.eff, self.const = term, ty, eff, const


def lift(e):
    return e if e.eff else E(f"Ok {paren(e.term)}", e.ty, True)


def coerce_pure(term, frm, to, node=None):
    if frm == to:
        return term
    if frm.base == "none":
        if not to.opt:
            fail(f"None where a {to} is needed", node)
        return "None"
    if frm.opt and not to.opt:
        fail(f"a value that may be None is used where a {to} is needed", node)
    if frm.nan and not to.nan:
        fail(f"a value that may be nan is used where a {to} is needed", node)
    base_ok = frm.base == to.base or (frm.base == "num" and to.base in ("Q", "Z"))
    if not base_ok:
        fail(f"cannot use a {frm} as a {to}", node)

    def inner(t):  # value of type frm.inner() -> to.inner()
        if frm.base == "num" and to.base == "Q":
            t = qlit(t)
        elif frm.base == "num" and to.base == "Z":
            if Fraction(t).denominator != 1:
                fail("non-integer literal where an integer is needed", node)
            t = f"({int(Fraction(t))})%Z"
        if to.nan and not frm.nan:
            t = f"Some {paren(t)}"
        return t

    if frm.opt:
        if frm.inner() == to.inner():
            return term
        return f"option_map (fun x_ => {inner('x_')}) {paren(term)}"
    t = inner(term)
    return f"Some {paren(t)}" if to.opt else t


def coerce(e, to, node=None):
    if e.ty == to:
        return e
    if not e.eff:
        return E(coerce_pure(e.term, e.ty, to, node), to, False)
    return E(f"bind {paren(e.term)} (fun y_ => Ok {paren(coerce_pure('y_', e.ty, to, node))})", to, True)


# =============================================================================================
# vocabulary entries and environments
# =============================================================================================
class V:
    """term: Coq template; `{key}` = the NARROWED (known not None / non-empty) value of another leaf or local;
    requires: keys that must be known not-None where this leaf is used (for `flag` leaves, which have no payload)."""

    def __init__(self, term, ty, eff=False, requires=(), const=None):
        self.term, self.ty, self.eff, self.requires, self.const = term, ty, eff, tuple(requires), const


class Env:
    def __init__(self, fn):
        self.fn = fn
        self.vars = {}      # python local -> E (term = Coq binder)
        self.narrow = {}    # key (leaf key or local name) -> (term, type) of the payload
        self.nonnull = set()
        self.alias = {}     # local assigned once from a pure leaf -> its defining AST

    def copy(self):
        e = Env(self.fn)
        e.vars, e.narrow, e.nonnull, e.alias = dict(self.vars), dict(self.narrow), set(self.nonnull), dict(self.alias)
        return e


class Fn:
    """one function to translate"""

    def __init__(self, name, file, func, params, ret, vocab, cls=None, eff=False, imports=(), implicit="", doc=""):
        self.name, self.file, self.cls, self.func = name, file, cls, func
        self.params, self.ret, self.vocab, self.eff, self.imports, self.implicit, self.doc = params, ret, vocab, eff, imports, implicit, doc
        self.counter = 0
        self.stores = {}

    def fresh(self, hint="n"):
        self.counter += 1
        return f"{hint}{self.counter}"


class _Subst(ast.NodeTransformer):
    def __init__(self, alias):
        self.alias = alias

    def visit_Name(self, node):
        if isinstance(node.ctx, ast.Load) and node.id in self.alias:
            return copy.deepcopy(self.alias[node.id])
        return node


def norm_key(node, env):
    n = _Subst(env.alias).visit(copy.deepcopy(node)) if env.alias else node
    return ast.unparse(n)


# =============================================================================================
# expressions
# =============================================================================================
def fill(template, env, node):
    out, i = "", 0
    while i < len(template):
        if template[i] == "{":
            j = template.index("}", i)
            key = template[i + 1:j]
            if key not in env.narrow:
                fail(f"`{key}` is used where it may be None / empty", node)
            out += paren(env.narrow[key][0])
            i = j + 1
        else:
            out += template[i]
            i += 1
    return out


def lookup_leaf(node, env):
    """vocabulary lookup of a whole expression; None if it is not a leaf"""
    if isinstance(node, ast.Name) and node.id in env.vars:
        v = env.vars[node.id]
        if node.id in env.narrow:
            t, ty = env.narrow[node.id]
            return E(t, ty)
        return v
    key = norm_key(node, env)
    if key in env.narrow:
        t, ty = env.narrow[key]
        return E(t, ty)
    v = env.fn.vocab.get(key)
    if v is None:
        return None
    for r in v.requires:
        if r not in env.nonnull and r not in env.narrow:
            fail(f"`{key}` is used where `{r}` may be None", node)
    return E(fill(v.term, env, node), v.ty, v.eff, const=v.const)


def narrow_key(node, env):
    """key under which a narrowing of `node` is recorded (a local or a vocabulary leaf), else None"""
    if isinstance(node, ast.Name) and node.id in env.vars:
        return node.id
    key = norm_key(node, env)
    return key if key in env.fn.vocab else None


def tr(node, env):
    leaf = lookup_leaf(node, env)
    if leaf is not None:
        return leaf
    if isinstance(node, ast.Name) and node.id in env.alias:
        return tr(env.alias[node.id], env)
    if isinstance(node, ast.Constant):
        v = node.value
        if v is True or v is False:
            return E("true" if v else "false", BOOL, const=v)
        if v is None:
            return E("None", NONE)
        if isinstance(v, (int, float)):
            if isinstance(v, float) and (v != v or v in (float("inf"), float("-inf"))):
                fail("non-finite constant", node)
            return E(Fraction(v), NUM)
        fail(f"constant {v!r}", node)
    if isinstance(node, (ast.BoolOp, ast.Compare, ast.UnaryOp)) and not needs_cps(node, env):
        d = tr_direct(node, env)
        if d is not None:
            return d
    if isinstance(node, ast.UnaryOp) and isinstance(node.op, ast.Not):
        return tree_render(cond(node.operand, env, lambda e: [E("false", BOOL, const=False)], lambda e: [E("true", BOOL, const=True)]), env)[0]
    if isinstance(node, ast.UnaryOp) and isinstance(node.op, ast.USub):
        a = tr(node.operand, env)
        if a.ty.base == "num":
            return E(-a.term, NUM)
        fail("unary minus on a non-literal", node)
    if isinstance(node, (ast.BoolOp, ast.Compare)):
        return tree_render(cond(node, env, lambda e: [E("true", BOOL, const=True)], lambda e: [E("false", BOOL, const=False)]), env)[0]
    if isinstance(node, ast.IfExp):
        return tree_render(cond(node.test, env, lambda e: [tr(node.body, e)], lambda e: [tr(node.orelse, e)]), env)[0]
    if isinstance(node, ast.Call) and isinstance(node.func, ast.Name) and not node.keywords and len(node.args) == 1:
        if node.func.id == "bool":
            a = tr(node.args[0], env)
            if a.ty != BOOL:
                fail("bool() of a non-boolean", node)
            return a
        if node.func.id == "abs":
            a = tr(node.args[0], env)
            if a.ty != QT or a.eff:
                fail("abs() of a non-rational", node)
            return E(f"qabs {paren(a.term)}", QT)
    if isinstance(node, ast.BinOp) and isinstance(node.op, ast.Mult):
        a, b = tr(node.left, env), tr(node.right, env)
        if a.ty == BOOL and b.ty == BOOL and not a.eff and not b.eff:
            return E(f"{paren(a.term)} && {paren(b.term)}", BOOL)      # True * False on bools: 1 exactly when both are True
        fail("`*` on non-booleans", node)
    if isinstance(node, ast.Subscript):
        a = tr(node.value, env)
        if a.ty == POS and isinstance(node.slice, ast.Constant) and node.slice.value in (0, 1):
            return E(f"{'fst' if node.slice.value == 0 else 'snd'} (fst {paren(a.term)})", QT)
        if isinstance(a.ty.base, tuple) and a.ty.base[0] == "list" and not a.ty.opt and not a.eff:
            i = tr(node.slice, env)
            if i.ty == NAT:    # seq[i]: IndexError when out of range (indices here are list.index results: never negative)
                if not i.eff:
                    return E(f"match nth_error {paren(a.term)} {paren(i.term)} with Some x_ => Ok x_ | None => ErrIndex end", a.ty.base[1], True)
                v = env.fn.fresh("i")
                return E(f"bind {paren(i.term)} (fun {v} => match nth_error {paren(a.term)} {v} with Some x_ => Ok x_ | None => ErrIndex end)", a.ty.base[1], True)
        fail(f"subscript {ast.unparse(node)}", node)
    fail(f"leaf not in the vocabulary: `{norm_key(node, env)}`", node)


def needs_cps(node, env):
    """does the boolean expression narrow an Optional (is None / truthiness) or contain an operand that can raise?"""
    if isinstance(node, ast.BoolOp):
        return any(needs_cps(v, env) for v in node.values)
    if isinstance(node, ast.UnaryOp) and isinstance(node.op, ast.Not):
        return needs_cps(node.operand, env)
    if isinstance(node, ast.Compare):
        if lookup_leaf(node, env) is not None:
            return lookup_leaf(node, env).eff
        for op, c in zip(node.ops, node.comparators):
            if isinstance(op, (ast.Is, ast.IsNot)) and isinstance(c, ast.Constant) and c.value is None:
                return True
            if isinstance(op, (ast.In, ast.NotIn)):
                return True
        ops = [node.left] + list(node.comparators)
        es = [tr(o, env) for o in ops]
        return any(e.eff or e.ty.opt or e.ty.nan for e in es)
    if isinstance(node, ast.Call) and isinstance(node.func, ast.Name) and node.func.id == "bool" and len(node.args) == 1:
        return needs_cps(node.args[0], env)
    e = tr(node, env)
    return e.eff or e.ty != BOOL


def tr_direct(node, env):
    """boolean expression without narrowing and without effects -> one boolean term (&&, ||, negb)"""
    if isinstance(node, ast.BoolOp):
        es = [tr(v, env) for v in node.values]
        if any(e.ty != BOOL or e.eff for e in es):
            return None
        op = " && " if isinstance(node.op, ast.And) else " || "
        return E(op.join(paren(e.term) for e in es), BOOL)
    if isinstance(node, ast.UnaryOp) and isinstance(node.op, ast.Not):
        e = tr(node.operand, env)
        if e.ty != BOOL or e.eff:
            return None
        return E(f"negb {paren(e.term)}", BOOL)
    if isinstance(node, ast.Compare):
        es, left = [], node.left
        for op, right in zip(node.ops, node.comparators):
            es.append(compare_atom(op, tr(left, env), tr(right, env), env, node))
            left = right
        if any(e.eff for e in es):
            return None
        return E(" && ".join(paren(e.term) for e in es), BOOL)
    return None


def num_term(e, ty, node):
    return coerce_pure(e.term, e.ty, ty, node)


def compare_atom(op, l, r, env, node):
    """one comparison of two translated operands -> E of type bool (possibly eff)"""
    a, b = l, r
    # is / is not
    if isinstance(op, (ast.Is, ast.IsNot)):
        neg = isinstance(op, ast.IsNot)
        if b.ty.base == "none":
            fail("`is None` on an expression that is not a known Optional", node)
        if b.const in (True, False) and a.ty == BOOL and not a.eff:
            pos = (b.const is True) != neg
            return E(a.term if pos else f"negb {paren(a.term)}", BOOL)
        fail("`is` on unsupported operands", node)
    if a.eff and b.eff:
        fail("both operands of a comparison can raise", node)
    if isinstance(op, (ast.Eq, ast.NotEq)):
        if a.eff or b.eff:
            fail("== on an operand that can raise", node)
        neg = isinstance(op, ast.NotEq)
        ta, tb = a.ty, b.ty
        if isinstance(ta.base, tuple) and ta.base[0] == "enum" and ta == tb:
            if b.const is not None:
                t = f"match {a.term} with {b.const} => true | _ => false end"
            elif a.const is not None:
                t = f"match {b.term} with {a.const} => true | _ => false end"
            else:
                fail("== between two non-constant enum values", node)
        else:
            ty = join(ta, tb, node)
            if ty.opt or ty.nan:
                fail("== on a possibly-None / nan value", node)
            f = {"bool": "Bool.eqb", "nat": "Nat.eqb", "Q": "Qeqb", "Z": "Z.eqb", "str": "String.eqb"}.get(ty.base)
            if f is None:
                fail(f"== on {ty}", node)
            t = f"{f} {paren(num_term(a, ty, node))} {paren(num_term(b, ty, node))}"
        return E(f"negb ({t})" if neg else t, BOOL)
    if isinstance(op, (ast.Lt, ast.LtE, ast.Gt, ast.GtE)):
        base = join(T(a.ty.base), T(b.ty.base), node).base
        if base == "num":
            base = "Q"
        if base not in ("Q", "Z"):
            fail(f"ordering comparison on {a.ty} / {b.ty}", node)
        bt = T(base)
        strict = isinstance(op, (ast.Lt, ast.Gt))
        flip = isinstance(op, (ast.Gt, ast.GtE))
        f = {("Q", True): "Qltb", ("Q", False): "Qleb", ("Z", True): "Z.ltb", ("Z", False): "Z.leb"}[(base, strict)]

        def operand(x):
            """-> (binder-or-term, wrappers) ; wrappers applied outside-in"""
            wraps = []
            t = x.term
            if x.eff:
                v = env.fn.fresh("e")
                wraps.append(("bind", t, v))
                t = v
            if x.ty.opt:          # ordering against None: TypeError
                v = env.fn.fresh("s")
                wraps.append(("opt", t, v))
                t = v
            if x.ty.nan:          # ordering against nan: False
                v = env.fn.fresh("f")
                wraps.append(("nan", t, v))
                t = v
            else:
                t = coerce_pure(t, T(x.ty.base), bt, node)
            return t, wraps

        ta, wa = operand(a)
        tb, wb = operand(b)
        x, y = (tb, ta) if flip else (ta, tb)
        term, eff = f"{f} {paren(x)} {paren(y)}", False
        for kind, t, v in reversed(wa + wb):
            if kind == "nan":
                term = f"match {t} with Some {v} => {term} | None => {'Ok false' if eff else 'false'} end"
            elif kind == "opt":
                term = f"match {t} with Some {v} => {term if eff else 'Ok ' + paren(term)} | None => ErrType end"
                eff = True
            else:
                term = f"bind {paren(t)} (fun {v} => {term if eff else 'Ok ' + paren(term)})"
                eff = True
        return E(term, BOOL, eff)
    if isinstance(op, (ast.In, ast.NotIn)):
        fail("`in` is only supported against a tuple of constants or as a vocabulary leaf", node)
    fail(f"comparison operator {type(op).__name__}", node)


# ---- conditions in continuation-passing style: a decision TREE whose leaves are lists of E -------------------------------
# ('leaf', [E...]) | ('if', term, T, F) | ('bindif', term, T, F) | ('mopt', scrut, binder, Tsome, Fnone)
# | ('mlist', scrut, h, t, Tnonempty, Fother)
def cond(test, env, kt, kf):
    """tree for `kt(env') if test else kf(env'')` with None-narrowing of Optionals in the branches"""
    if isinstance(test, (ast.BoolOp, ast.Compare, ast.UnaryOp)) and lookup_leaf(test, env) is None and not needs_cps(test, env):
        d = tr_direct(test, env)
        if d is not None:
            return bool_node(d, env, kt, kf, test)
    if isinstance(test, ast.BoolOp):
        vals = test.values
        if isinstance(test.op, ast.And):
            if len(vals) == 1:
                return cond(vals[0], env, kt, kf)
            rest = ast.BoolOp(op=ast.And(), values=vals[1:])
            return cond(vals[0], env, lambda e: cond(rest, e, kt, kf), kf)
        if len(vals) == 1:
            return cond(vals[0], env, kt, kf)
        rest = ast.BoolOp(op=ast.Or(), values=vals[1:])
        return cond(vals[0], env, kt, lambda e: cond(rest, e, kt, kf))
    if isinstance(test, ast.UnaryOp) and isinstance(test.op, ast.Not):
        return cond(test.operand, env, kf, kt)
    if isinstance(test, ast.Constant) and test.value in (True, False):
        return ("if", "true" if test.value else "false", kt(env), kf(env))
    if isinstance(test, ast.Call) and isinstance(test.func, ast.Name) and test.func.id == "bool" and len(test.args) == 1 and not test.keywords:
        inner = test.args[0]
        if not (isinstance(inner, ast.BinOp)):
            return cond(inner, env, kt, kf)
    if isinstance(test, ast.Compare) and len(test.ops) > 1:
        # a < b < c  ==  a < b and b < c   (b is evaluated once; fine for the pure operands accepted here)
        parts, left = [], test.left
        for op, right in zip(test.ops, test.comparators):
            parts.append(ast.Compare(left=left, ops=[op], comparators=[right]))
            left = right
        mid = [tr(c, env) for c in test.comparators[:-1]]
        if any(m.eff for m in mid):
            fail("chained comparison with an operand that can raise", test)
        return cond(ast.BoolOp(op=ast.And(), values=parts), env, kt, kf)
    if isinstance(test, ast.Compare):
        op, lhs, rhs = test.ops[0], test.left, test.comparators[0]
        if isinstance(op, (ast.Is, ast.IsNot)) and isinstance(rhs, ast.Constant) and rhs.value is None:
            k_none, k_some = (kf, kt) if isinstance(op, ast.IsNot) else (kt, kf)
            return narrow_none(lhs, env, k_none, k_some, test)
        if isinstance(op, ast.NotIn) and lookup_leaf(test, env) is None:
            pos = ast.Compare(left=lhs, ops=[ast.In()], comparators=[rhs])
            if lookup_leaf(pos, env) is not None:          # `x not in xs` where `x in xs` is a leaf
                return cond(pos, env, kf, kt)
        if isinstance(op, (ast.In, ast.NotIn)) and isinstance(rhs, ast.Tuple):
            if lookup_leaf(test, env) is None:
                eqs = [ast.Compare(left=lhs, ops=[ast.Eq()], comparators=[e]) for e in rhs.elts]
                if not eqs:
                    fail("`in ()`", test)
                t = ast.BoolOp(op=ast.Or(), values=eqs)
                return cond(t, env, kf, kt) if isinstance(op, ast.NotIn) else cond(t, env, kt, kf)
        leaf = lookup_leaf(test, env)
        e = leaf if leaf is not None else compare_atom(op, tr(lhs, env), tr(rhs, env), env, test)
        return bool_node(e, env, kt, kf, test)
    # a bare expression in boolean context
    leaf = lookup_leaf(test, env)
    e = leaf if leaf is not None else tr(test, env)
    if e.ty == BOOL:
        return bool_node(e, env, kt, kf, test)
    key = narrow_key(test, env)
    if e.ty == FLAG or (e.ty.opt and e.ty.inner().base in ("obj",)):
        return narrow_none(test, env, kf, kt, test)        # truthiness of an Optional object: `is not None`
    if e.ty.opt and isinstance(e.ty.base, tuple) and e.ty.base[0] == "list" and key is not None and not e.eff:
        # truthiness of Optional[List]: neither None nor empty
        h, t = env.fn.fresh("h"), env.fn.fresh("t")
        e1 = env.copy()
        e1.narrow[key] = (f"{h} :: {t}", e.ty.inner())
        return ("mlist", e.term, h, t, kt(e1), kf(env))
    fail(f"truthiness of a {e.ty}", test)


def bool_node(e, env, kt, kf, node):
    if e.ty != BOOL:
        fail(f"a {e.ty} used as a condition", node)
    if e.const is True:
        return kt(env)
    if e.const is False:
        return kf(env)
    return ("bindif" if e.eff else "if", e.term, kt(env), kf(env))


def narrow_none(x, env, k_none, k_some, node):
    key = narrow_key(x, env)
    if key is None:
        fail(f"`{norm_key(x, env)}` compared with None is not a vocabulary leaf / local", node)
    if key in env.narrow or key in env.nonnull:
        return k_some(env)                      # already known not to be None
    e = lookup_leaf(x, env)
    if e.eff:
        fail("`is None` on an expression that can raise", node)
    if e.ty == FLAG:
        e1 = env.copy()
        e1.nonnull.add(key)
        return ("if", e.term, k_some(e1), k_none(env))
    if e.ty.base == "none":
        return k_none(env)
    if not e.ty.opt:
        fail(f"`{key}` (a {e.ty}) is compared with None but is never None in the model", node)
    v = env.fn.fresh("v")
    e1 = env.copy()
    e1.narrow[key] = (v, e.ty.inner())
    return ("mopt", e.term, v, k_some(e1), k_none(env))


def tree_leaves(t):
    if t[0] == "leaf":
        yield t[1]
    elif isinstance(t, tuple) and t[0] in ("if", "bindif"):
        yield from tree_leaves(t[2])
        yield from tree_leaves(t[3])
    elif t[0] == "mopt":
        yield from tree_leaves(t[3])
        yield from tree_leaves(t[4])
    elif t[0] == "mlist":
        yield from tree_leaves(t[4])
        yield from tree_leaves(t[5])


def norm_tree(t):
    """continuations return plain lists of E: wrap them"""
    if isinstance(t, list):
        return ("leaf", t)
    if t[0] == "leaf":
        return t
    if t[0] in ("if", "bindif"):
        return (t[0], t[1], norm_tree(t[2]), norm_tree(t[3]))
    if t[0] == "mopt":
        return (t[0], t[1], t[2], norm_tree(t[3]), norm_tree(t[4]))
    return (t[0], t[1], t[2], t[3], norm_tree(t[4]), norm_tree(t[5]))


def tree_eff(t):
    if t[0] == "leaf":
        return any(e.eff for e in t[1])
    if t[0] == "bindif":
        return True
    kids = t[2:4] if t[0] == "if" else (t[3:5] if t[0] == "mopt" else t[4:6])
    return any(tree_eff(k) for k in kids)


def tree_render(tree, env, node=None):
    """-> list of E (one per component) sharing ONE Coq term when there are several components (a tuple)"""
    tree = norm_tree(tree)
    leaves = list(tree_leaves(tree))
    n = len(leaves[0])
    if any(len(l) != n for l in leaves):
        fail("internal: ragged join", node)
    tys = []
    for i in range(n):
        ty = leaves[0][i].ty
        for l in leaves[1:]:
            ty = join(ty, l[i].ty, node)
        if ty.base == "num":
            ty = T("Q", ty.nan, ty.opt)
        tys.append(ty)
    eff = tree_eff(tree)

    def leaf_term(es):
        if len(es) > 1 and any(e.eff for e in es):
            fail("internal: effectful component in a tuple", node)
        cs = [coerce(e, ty, node) for e, ty in zip(es, tys)]
        if len(cs) == 1:
            c = cs[0]
            return lift(c).term if eff else c.term
        t = "(" + ", ".join(c.term for c in cs) + ")"
        return f"Ok {t}" if eff else t

    def go(t):
        k = t[0]
        if k == "leaf":
            return leaf_term(t[1])
        if k in ("if", "bindif"):
            cs = [x[1][0].const if x[0] == "leaf" and len(x[1]) == 1 and not x[1][0].eff and tys[0] == BOOL else None for x in (t[2], t[3])]
            if cs in ([True, False], [False, True]) and t[1] not in ("true", "false"):
                c = t[1] if cs[0] else (f"negb {paren(t[1])}" if k == "if" else f"bind {paren(t[1])} (fun b_ => Ok (negb b_))")
                return c if (k == "bindif" or not eff) else f"Ok {paren(c)}"
        if k == "if":
            a, b = go(t[2]), go(t[3])
            if t[1] == "true":
                return a
            if t[1] == "false":
                return b
            return f"(if {t[1]} then {a} else {b})"
        if k == "bindif":
            v = env.fn.fresh("b")
            return f"bind {paren(t[1])} (fun {v} => if {v} then {go(t[2])} else {go(t[3])})"
        if k == "mopt":
            return f"match {t[1]} with Some {t[2]} => {go(t[3])} | None => {go(t[4])} end"
        return f"match {t[1]} with Some ({t[2]} :: {t[3]}) => {go(t[4])} | _ => {go(t[5])} end"

    term = go(tree)
    if n == 1:
        return [E(term, tys[0], eff)]
    return [E(term, ty, eff) for ty in tys]


# =============================================================================================
# statements
# =============================================================================================
def stores(stmts):
    out = {}
    for s in stmts:
        for n in ast.walk(s):
            if isinstance(n, ast.Name) and isinstance(n.ctx, ast.Store):
                out[n.id] = out.get(n.id, 0) + 1
    return out


def maybe_assigned(stmts):
    return set(stores(stmts))


def def_assigned(stmts):
    out = set()
    for s in stmts:
        if isinstance(s, (ast.Assign, ast.AnnAssign)):
            tg = s.targets if isinstance(s, ast.Assign) else ([s.target] if s.value is not None else [])
            out |= {t.id for t in tg if isinstance(t, ast.Name)}
        elif isinstance(s, ast.If):
            out |= def_assigned(s.body) & def_assigned(s.orelse)
    return out


def has_return(stmts):
    return any(isinstance(n, ast.Return) for s in stmts for n in ast.walk(s))


def binder(name):
    return "l_" + name


def tr_stmts(ss, env, k):
    """-> [E] of the function's return type; k(env) continues after the block (None: falling off the end)"""
    fn = env.fn
    if not ss:
        if k is None:
            fail(f"{fn.func}: control can reach the end of the function without a return")
        return k(env)
    s, rest = ss[0], ss[1:]
    if isinstance(s, ast.Expr) and isinstance(s.value, ast.Constant) and isinstance(s.value.value, str):
        return tr_stmts(rest, env, k)
    if isinstance(s, ast.Pass):
        return tr_stmts(rest, env, k)
    if isinstance(s, ast.Return):
        if s.value is None:
            fail("bare return", s)
        return [coerce(tr(s.value, env), fn.ret, s)]
    if isinstance(s, ast.AnnAssign) and s.value is None:
        return tr_stmts(rest, env, k)
    if isinstance(s, (ast.Assign, ast.AnnAssign)):
        targets = s.targets if isinstance(s, ast.Assign) else [s.target]
        if not all(isinstance(t, ast.Name) for t in targets):
            fail("assignment to something that is not a plain name", s)
        names = [t.id for t in targets]
        # a single-assignment local that merely NAMES a pure fact: substituted, not bound
        if len(names) == 1 and fn.stores.get(names[0]) == 1 and names[0] not in env.vars:
            key = norm_key(s.value, env)
            v = fn.vocab.get(key)
            if v is not None and not v.eff:
                e1 = env.copy()
                e1.alias[names[0]] = _Subst(env.alias).visit(copy.deepcopy(s.value))
                return tr_stmts(rest, e1, k)
        val = tr(s.value, env)
        if val.ty.base == "obj":
            fail(f"`{names[0]}` is bound to an opaque object more than once", s)
        if val.ty.base == "num":
            val = coerce(val, QT, s)
        e1 = env.copy()
        b0 = binder(names[0])
        for nm in names:
            e1.vars[nm] = E(b0, val.ty)
            e1.narrow.pop(nm, None)
            e1.alias.pop(nm, None)
            if val.ty.base == "none":
                pass
        body = tr_stmts(rest, e1, k)
        if val.ty.base == "none":
            return body                      # the name stands for the literal None until it is re-assigned
        return [seq_bind(val, [b0], body)]
    if isinstance(s, ast.If):
        if has_return([s]):
            kk = (lambda e: tr_stmts(rest, e, k)) if (rest or k is not None) else None
            tree = cond(s.test, env, lambda e: tr_stmts(s.body, e, kk), lambda e: tr_stmts(s.orelse, e, kk))
            return tree_render(tree, env, s)
        mv, dv = maybe_assigned([s]), def_assigned([s])
        jv = sorted(v for v in mv if v in env.vars or v in dv)
        if not jv:
            fail("an `if` that neither returns nor assigns a variable that is live afterwards", s)

        seen = []

        def probe(e):
            seen.append([lookup_leaf_var(v, e, s).ty for v in jv])
            return [E("tt", BOOL)]

        cond(s.test, env, lambda e: tr_stmts(s.body, e, probe), lambda e: tr_stmts(s.orelse, e, probe))
        tys = seen[0]
        for row in seen[1:]:
            tys = [join(a, b, s) for a, b in zip(tys, row)]
        tys = [T("Q", t.nan, t.opt) if t.base == "num" else t for t in tys]
        if any(t.base == "none" for t in tys):
            fail("a variable that is None on every path", s)
        tup = T(("tuple", tuple(tys)))

        def kj(e):
            cs = [coerce_pure(x.term, x.ty, ty, s) for x, ty in zip((lookup_leaf_var(v, e, s) for v in jv), tys)]
            return [E(cs[0], tys[0])] if len(cs) == 1 else [E("(" + ", ".join(cs) + ")", tup)]

        tree = cond(s.test, env, lambda e: tr_stmts(s.body, e, kj), lambda e: tr_stmts(s.orelse, e, kj))
        one = tree_render(tree, env, s)[0]
        comps = [E(one.term, ty, one.eff) for ty in tys]
        e1 = env.copy()
        for v in mv:
            e1.vars.pop(v, None)
            e1.narrow.pop(v, None)
            e1.alias.pop(v, None)
        bs = [binder(v) for v in jv]
        for v, c in zip(jv, comps):
            e1.vars[v] = E(binder(v), c.ty)
        body = tr_stmts(rest, e1, k)
        return [seq_bind(E(comps[0].term, None, comps[0].eff), bs, body)]
    fail(f"unsupported statement {type(s).__name__}", s)


def lookup_leaf_var(v, e, node):
    if v not in e.vars:
        fail(f"`{v}` is not assigned on every path", node)
    x = e.vars[v]
    return E(x.term, x.ty)          # the un-narrowed value (the join re-binds it)


def seq_bind(val, binders, body):
    """let / bind of `val` to the binders, then `body` ([E] with one component)"""
    b = body[0]
    pat = binders[0] if len(binders) == 1 else "'(" + ", ".join(binders) + ")"
    if not b.eff and b.term == (binders[0] if len(binders) == 1 else "(" + ", ".join(binders) + ")"):
        return E(val.term, b.ty, val.eff)          # `x = e; return x`
    if val.eff:
        bt = lift(b)
        return E(f"bind {paren(val.term)} (fun {pat} =>\n  {bt.term})", b.ty, True)
    return E(f"let {pat} := {val.term} in\n  {b.term}", b.ty, b.eff)


# =============================================================================================
# one function
# =============================================================================================
class _DropTypeAsserts(ast.NodeTransformer):
    """`assert all([isinstance(u, str) for u in xs])`: a type assertion like `assert isinstance(...)` (dropped by _DropNoOps)"""

    @staticmethod
    def _is_type_assert(s):
        if not isinstance(s, ast.Assert):
            return False
        t = s.test
        if isinstance(t, ast.Call) and isinstance(t.func, ast.Name) and t.func.id == "all" and len(t.args) == 1:
            a = t.args[0]
            if isinstance(a, (ast.ListComp, ast.GeneratorExp)):
                e = a.elt
                return isinstance(e, ast.Call) and isinstance(e.func, ast.Name) and e.func.id == "isinstance"
        return False

    def generic_visit(self, node):
        super().generic_visit(node)
        for fld in ("body", "orelse"):
            b = getattr(node, fld, None)
            if isinstance(b, list) and b and all(isinstance(x, ast.stmt) for x in b):
                nb = [x for x in b if not self._is_type_assert(x)]
                setattr(node, fld, nb if nb or fld == "orelse" else [ast.Pass()])
        return node


def parse(repo, rel):
    path = os.path.join(repo, PKG, rel)
    with open(path) as f:
        src = f.read()
    return _DropTypeAsserts().visit(_DropNoOps().visit(ast.parse(src, filename=path)))


def find_function(tree, cls, func):
    body = tree.body
    if cls is not None:
        cs = [n for n in body if isinstance(n, ast.ClassDef) and n.name == cls]
        if len(cs) != 1:
            fail(f"class {cls} not found")
        body = cs[0].body
    fs = [n for n in body if isinstance(n, ast.FunctionDef) and n.name == func]
    if len(fs) != 1:
        fail(f"function {func} not found" + (f" in {cls}" if cls else ""))
    return fs[0]


def translate_function(fn, repo, trees):
    if fn.file not in trees:
        trees[fn.file] = parse(repo, fn.file)
    f = find_function(trees[fn.file], fn.cls, fn.func)
    fn.counter = 0
    body = list(f.body)
    if body and isinstance(body[0], ast.Expr) and isinstance(body[0].value, ast.Constant) and isinstance(body[0].value.value, str):
        body = body[1:]
    for n in ast.walk(f):
        if isinstance(n, (ast.For, ast.While, ast.Try, ast.With, ast.Raise, ast.Lambda, ast.NamedExpr, ast.Global, ast.Nonlocal, ast.Delete, ast.AugAssign)):
            fail(f"unsupported construct {type(n).__name__}", n)
    # leading asserts -> precondition
    pre = []
    while body and isinstance(body[0], ast.Assert):
        pre.append(body[0].test)
        body = body[1:]
    if any(isinstance(n, ast.Assert) for s in body for n in ast.walk(s)):
        fail("assert after the first statement")
    fn.stores = stores(body)
    for a in f.args.args:
        if a.arg in fn.stores:
            fail(f"parameter {a.arg} is re-assigned")
    env = Env(fn)
    pre_term = None
    if pre:
        t = ast.BoolOp(op=ast.And(), values=pre) if len(pre) > 1 else pre[0]
        p = tr(t, env)
        if p.ty != BOOL or p.eff:
            fail("precondition is not a pure boolean")
        pre_term = p.term
    res = tr_stmts(body, env, None)[0]
    if res.eff and not fn.eff:
        fail("the function can raise (comparison with None / index error) but its model is total")
    if fn.eff and not res.eff:
        res = lift(res)
    rty = fn.ret.coq()
    if fn.eff:
        rty = f"res {paren(rty)}"
    out = [f"Module Gen_{fn.name}."]
    out.append(f"(* {fn.file}: {(fn.cls + '.') if fn.cls else ''}{fn.func} *)")
    for m in fn.imports:
        out.append(f"Import {m}.")
    out.append(f"Definition pre {fn.implicit}{fn.params} : bool :=\n  {pre_term if pre_term else 'true'}.")
    out.append(f"Definition f {fn.implicit}{fn.params} : {rty} :=\n  {res.term}.")
    out.append(f"End Gen_{fn.name}.")
    return "\n".join(out)


# =============================================================================================
# the functions and their vocabularies
# =============================================================================================
def enum_t(name):
    return T(("enum", name))


def specs():
    S = []
    OQ = opt(QT)
    # ---- 1. is_better_than (four classes) ------------------------------------------------------------------------------
    for cls in ("CenterDistanceMatching", "PlaneDistanceMatching", "IOU2dMatching", "IOU3dMatching"):
        S.append(Fn(f"{cls}_is_better_than", "evaluation/matching/object_matching.py", "is_better_than", "(v : option Q) (t : Q)", BOOL,
                    {"self.value": V("v", OQ), "threshold_value": V("t", QT)}, cls=cls))
    # ---- MatchingLabelPolicy.is_matchable ------------------------------------------------------------------------------
    pol = enum_t("Policy")
    S.append(Fn("is_matchable", "evaluation/matching/object_matching.py", "is_matchable",
                "(p : Policy) (gt_is_fp same_label est_is_unknown : bool)", BOOL,
                {"self": V("p", pol),
                 "MatchingLabelPolicy.DEFAULT": V("P_DEFAULT", pol, const="P_DEFAULT"),
                 "MatchingLabelPolicy.ALLOW_UNKNOWN": V("P_ALLOW_UNKNOWN", pol, const="P_ALLOW_UNKNOWN"),
                 "MatchingLabelPolicy.ALLOW_ANY": V("P_ALLOW_ANY", pol, const="P_ALLOW_ANY"),
                 "ground_truth.semantic_label.is_fp()": V("gt_is_fp", BOOL),
                 "is_same_label(estimation, ground_truth)": V("same_label", BOOL),
                 "estimation.semantic_label.is_unknown()": V("est_is_unknown", BOOL)},
                cls="MatchingLabelPolicy", imports=("Matching",)))
    # ---- 2. is_result_correct ---------------------------------------------------------------------------------------------
    disp = ("(match md with Matching.CENTERDISTANCE => Gen_CenterDistanceMatching_is_better_than.f | Matching.PLANEDISTANCE => "
            "Gen_PlaneDistanceMatching_is_better_than.f | Matching.IOU2D => Gen_IOU2dMatching_is_better_than.f | Matching.IOU3D => "
            "Gen_IOU3dMatching_is_better_than.f end) {self.get_matching(matching_mode)} {matching_threshold}")
    S.append(Fn("is_result_correct", "evaluation/result/object_result.py", "is_result_correct",
                "(md : Matching.Mode) (t : option Q) (r : AP.res)", BOOL,
                {"self.ground_truth_object": V("has_gt r", FLAG),
                 "matching_threshold": V("t", OQ),
                 "self.is_label_correct": V("lab_ok r", BOOL),
                 "self.get_matching(matching_mode)": V("matching r", T("Q", nan=True, opt=True)),
                 "self.get_matching(matching_mode).is_better_than(matching_threshold)": V(disp, BOOL),
                 "self.ground_truth_object.semantic_label.is_fp()": V("gt_fp r", BOOL, requires=("self.ground_truth_object",))},
                cls="DynamicObjectWithPerceptionResult", imports=("AP",),
                doc="needs the four is_better_than"))
    S[-1].needs = [f"{c}_is_better_than" for c in ("CenterDistanceMatching", "PlaneDistanceMatching", "IOU2dMatching", "IOU3dMatching")]
    # the same source function against the facts of the pass/fail model (3D, plane distance) and of the CLEAR model
    S.append(Fn("is_result_correct_passfail", "evaluation/result/object_result.py", "is_result_correct",
                "(thr : option Q) (r : Filter.Res)", BOOL,
                {"self.ground_truth_object": V("r_gt r", opt(T(("tvar", "Obj")))),
                 "matching_threshold": V("thr", OQ),
                 "self.is_label_correct": V("r_label_ok r", BOOL),
                 "self.get_matching(matching_mode)": V("Some (r_score r)", T("Q", nan=True, opt=True)),
                 "self.get_matching(matching_mode).is_better_than(matching_threshold)":
                     V("Gen_PlaneDistanceMatching_is_better_than.f {self.get_matching(matching_mode)} {matching_threshold}", BOOL),
                 "self.ground_truth_object.semantic_label.is_fp()": V("lbl_is_fp (o_label {self.ground_truth_object})", BOOL)},
                cls="DynamicObjectWithPerceptionResult", imports=("Filter", "PassFail")))
    S[-1].needs = ["PlaneDistanceMatching_is_better_than"]
    S.append(Fn("is_result_correct_clear", "evaluation/result/object_result.py", "is_result_correct",
                "(m : Clear.mode) (t : Q) (r : Clear.result)", BOOL,
                {"self.ground_truth_object": V("r_gt r", opt(T(("tvar", "gtm")))),
                 "matching_threshold": V("Some t", OQ),
                 "self.is_label_correct": V("g_labok {self.ground_truth_object}", BOOL),
                 "self.get_matching(matching_mode)": V("Some (Some (g_score {self.ground_truth_object}))", T("Q", nan=True, opt=True)),
                 "self.get_matching(matching_mode).is_better_than(matching_threshold)":
                     V("(match m with Clear.Dist => Gen_CenterDistanceMatching_is_better_than.f | Clear.Iou => Gen_IOU3dMatching_is_better_than.f end) "
                       "{self.get_matching(matching_mode)} {matching_threshold}", BOOL),
                 "self.ground_truth_object.semantic_label.is_fp()": V("g_fp {self.ground_truth_object}", BOOL)},
                cls="DynamicObjectWithPerceptionResult", imports=("Clear",)))
    S[-1].needs = ["CenterDistanceMatching_is_better_than", "IOU3dMatching_is_better_than"]
    # is_label_correct (property): has a ground truth and the policy says matchable
    S.append(Fn("is_label_correct", "evaluation/result/object_result.py", "is_label_correct",
                "(has_gt : bool) (p : Policy) (gt_is_fp same_label est_is_unknown : bool)", BOOL,
                {"self.ground_truth_object": V("has_gt", FLAG),
                 "self.matching_label_policy.is_matchable(self.estimated_object, self.ground_truth_object)":
                     V("Gen_is_matchable.f p gt_is_fp same_label est_is_unknown", BOOL, requires=("self.ground_truth_object",))},
                cls="DynamicObjectWithPerceptionResult", imports=("Matching",)))
    S[-1].needs = ["is_matchable"]
    # ---- 5. get_label_threshold ----------------------------------------------------------------------------------------------
    A = T(("tvar", "A"))
    S.append(Fn("get_label_threshold", "common/threshold.py", "get_label_threshold",
                "(targets : option (list nat)) (lbl : nat) (lst : option (list A))", opt(A),
                {"target_labels": V("targets", opt(lst(NAT))),
                 "threshold_list": V("lst", opt(lst(A))),
                 # `x in xs` holds exactly when `xs.index(x)` finds a position
                 "semantic_label.label in target_labels": V("match index_of lbl {target_labels} with Some _ => true | None => false end", BOOL),
                 # list.index raises ValueError when absent (rendered ErrType; unreachable under the `in` guard of the source)
                 "target_labels.index(semantic_label.label)": V("match index_of lbl {target_labels} with Some i_ => Ok i_ | None => ErrType end", NAT, eff=True)},
                eff=True, imports=("Filter",), implicit="{A : Type} "))
    S.append(Fn("LabelThreshold_get_label_threshold", "common/threshold.py", "get_label_threshold",
                "(targets : option (list nat)) (lbl : nat) (l : list A)", opt(A),
                {"get_label_threshold(semantic_label=self.semantic_label, target_labels=self.target_labels, threshold_list=threshold_list)":
                     V("Gen_get_label_threshold.f targets lbl (Some l)", opt(A), eff=True)},
                cls="LabelThreshold", eff=True, imports=("Filter",), implicit="{A : Type} "))
    S[-1].needs = ["get_label_threshold"]
    # ---- 3. _is_target_object ------------------------------------------------------------------------------------------------
    LT = "LabelThreshold(semantic_label=dynamic_object.semantic_label, target_labels=target_labels)"
    voc = {
        "dynamic_object.semantic_label.is_fp()": V("lbl_is_fp (o_label o)", BOOL),
        "dynamic_object.semantic_label.is_unknown()": V("lbl_is_unknown (o_label o)", BOOL),
        "is_gt": V("is_gt", BOOL),
        "target_labels": V("c_targets c", opt(lst(NAT))),
        "any([label == CommonLabel.UNKNOWN for label in target_labels])": V("existsb lbl_is_unknown {target_labels}", BOOL),
        "any((label == CommonLabel.UNKNOWN for label in target_labels))": V("existsb lbl_is_unknown {target_labels}", BOOL),
        "dynamic_object.semantic_label.label in target_labels": V("mem_nat (o_label o) {target_labels}", BOOL),
        "ignore_attributes": V("c_ignore c", opt(lst(STR))),
        "dynamic_object.semantic_label.contains_any(ignore_attributes)": V("contains_any o {ignore_attributes}", BOOL),
        LT: V("tt", OBJ),
        "dynamic_object.semantic_score": V("o_conf o", QT),
        "transforms": V("tf", FLAG),
        "dynamic_object.frame_id == FrameID.BASE_LINK": V("o_base o", BOOL),
        "dynamic_object.frame_id != FrameID.BASE_LINK": V("negb (o_base o)", BOOL),
        "FrameID.BASE_LINK == dynamic_object.frame_id": V("o_base o", BOOL),
        # position facts of the model's record: o_pos = Some (x, y, bev distance) in the ego frame, None when state.position is None
        "dynamic_object.state.position": V("o_pos o", opt(POS)),
        "dynamic_object.get_distance_bev()": V("option_map snd (o_pos o)", OQ),
        "transforms.transform((dynamic_object.frame_id, FrameID.BASE_LINK), dynamic_object.state.position)":
            V("{dynamic_object.state.position}", POS, requires=("transforms",)),
        "dynamic_object.get_distance_bev(transforms)": V("snd {dynamic_object.state.position}", QT, requires=("transforms",)),
        "dynamic_object.pointcloud_num": V("o_points o", opt(ZT)),
        "target_uuids": V("c_uuids c", opt(lst(STR))),
        "dynamic_object.uuid in target_uuids": V("match o_uuid o with Some u_ => mem_str u_ {target_uuids} | None => false end", BOOL),
    }
    for py, proj, ety in (("confidence_threshold_list", "c_conf", QT), ("max_x_position_list", "c_max_x", QT), ("max_y_position_list", "c_max_y", QT),
                          ("max_distance_list", "c_max_dist", QT), ("min_distance_list", "c_min_dist", QT), ("min_point_numbers", "c_min_pts", ZT)):
        voc[py] = V(f"{proj} c", opt(lst(ety)))
        voc[f"{LT}.get_label_threshold({py})"] = V(f"PassFail.get_label_threshold (c_targets c) (o_label o) (Some {{{py}}})", opt(ety), eff=True)
        if ety == QT:
            voc[f"np.mean({py})"] = V(f"qmean {{{py}}}", T("Q", nan=True))
    S.append(Fn("_is_target_object", "evaluation/matching/objects_filter.py", "_is_target_object",
                "(c : Cfg) (tf is_gt : bool) (o : Obj)", BOOL, voc, eff=True, imports=("Filter",)))
    # ---- 4. CLEAR._is_id_switched / _is_same_match ------------------------------------------------------------------------------
    G = T(("tvar", "gtm"))
    cv = {}
    for py, x in (("cur_object_result", "c"), ("prev_object_result", "p")):
        cv[f"{py}.ground_truth_object"] = V(f"r_gt {x}", opt(G))
        cv[f"{py}.estimated_object.uuid"] = V(f"r_est {x}", NAT)
        cv[f"{py}.estimated_object.semantic_label"] = V(f"r_elab {x}", NAT)
        cv[f"{py}.ground_truth_object.uuid"] = V(f"g_id {{{py}.ground_truth_object}}", NAT)
    for nm in ("_is_id_switched", "_is_same_match"):
        S.append(Fn(nm, "evaluation/metrics/tracking/clear.py", nm, "(c p : Clear.result)", BOOL, dict(cv), cls="CLEAR", imports=("Clear",)))
    return S


HEADER = """(* GENERATED by translator/decisions.py from the Python source of /repo on every run -- do not edit.
   One module per decision function: `pre` = the conjunction of its leading asserts (true if none), `f` = its body.
   Props/GenTie*.v proves each `f` equal to the hand-written model for all inputs. *)
From Coq Require Import List Bool ZArith String Arith.
From PE Require Import Base.QUtil.
From PE Require Model.AP Model.Matching Model.Filter Model.Clear Model.PassFail.
Import ListNotations.
Open Scope Q_scope.
"""


def generate(repo):
    """-> (text, {function: why-not-translated})"""
    trees, out, bad, done = {}, [HEADER], {}, []
    for fn in specs():
        try:
            missing = [n for n in getattr(fn, "needs", []) if n not in done]
            if missing:
                fail("depends on " + ", ".join(missing) + " (not translated)")
            txt = translate_function(fn, repo, trees)
        except (TranslatorError, SyntaxError, OSError, RecursionError) as e:
            bad[fn.name] = f"{type(e).__name__}: {e}" if not isinstance(e, TranslatorError) else str(e)
            out.append(f"(* {fn.name}: not translated: {bad[fn.name].replace('*)', '* )')} *)\n")
            continue
        except Exception as e:  # noqa: BLE001  -- a defect of the translator itself must not look like a translation
            bad[fn.name] = f"internal error {type(e).__name__}: {e}"
            out.append(f"(* {fn.name}: not translated: {bad[fn.name].replace('*)', '* )')} *)\n")
            continue
        done.append(fn.name)
        out.append(txt + "\n")
    out.append("Open Scope string_scope.")
    out.append("Definition translated : list string := [" + "; ".join(coq_str(n) for n in done) + "].")
    return "\n".join(out) + "\n", bad


def vocabulary_size():
    return {fn.name: len(fn.vocab) for fn in specs()}


def regenerate(repo, outdir):
    """Write <outdir>/Decisions.v (only when the content changes).  {"Decisions.v": None} when every function was translated,
    else {"Decisions.v": "partial: f1: why; f2: why"}."""
    os.makedirs(outdir, exist_ok=True)
    txt, bad = generate(repo)
    path = os.path.join(outdir, "Decisions.v")
    old = None
    if os.path.exists(path):
        with open(path) as fh:
            old = fh.read()
    if old != txt:
        with open(path, "w") as fh:
            fh.write(txt)
    if not bad:
        return {"Decisions.v": None}
    return {"Decisions.v": "partial: " + "; ".join(f"{k}: not translated: {v}" for k, v in bad.items())}


if __name__ == "__main__":
    repo_ = sys.argv[1] if len(sys.argv) > 1 else "/repo"
    outdir_ = sys.argv[2] if len(sys.argv) > 2 else os.path.join(os.path.dirname(os.path.abspath(__file__)), "..", "coq", "theories", "Gen")
    try:
        st = regenerate(repo_, outdir_)
    except OSError as e_:
        print(f"Decisions.v: could not be written: {e_}")
        sys.exit(1)
    for k_, v_ in st.items():
        print(f"{k_}: {'ok' if v_ is None else v_}")
    sys.exit(0)
