#!/usr/bin/env python3
"""Translator for the TRANSFORM REGISTRY of perception_eval (property C18): Python `ast` -> Gallina (Gen/decisions_transform.v), a
further layer of the redundant tie.

Targets (common/transform.py)
  TransformKey.__init__ / __eq__ / __hash__
  TransformDict.__init__ / load_key / get / __getitem__ / __setitem__ / __delitem__ / transform
  HomogeneousMatrix.dot / inv, and the two lines of HomogeneousMatrix.__init__ that canonicalise the frame labels
Props/GenTieTransform.v proves every generated definition EQUAL, for all inputs, to the hand model Model/Transform.v (`canon`,
`reg_get`, `reg_lookup`, `reg_transform_*`, `dot`, `inv`), error class for error class; the dict `self.__data` is an association
list and Proofs/GenTieTransformLemmas.v relates it to the model's registry (a list of matrices, the last one with given labels wins)
through the explicit abstraction `dict_of` = the dict comprehension of TransformDict.__init__ (itself translated).

A dedicated continuation-passing statement translator (scheme of loops_classif.py: typed vocabulary keyed by (type, attribute),
`raise` = the error class, `if` duplicates the continuation, fail closed per function):

  frames          a frame argument is a `frame` = str (inl) or FrameID member given by its key (inr) (Model.Transform.spelling).
                  `a == b` -> frame_eqb (member/member: the same member; str/str: the same str; member/str in either order: FrameID.__eq__
                  = `self.value == str`, case-sensitive, when Gen/Enums.v says that FrameID has the str-aware __eq__), `isinstance(x, str)`
                  -> frame_is_str, `FrameID.from_value(x)` -> frame_from_value = the parser REGENERATED in Gen/Enums.v interpreted by
                  Model/EnumParse.run_parser (ValueError on a miss; AttributeError for a member: `name.lower()`)
  keys            TransformKey = record tkey (two frames).  A `key` argument is dynamically typed: keyarg = AKey k | ASeq [frames]
                  (tuple or list) | AOther (not iterable); isinstance(key, TransformKey) / isinstance(key, (tuple, list)) -> a `match`
                  that narrows the name; `a, b = key` -> unpack (ValueError for another length, TypeError for a non-iterable / a
                  TransformKey)
  dict            self.__data : tdict = list (tkey * rigid), insertion ordered; d.get(k, None) -> dict_find (the first entry whose
                  key == k: equal keys have equal hashes, GenTie_TransformKey___hash__), d[k] -> KeyError, d[k] = v -> replace in
                  place (the OLD key object stays) or append, del d[k] -> KeyError when absent.  Only a TransformKey may be used as
                  the key of a dict operation (a raw tuple: not translated).  A method that mutates returns the new dict.
  matrices        HomogeneousMatrix = Model.Transform.rigid; m.src -> inr (rsrc m); LEAVES: m.matrix -> its pose, A.dot(B) of
                  poses, np.linalg.inv, __extract_position_and_rotation_from_matrix -> the exact rational forms of the model;
                  HomogeneousMatrix(p, r, src=, dst=) -> hm_new = the TRANSLATED label lines of its __init__ + mkRigid;
                  m.transform(*args, **kwargs) -> hm_transform (fixed text: the three positional call forms of the model)
  args            *args : list tval, **kwargs : list (string * tval); len(args), args[0] (IndexError), `a, b = args`, `"k" in kwargs`,
                  kwargs["k"] (KeyError), `not kwargs`, `return args` (the tuple)
Only `ast` is used; the library is never imported."""
import ast
import os
import sys

HERE = os.path.dirname(os.path.abspath(__file__))
sys.path.insert(0, HERE)
from py_to_coq import PKG, TranslatorError, coq_str  # noqa: E402
from decisions import fail, paren, find_function  # noqa: E402

MODNAME = "decisions_transform"          # harness/lib/core.py regenerate_gen: translator/<modname>.py writes Gen/<modname>.v
OUT_NAME = MODNAME + ".v"
TRANSFORM_PY = "common/transform.py"
SCHEMA_PY = "common/schema.py"

# ---- types ------------------------------------------------------------------------------------------------------------------
(FRAME, KEY, KEYARG, SEQ, MAT, OPTMAT, DICT, POSE, VEC, QUAT, PQ, VAL, ARGS, KWARGS, NAT, BOOL, NONE, HASH, INITARG, MATS, FF,
 STRLIT, SELFDICT, SELFNEW) = (
    "frame", "key", "keyarg", "seq", "matrix", "optional matrix", "dict", "pose", "vec", "quat", "position-rotation pair", "value",
    "args", "kwargs", "nat", "bool", "None", "hash", "constructor argument", "list of matrices", "pair of frames", "str literal",
    "TransformDict", "object under construction")
COQTY = {FRAME: "frame", KEY: "tkey", KEYARG: "keyarg", SEQ: "list frame", MAT: "rigid", OPTMAT: "option rigid", DICT: "tdict",
         POSE: "pose", VEC: "vec3", QUAT: "quat", PQ: "vec3 * quat", VAL: "tval", ARGS: "list tval", KWARGS: "kwargs", NAT: "nat",
         BOOL: "bool", HASH: "string * string", INITARG: "initarg", MATS: "list rigid", FF: "frame * frame"}
EXN = ("ValueError", "KeyError", "TypeError", "AttributeError", "IndexError")
# isinstance(x, C) on a dynamically typed NAME: (type of x, classes) -> (constructor, type of the narrowed name)
NARROW = {
    (KEYARG, ("TransformKey",)): ("AKey", KEY),
    (KEYARG, ("list", "tuple")): ("ASeq", SEQ), (KEYARG, ("tuple",)): ("ASeq", SEQ), (KEYARG, ("list",)): ("ASeq", SEQ),
    (VAL, ("HomogeneousMatrix",)): ("VMat", MAT),
    (INITARG, ("HomogeneousMatrix",)): ("IOne", MAT),
    (INITARG, ("list", "tuple")): ("IMany", MATS),
}
ATTRS = {
    (KEY, "src"): ("ksrc {}", FRAME), (KEY, "dst"): ("kdst {}", FRAME),
    (MAT, "src"): ("hm_src {}", FRAME), (MAT, "dst"): ("hm_dst {}", FRAME),
    (MAT, "matrix"): ("pose_of {}", POSE),
}
EXTRACT = "__extract_position_and_rotation_from_matrix"


class E:
    def __init__(self, term, ty, const=None):
        self.term, self.ty, self.const = term, ty, const


class Ctx:
    def __init__(self, fn, tree, done):
        self.fn, self.tree, self.done, self.counter, self.effects = fn, tree, done, 0, 0

    def fresh(self, hint):
        self.counter += 1
        h = "".join(c if c.isalnum() else "_" for c in hint).strip("_") or "v"
        return f"l_{h}_{self.counter}"


class Env:
    def __init__(self, ctx, vars_=None, data=None):
        self.ctx, self.vars, self.data = ctx, dict(vars_ or {}), data

    def bind(self, name, term, ty):
        e = Env(self.ctx, self.vars, self.data)
        e.vars[name] = (term, ty)
        return e

    def with_data(self, term):
        return Env(self.ctx, self.vars, term)


def emit_bind(ctx, term, hint, k):
    ctx.effects += 1
    v = ctx.fresh(hint)
    return f"bind ({term}) (fun {v} =>\n{k(v)})"


def coerce(e, ty, node=None):
    if e.ty == ty:
        return e.term
    if ty == KEYARG and e.ty == SEQ:
        return f"ASeq {paren(e.term)}"
    if ty == KEYARG and e.ty == KEY:
        return f"AKey {paren(e.term)}"
    if ty == OPTMAT and e.ty == MAT:
        return f"Some {paren(e.term)}"
    if ty == OPTMAT and e.ty == NONE:
        return "None"
    if ty == VAL and e.ty == ARGS:           # `return args`: the tuple of the positional arguments
        return f"VTuple {paren(e.term)}"
    if ty == VAL and e.ty == MAT:
        return f"VMat {paren(e.term)}"
    fail(f"a {e.ty} where a {ty} is needed", node)


# =============================================================================================
# expressions
# =============================================================================================
def is_self(node, env):
    return isinstance(node, ast.Name) and node.id == env.ctx.fn.self_name and node.id in env.vars


def class_names(node):
    if isinstance(node, ast.Name):
        return (node.id,)
    if isinstance(node, ast.Tuple) and all(isinstance(x, ast.Name) for x in node.elts):
        return tuple(sorted(x.id for x in node.elts))
    fail("isinstance with something that is not a class or a tuple of classes", node)


def try_pure(node, env):
    """the translated expression when it neither raises nor branches, else None"""
    ctx = env.ctx
    box, e0, c0 = [], ctx.effects, ctx.counter
    try:
        tr(node, env, lambda e: (box.append(e), "?")[1])
    except _NotPure:
        box = []
    if ctx.effects != e0 or len(box) != 1:
        ctx.effects, ctx.counter = e0, c0
        return None
    return box[0]


class _NotPure(Exception):
    pass


def tr_seq(nodes, env, k, acc=None):
    acc = acc or []
    if not nodes:
        return k(acc)
    return tr(nodes[0], env, lambda e: tr_seq(nodes[1:], env, k, acc + [e]))


def bool_value(node, env, k):
    """a condition used as a value"""
    return cond(node, env, lambda e: k(E("true", BOOL)), lambda e: k(E("false", BOOL)))


def tr(node, env, k):
    ctx = env.ctx
    if isinstance(node, ast.Name):
        if node.id not in env.vars:
            fail(f"unknown name `{node.id}`", node)
        t, ty = env.vars[node.id]
        if ty in (SELFDICT, SELFNEW):
            fail("`self` used as a value", node)
        return k(E(t, ty))
    if isinstance(node, ast.Constant):
        v = node.value
        if v is None:
            return k(E("None", NONE, const="None"))
        if v is True or v is False:
            return k(E("true" if v else "false", BOOL))
        if isinstance(v, int) and v >= 0:
            return k(E(str(v), NAT, const=v))
        if isinstance(v, str):
            return k(E(coq_str(v), STRLIT, const=v))
        fail(f"constant {v!r}", node)
    if isinstance(node, ast.Attribute):
        if is_self(node.value, env):
            sty = env.vars[node.value.id][1]
            if sty == SELFDICT:
                if node.attr == "__data":
                    if env.data is None:
                        fail("self.__data is read before it is assigned", node)
                    return k(E(env.data, DICT))
                fail(f"attribute `self.{node.attr}` of a TransformDict is not in the vocabulary", node)
            if sty == SELFNEW:
                loc = "self." + node.attr
                if loc not in env.vars:
                    fail(f"`self.{node.attr}` is read before it is assigned", node)
                t, ty = env.vars[loc]
                return k(E(t, ty))

        def with_base(b):
            a = ATTRS.get((b.ty, node.attr))
            if a is None:
                fail(f"attribute not in the vocabulary: `.{node.attr}` of a {b.ty}", node)
            return k(E(a[0].format(paren(b.term)), a[1]))
        return tr(node.value, env, with_base)
    if isinstance(node, ast.IfExp):
        return cond(node.test, env, lambda e: tr(node.body, e, k), lambda e: tr(node.orelse, e, k))
    if isinstance(node, ast.UnaryOp) and isinstance(node.op, ast.Not):
        p = try_pure(node.operand, env)
        if p is not None and p.ty == BOOL:
            return k(E(f"negb {paren(p.term)}", BOOL))
        return bool_value(node, env, k)
    if isinstance(node, ast.BoolOp):
        ps = [try_pure(v, env) for v in node.values]
        if all(p is not None and p.ty == BOOL for p in ps):
            op = " && " if isinstance(node.op, ast.And) else " || "
            return k(E("(" + op.join(paren(p.term) for p in ps) + ")", BOOL))
        return bool_value(node, env, k)
    if isinstance(node, ast.Compare):
        if len(node.ops) != 1:
            fail("chained comparison", node)
        op, ln, rn = node.ops[0], node.left, node.comparators[0]
        if isinstance(op, (ast.Is, ast.IsNot)):
            return bool_value(node, env, k)

        def with_ab(es):
            a, b = es
            neg = isinstance(op, (ast.NotEq, ast.NotIn))

            def out(t):
                return k(E(f"negb ({t})" if neg else t, BOOL))
            if isinstance(op, (ast.Eq, ast.NotEq)):
                if a.ty == FRAME and b.ty == FRAME:
                    return out(f"frame_eqb {paren(a.term)} {paren(b.term)}")
                if a.ty == NAT and b.ty == NAT:
                    return out(f"Nat.eqb {paren(a.term)} {paren(b.term)}")
                fail(f"`==` of a {a.ty} and a {b.ty}", node)
            if isinstance(op, (ast.In, ast.NotIn)):
                if a.ty == STRLIT and b.ty == KWARGS:
                    return out(f"kw_mem {paren(b.term)} {a.term}")
                fail(f"`in` of a {a.ty} and a {b.ty}", node)
            fail(f"comparison operator {type(op).__name__}", node)
        return tr_seq([ln, rn], env, with_ab)
    if isinstance(node, ast.Tuple):
        def with_elts(es):
            if es and all(e.ty == FRAME for e in es):
                return k(E("[" + "; ".join(e.term for e in es) + "]", SEQ))
            if es and all(e.ty in (VAL, MAT) for e in es):
                return k(E("VTuple [" + "; ".join(coerce(e, VAL, node) for e in es) + "]", VAL))
            fail("a tuple of " + ", ".join(e.ty for e in es), node)
        return tr_seq(list(node.elts), env, with_elts)
    if isinstance(node, ast.List):
        def with_items(es):
            if not es:
                return k(E("[]", MATS))
            if all(e.ty == MAT for e in es):
                return k(E("[" + "; ".join(e.term for e in es) + "]", MATS))
            fail("a list display of " + ", ".join(e.ty for e in es), node)
        return tr_seq(list(node.elts), env, with_items)
    if isinstance(node, ast.Subscript):
        def with_base(b):
            if b.ty == KWARGS:
                if not (isinstance(node.slice, ast.Constant) and isinstance(node.slice.value, str)):
                    fail("kwargs subscript that is not a str literal", node)
                return emit_bind(ctx, f"kw_getitem {paren(b.term)} {coq_str(node.slice.value)}", node.slice.value, lambda v: k(E(v, VAL)))
            if b.ty == ARGS:
                if not (isinstance(node.slice, ast.Constant) and isinstance(node.slice.value, int) and not isinstance(node.slice.value, bool)
                        and node.slice.value >= 0):
                    fail("args subscript that is not a natural literal", node)
                return emit_bind(ctx, f"args_nth {paren(b.term)} {node.slice.value}", "arg", lambda v: k(E(v, VAL)))
            if b.ty == DICT:
                return tr(node.slice, env, lambda key: emit_bind(ctx, f"dict_getitem {paren(b.term)} {paren(dict_key(key, node))}", "item",
                                                                 lambda v: k(E(v, MAT))))
            fail(f"subscript of a {b.ty}", node)
        return tr(node.value, env, with_base)
    if isinstance(node, ast.DictComp):
        return tr_dictcomp(node, env, k)
    if isinstance(node, ast.Call):
        return tr_call(node, env, k)
    fail(f"expression not translated: {type(node).__name__}", node)


def dict_key(e, node):
    if e.ty != KEY:
        fail(f"a {e.ty} used as the key of a dict operation (only a TransformKey is translated)", node)
    return e.term


def bind_args(node, names, defaults=None):
    """positional / keyword arguments against parameter names -> [ast] in parameter order"""
    defaults = defaults or {}
    if any(isinstance(x, ast.Starred) for x in node.args) or any(kw.arg is None for kw in node.keywords) or len(node.args) > len(names):
        fail("starred / too many arguments", node)
    got = dict(zip(names, node.args))
    for kw in node.keywords:
        if kw.arg not in names or kw.arg in got:
            fail(f"bad keyword argument `{kw.arg}`", node)
        got[kw.arg] = kw.value
    for n in names:
        if n not in got:
            if n not in defaults:
                fail(f"missing argument `{n}`", node)
            got[n] = defaults[n]
    # Python evaluates positional arguments, then keywords in the order they are written: require parameter order
    if [kw.arg for kw in node.keywords] != [n for n in names if n in [kw.arg for kw in node.keywords]]:
        fail("keyword arguments out of parameter order", node)
    return [got[n] for n in names]


def need(ctx, name, node):
    if name not in ctx.done:
        fail(f"depends on {name} (not translated)", node)


def call_gen(ctx, name, pre, node, env, argnodes, tys, rty, hint, k):
    need(ctx, name, node)

    def with_args(es):
        ts = [paren(coerce(e, ty, node)) for e, ty in zip(es, tys)]
        return emit_bind(ctx, f"Gen_{name}.f " + " ".join(pre + ts), hint, lambda v: k(E(v, rty)))
    return tr_seq(argnodes, env, with_args)


def check_import_np(ctx, node):
    ok = any(isinstance(n, ast.Import) and any(a.name == "numpy" and a.asname == "np" for a in n.names) for n in ctx.tree.body)
    bad = any(isinstance(m, ast.Name) and isinstance(m.ctx, ast.Store) and m.id == "np" for n in ctx.tree.body for m in ast.walk(n))
    if not ok or bad:
        fail("`np` is not `import numpy as np`", node)


def check_module_class(ctx, name, node, imported_from=None):
    """`name` is a class of this module (or imported from the given module) and is bound by nothing else"""
    hits = 0
    for n in ctx.tree.body:
        if isinstance(n, ast.ClassDef) and n.name == name:
            hits += 1 if imported_from is None else 5
        elif isinstance(n, ast.ImportFrom) and any((a.asname or a.name) == name for a in n.names):
            mod = ("." * n.level) + (n.module or "")
            if imported_from is None or mod != imported_from or not any(a.name == name and a.asname in (None, name) for a in n.names):
                fail(f"`{name}` is imported from `{mod}`", node)
            hits += 1
        elif isinstance(n, (ast.FunctionDef, ast.Assign, ast.AnnAssign, ast.Import)):
            for m in ast.walk(n):
                if (isinstance(m, ast.Name) and isinstance(m.ctx, ast.Store) and m.id == name) or (isinstance(m, ast.FunctionDef) and m is n and m.name == name) \
                        or (isinstance(m, ast.alias) and (m.asname or m.name) == name):
                    fail(f"`{name}` is rebound in the module", node)
    if hits != 1:
        fail(f"`{name}` is not the expected class", node)


def tr_call(node, env, k):
    ctx = env.ctx
    f = node.func
    src = ast.unparse(f)
    if isinstance(f, ast.Name) and f.id not in env.vars:
        if f.id == "isinstance":
            return bool_value(node, env, k)
        if f.id == "len" and len(node.args) == 1 and not node.keywords:
            def with_x(x):
                if x.ty in (ARGS, MATS, SEQ):
                    return k(E(f"length {paren(x.term)}", NAT))
                fail(f"len of a {x.ty}", node)
            return tr(node.args[0], env, with_x)
        if f.id == "hash" and len(node.args) == 1 and not node.keywords:
            def with_t(x):
                if x.ty != SEQ:
                    fail(f"hash of a {x.ty}", node)
                return k(E(f"frames_hash {paren(x.term)}", HASH))
            check_frame_hash(ctx)
            return tr(node.args[0], env, with_t)
        if f.id == "list" and len(node.args) == 1 and not node.keywords:
            def with_l(x):
                if x.ty != MATS:
                    fail(f"list() of a {x.ty}", node)
                return k(E(x.term, MATS))
            return tr(node.args[0], env, with_l)
        if f.id == "TransformKey":
            check_module_class(ctx, "TransformKey", node)
            return call_gen(ctx, "TransformKey___init__", [], node, env, bind_args(node, ["src", "dst"]), [FRAME, FRAME], KEY, "key", k)
        if f.id == "HomogeneousMatrix":
            check_module_class(ctx, "HomogeneousMatrix", node)
            need(ctx, "HomogeneousMatrix_labels", node)

            def with_args(es):
                ts = [paren(coerce(e, ty, node)) for e, ty in zip(es, [VEC, QUAT, FRAME, FRAME])]
                return emit_bind(ctx, "hm_new " + " ".join(ts), "matrix", lambda v: k(E(v, MAT)))
            return tr_seq(bind_args(node, ["position", "rotation", "src", "dst"]), env, with_args)
        fail(f"call of `{f.id}`", node)
    if isinstance(f, ast.Attribute):
        if src == "FrameID.from_value" and "FrameID" not in env.vars:
            check_module_class(ctx, "FrameID", node, imported_from=".schema")
            (a,) = bind_args(node, ["name"])

            def with_a(x):
                if x.ty != FRAME:
                    fail(f"FrameID.from_value of a {x.ty}", node)
                return emit_bind(ctx, f"frame_from_value {paren(x.term)}", "frame", lambda v: k(E(v, FRAME)))
            return tr(a, env, with_a)
        if src == "np.linalg.inv" and "np" not in env.vars:
            check_import_np(ctx, node)
            (a,) = bind_args(node, ["a"])

            def with_p(x):
                if x.ty != POSE:
                    fail(f"np.linalg.inv of a {x.ty}", node)
                return k(E(f"pose_inv {paren(x.term)}", POSE))
            return tr(a, env, with_p)
        recv_is_self = is_self(f.value, env)
        cls_recv = isinstance(f.value, ast.Name) and f.value.id == "TransformDict" and f.value.id not in env.vars
        if (recv_is_self and env.vars[f.value.id][1] == SELFDICT) or cls_recv:
            if f.attr == "load_key":
                if cls_recv:
                    check_module_class(ctx, "TransformDict", node)
                return call_gen(ctx, "load_key", [], node, env, bind_args(node, ["src", "dst"]), [FRAME, FRAME], KEY, "key", k)
            if f.attr == "get" and recv_is_self:
                if env.data is None:
                    fail("self.get before self.__data is assigned", node)
                return call_gen(ctx, "get", [env.data], node, env, bind_args(node, ["key"]), [KEYARG], OPTMAT, "found", k)
            fail(f"method `{f.attr}` of a TransformDict is not in the vocabulary", node)
        if recv_is_self and env.vars[f.value.id][1] == MAT and f.attr == EXTRACT:
            (a,) = bind_args(node, ["matrix"])

            def with_m(x):
                if x.ty != POSE:
                    fail(f"{EXTRACT} of a {x.ty}", node)
                return k(E(f"pose_split {paren(x.term)}", PQ))
            return tr(a, env, with_m)

        def with_recv(r):
            if r.ty == DICT and f.attr == "get":
                if node.keywords or len(node.args) not in (1, 2) or (len(node.args) == 2 and not (isinstance(node.args[1], ast.Constant) and node.args[1].value is None)):
                    fail("dict.get with a default that is not None", node)
                return tr(node.args[0], env, lambda key: k(E(f"dict_find {paren(r.term)} {paren(dict_key(key, node))}", OPTMAT)))
            if r.ty == POSE and f.attr == "dot":
                (a,) = bind_args(node, ["b"])

                def with_o(o):
                    if o.ty != POSE:
                        fail(f"ndarray.dot with a {o.ty}", node)
                    return k(E(f"pose_mul {paren(r.term)} {paren(o.term)}", POSE))
                return tr(a, env, with_o)
            if r.ty == MAT and f.attr == "dot":
                return call_gen(ctx, "dot", [paren(r.term)], node, env, bind_args(node, ["other"]), [MAT], MAT, "prod", k)
            if r.ty == MAT and f.attr == "inv":
                return call_gen(ctx, "inv", [paren(r.term)], node, env, bind_args(node, []), [], MAT, "inverse", k)
            if r.ty == MAT and f.attr == "transform":
                if len(node.args) != 1 or not isinstance(node.args[0], ast.Starred) or len(node.keywords) != 1 or node.keywords[0].arg is not None:
                    fail("matrix.transform not called as (*args, **kwargs)", node)

                def with_ak(es):
                    a, kw = es
                    if a.ty != ARGS or kw.ty != KWARGS:
                        fail(f"matrix.transform(*{a.ty}, **{kw.ty})", node)
                    return emit_bind(ctx, f"hm_transform {paren(r.term)} {paren(a.term)} {paren(kw.term)}", "out", lambda v: k(E(v, VAL)))
                return tr_seq([node.args[0].value, node.keywords[0].value], env, with_ak)
            fail(f"call of `.{f.attr}` on a {r.ty}", node)
        return tr(f.value, env, with_recv)
    fail(f"call of `{src[:40]}`", node)


def tr_dictcomp(node, env, k):
    """{K(x): V(x) for x in xs} over a list of matrices -> a fold of dict_set in the error monad (key evaluated before value)"""
    ctx = env.ctx
    if len(node.generators) != 1:
        fail("dict comprehension form", node)
    g = node.generators[0]
    if g.ifs or g.is_async or not isinstance(g.target, ast.Name) or g.target.id in env.vars:
        fail("dict comprehension form", node)

    def with_iter(xs):
        if xs.ty != MATS:
            fail(f"dict comprehension over a {xs.ty}", node)
        x, acc, d = ctx.fresh(g.target.id), ctx.fresh("acc"), ctx.fresh("d")
        e1 = env.bind(g.target.id, x, MAT)
        body = tr(node.key, e1, lambda key: tr(node.value, e1, lambda val: f"Ok (dict_set {d} {paren(dict_key(key, node))} {paren(coerce(val, MAT, node))})"))
        ctx.effects += 1
        return emit_bind(ctx, f"fold_left (fun {acc} {x} => bind {acc} (fun {d} =>\n{body})) {paren(xs.term)} (Ok [])", "dict", lambda v: k(E(v, DICT)))
    return tr(g.iter, env, with_iter)


# =============================================================================================
# conditions
# =============================================================================================
def ite(t, a, b):
    return f"if {t}\nthen {a}\nelse {b}"


def cond(test, env, kt, kf):
    ctx = env.ctx
    if isinstance(test, ast.UnaryOp) and isinstance(test.op, ast.Not):
        return cond(test.operand, env, kf, kt)
    if isinstance(test, ast.BoolOp):
        vs = list(test.values)
        rest = vs[1] if len(vs) == 2 else ast.BoolOp(op=test.op, values=vs[1:])
        if isinstance(test.op, ast.And):
            return cond(vs[0], env, lambda e: cond(rest, e, kt, kf), kf)
        return cond(vs[0], env, kt, lambda e: cond(rest, e, kt, kf))
    if isinstance(test, ast.Call) and isinstance(test.func, ast.Name) and test.func.id == "isinstance" and "isinstance" not in env.vars:
        if len(test.args) != 2 or test.keywords:
            fail("isinstance form", test)
        x, classes = test.args[0], class_names(test.args[1])
        if classes == ("str",):
            return tr(x, env, lambda e: ite(f"frame_is_str {paren(e.term)}", kt(env), kf(env)) if e.ty == FRAME
                      else fail(f"isinstance(_, str) of a {e.ty}", test))
        if not isinstance(x, ast.Name) or x.id not in env.vars:
            fail("isinstance of something that is not a local name", test)
        t, ty = env.vars[x.id]
        if ty == KEY and classes == ("TransformKey",):
            return kt(env)
        nr = NARROW.get((ty, classes))
        if nr is None:
            fail(f"isinstance({x.id}: {ty}, {'/'.join(classes)})", test)
        ctx.effects += 1
        v = ctx.fresh(x.id)
        return f"match {t} with\n| {nr[0]} {v} => {kt(env.bind(x.id, v, nr[1]))}\n| _ => {kf(env)}\nend"
    if isinstance(test, ast.Compare) and len(test.ops) == 1 and isinstance(test.ops[0], (ast.Is, ast.IsNot)):
        ln, rn = test.left, test.comparators[0]
        if isinstance(ln, ast.Constant) and ln.value is None:
            ln, rn = rn, ln
        if not (isinstance(rn, ast.Constant) and rn.value is None):
            fail("`is` with something that is not None", test)
        if isinstance(test.ops[0], ast.IsNot):
            kt, kf = kf, kt
        if not isinstance(ln, ast.Name) or ln.id not in env.vars:
            fail("`is None` of something that is not a local name", test)
        t, ty = env.vars[ln.id]
        ctx.effects += 1
        if ty == OPTMAT:
            v = ctx.fresh(ln.id)
            return f"match {t} with\n| None => {kt(env.bind(ln.id, 'None', NONE))}\n| Some {v} => {kf(env.bind(ln.id, v, MAT))}\nend"
        if ty == INITARG:
            return f"match {t} with\n| INone => {kt(env)}\n| _ => {kf(env)}\nend"
        if ty == NONE:
            return kt(env)
        if ty == MAT:
            return kf(env)
        fail(f"`is None` of a {ty}", test)

    def with_t(e):
        if e.ty == BOOL:
            return ite(e.term, kt(env), kf(env))
        if e.ty == KWARGS:
            return ite(f"kw_nonempty {paren(e.term)}", kt(env), kf(env))
        if e.ty == ARGS:
            return ite(f"args_nonempty {paren(e.term)}", kt(env), kf(env))
        fail(f"truthiness of a {e.ty}", test)
    return tr(test, env, with_t)


# =============================================================================================
# statements
# =============================================================================================
def message_ok(x, env):
    """the arguments of an exception: no evaluation that could raise or change anything"""
    for a in list(x.args) + [kw.value for kw in x.keywords]:
        for n in ast.walk(a):
            if isinstance(n, ast.Call):
                if ast.unparse(n) in ("list(kwargs.keys())", "kwargs.keys()", "type(matrices)") :
                    continue
                fail("a call inside the message of a raise", n)
            if isinstance(n, (ast.Subscript, ast.BinOp, ast.Await, ast.Lambda, ast.IfExp, ast.NamedExpr)):
                fail("a computation inside the message of a raise", n)


def tr_block(ss, env, k):
    ctx = env.ctx
    if not ss:
        return k(env)
    s, rest = ss[0], ss[1:]

    def cont(e):
        return tr_block(rest, e, k)

    if isinstance(s, ast.Expr) and isinstance(s.value, ast.Constant):
        return cont(env)
    if isinstance(s, ast.Pass):
        return cont(env)
    if isinstance(s, ast.Return):
        if s.value is None:
            return ctx.fn.on_return(E("None", NONE, const="None"), env, s)
        return tr(s.value, env, lambda e: ctx.fn.on_return(e, env, s))
    if isinstance(s, ast.Raise):
        x = s.exc
        if s.cause is not None or not (isinstance(x, ast.Call) and isinstance(x.func, ast.Name) and x.func.id in EXN and x.func.id not in env.vars):
            fail("raise of something that is not one of the modelled exception classes", s)
        message_ok(x, env)
        return f"Err {x.func.id}"
    if isinstance(s, ast.If):
        return cond(s.test, env, lambda e: tr_block(list(s.body), e, cont), lambda e: tr_block(list(s.orelse), e, cont))
    if isinstance(s, ast.Delete):
        if len(s.targets) != 1 or not isinstance(s.targets[0], ast.Subscript):
            fail("del form", s)
        t = s.targets[0]
        if not (isinstance(t.value, ast.Attribute) and is_self(t.value.value, env) and env.vars[t.value.value.id][1] == SELFDICT and t.value.attr == "__data"):
            fail("del of something that is not an entry of self.__data", s)
        if not ctx.fn.mutates:
            fail("this function is not declared to change self.__data", s)
        return tr(t.slice, env, lambda key: emit_bind(ctx, f"dict_del {env.data} {paren(dict_key(key, s))}", "data", lambda v: cont(env.with_data(v))))
    if isinstance(s, (ast.Assign, ast.AnnAssign)) and getattr(s, "value", None) is not None:
        targets = s.targets if isinstance(s, ast.Assign) else [s.target]
        if len(targets) != 1:
            fail("chained assignment", s)
        tg = targets[0]
        if isinstance(tg, ast.Name):
            if tg.id == ctx.fn.self_name:
                fail("`self` is rebound", s)

            def bound(e):
                if e.ty in (NONE,) and False:
                    pass
                v = ctx.fresh(tg.id)
                return f"let {v} := {e.term} in\n{cont(env.bind(tg.id, v, e.ty))}"
            return tr(s.value, env, bound)
        if isinstance(tg, ast.Tuple):
            if len(tg.elts) != 2 or not all(isinstance(x, ast.Name) for x in tg.elts) or tg.elts[0].id == tg.elts[1].id \
                    or ctx.fn.self_name in (tg.elts[0].id, tg.elts[1].id):
                fail("unpacking into something that is not two distinct names", s)
            n1, n2 = tg.elts[0].id, tg.elts[1].id

            def unpacked(e):
                a, b = ctx.fresh(n1), ctx.fresh(n2)
                if e.ty == PQ:
                    return f"let '({a}, {b}) := {e.term} in\n{cont(env.bind(n1, a, VEC).bind(n2, b, QUAT))}"
                fn_, ty = {KEYARG: ("unpack_keyarg", FRAME), SEQ: ("unpack_seq", FRAME), ARGS: ("unpack_args", VAL)}.get(e.ty, (None, None))
                if fn_ is None:
                    fail(f"unpacking of a {e.ty}", s)
                ctx.effects += 1
                return f"bind ({fn_} {paren(e.term)}) (fun '({a}, {b}) =>\n{cont(env.bind(n1, a, ty).bind(n2, b, ty))})"
            return tr(s.value, env, unpacked)
        if isinstance(tg, ast.Attribute) and is_self(tg.value, env):
            sty = env.vars[tg.value.id][1]
            if sty == SELFNEW:
                want = dict(ctx.fn.attrs).get(tg.attr)
                if want is None:
                    fail(f"`self.{tg.attr}` is assigned (not an attribute of the specification)", s)

                def stored(e):
                    v = ctx.fresh("self_" + tg.attr)
                    if want == DICT:
                        return f"let {v} := {coerce(e, DICT, s)} in\n{cont(env.with_data(v))}"
                    return f"let {v} := {coerce(e, want, s)} in\n{cont(env.bind('self.' + tg.attr, v, want))}"
                return tr(s.value, env, stored)
            fail(f"`self.{tg.attr}` is assigned", s)
        if isinstance(tg, ast.Subscript) and isinstance(tg.value, ast.Attribute) and is_self(tg.value.value, env) \
                and env.vars[tg.value.value.id][1] == SELFDICT and tg.value.attr == "__data":
            if not ctx.fn.mutates:
                fail("this function is not declared to change self.__data", s)
            # Python evaluates the value first, then the subscript
            return tr(s.value, env, lambda val: tr(tg.slice, env, lambda key: (
                lambda v: f"let {v} := dict_set {env.data} {paren(dict_key(key, s))} {paren(coerce(val, MAT, s))} in\n{cont(env.with_data(v))}")(ctx.fresh("data"))))
        fail("assignment target", s)
    fail(f"statement not translated: {type(s).__name__}", s)


# =============================================================================================
# the functions
# =============================================================================================
class Fn:
    """kind: "value" (returns ret), "mutator" (returns the new self.__data), "new_key" / "new_dict" / "labels" (constructors: the
    attributes of the specification)"""

    def __init__(self, name, cls, func, params, ret, self_ty, kind="value", attrs=(), static=False, needs=(), star=False):
        self.name, self.cls, self.func, self.params, self.ret, self.self_ty, self.kind = name, cls, func, params, ret, self_ty, kind
        self.attrs, self.static, self.needs, self.star = list(attrs), static, needs, star
        self.mutates = kind == "mutator"
        self.self_name = None

    def on_return(self, e, env, node):
        if self.kind == "value":
            return f"Ok {paren(coerce(e, self.ret, node))}"
        if e.const != "None":
            fail("a value is returned by a method that returns None", node)
        if self.kind in ("mutator", "new_dict"):
            if env.data is None:
                fail("self.__data is not assigned on every path that returns", node)
            return f"Ok {env.data}"
        parts = []
        for a, _ in self.attrs:
            if "self." + a not in env.vars:
                fail(f"self.{a} is not assigned on every path that returns", node)
            parts.append(env.vars["self." + a][0])
        if self.kind == "new_key":
            return f"Ok (mkKey {' '.join(paren(p) for p in parts)})"
        return "Ok (" + ", ".join(parts) + ")"


def specs():
    return [
        Fn("HomogeneousMatrix_labels", "HomogeneousMatrix", "__init__", [("position", None), ("rotation", None), ("src", FRAME), ("dst", FRAME)],
           FF, SELFNEW, kind="labels", attrs=[("src", FRAME), ("dst", FRAME)]),
        Fn("TransformKey___init__", "TransformKey", "__init__", [("src", FRAME), ("dst", FRAME)], KEY, SELFNEW, kind="new_key",
           attrs=[("src", FRAME), ("dst", FRAME)]),
        Fn("TransformKey___eq__", "TransformKey", "__eq__", [("other", KEYARG)], BOOL, KEY),
        Fn("TransformKey___hash__", "TransformKey", "__hash__", [], HASH, KEY),
        Fn("load_key", "TransformDict", "load_key", [("src", FRAME), ("dst", FRAME)], KEY, None, static=True, needs=("TransformKey___init__",)),
        Fn("get", "TransformDict", "get", [("key", KEYARG)], OPTMAT, SELFDICT, needs=("load_key",)),
        Fn("__getitem__", "TransformDict", "__getitem__", [("key", KEYARG)], MAT, SELFDICT, needs=("load_key",)),
        Fn("__setitem__", "TransformDict", "__setitem__", [("key", KEYARG), ("value", MAT)], DICT, SELFDICT, kind="mutator", needs=("load_key",)),
        Fn("__delitem__", "TransformDict", "__delitem__", [("key", KEYARG)], DICT, SELFDICT, kind="mutator", needs=("load_key",)),
        Fn("inv", "HomogeneousMatrix", "inv", [], MAT, MAT, needs=("HomogeneousMatrix_labels",)),
        Fn("dot", "HomogeneousMatrix", "dot", [("other", MAT)], MAT, MAT, needs=("HomogeneousMatrix_labels",)),
        Fn("transform", "TransformDict", "transform", [("key", KEYARG)], VAL, SELFDICT, needs=("load_key", "get", "inv"), star=True),
        Fn("TransformDict___init__", "TransformDict", "__init__", [("matrices", INITARG)], DICT, SELFNEW, kind="new_dict",
           attrs=[("__matrices", MATS), ("__data", DICT)], needs=("TransformKey___init__",)),
    ]


def load(trees, repo, rel):
    if rel not in trees:
        path = os.path.join(repo, PKG, rel)
        with open(path) as fh:
            trees[rel] = ast.parse(fh.read(), filename=path)
    return trees[rel]


_HASH_CHECKED = {}


def check_frame_hash(ctx):
    """frames_hash renders hash((a, b)) with FrameID.__hash__ = hash(self.value): check that the source says so"""
    tree = ctx.schema
    f = find_function(tree, "FrameID", "__hash__")
    body = [s for s in f.body if not (isinstance(s, ast.Expr) and isinstance(s.value, ast.Constant))]
    if f.decorator_list or len(body) != 1 or not isinstance(body[0], ast.Return) or body[0].value is None \
            or ast.unparse(body[0].value) != "hash(self.value)":
        fail("FrameID.__hash__ is not `return hash(self.value)`")


def find_fn(tree, cls, func):
    """the definition of cls.func that is not a typing overload (exactly one)"""
    cs = [n for n in tree.body if isinstance(n, ast.ClassDef) and n.name == cls]
    if len(cs) != 1:
        fail(f"class {cls} not found")
    fs = [n for n in cs[0].body if isinstance(n, ast.FunctionDef) and n.name == func and "overload" not in [ast.unparse(d) for d in n.decorator_list]]
    if len(fs) != 1:
        fail(f"function {func} not found in {cls} (or defined twice)")
    # a later plain assignment `func = ...` in the class body would replace it
    for n in cs[0].body:
        for m in ast.walk(n) if isinstance(n, (ast.Assign, ast.AnnAssign)) else []:
            if isinstance(m, ast.Name) and isinstance(m.ctx, ast.Store) and m.id == func:
                fail(f"{cls}.{func} is re-bound in the class body")
    return fs[0]


def label_slice(f, self_name):
    """HomogeneousMatrix.__init__: the statements that assign self.src / self.dst; nothing else may touch src / dst / those attributes"""
    keep = []
    for s in f.body:
        tg = None
        if isinstance(s, ast.Assign) and len(s.targets) == 1:
            tg = s.targets[0]
        elif isinstance(s, ast.AnnAssign) and s.value is not None:
            tg = s.target
        if isinstance(tg, ast.Attribute) and isinstance(tg.value, ast.Name) and tg.value.id == self_name and tg.attr in ("src", "dst"):
            keep.append(s)
            continue
        for n in ast.walk(s):
            if isinstance(n, (ast.Return, ast.Delete, ast.Global, ast.Nonlocal, ast.Try, ast.While, ast.For)):
                fail(f"HomogeneousMatrix.__init__: {type(n).__name__} outside the label lines", n)
            if isinstance(n, ast.Name) and n.id in ("src", "dst", self_name) and isinstance(n.ctx, (ast.Store, ast.Del)):
                fail(f"HomogeneousMatrix.__init__: `{n.id}` is rebound outside the label lines", n)
            if isinstance(n, ast.Attribute) and isinstance(n.ctx, (ast.Store, ast.Del)) and n.attr in ("src", "dst"):
                fail("HomogeneousMatrix.__init__: the labels are assigned inside another statement", n)
            if isinstance(n, ast.Call) and isinstance(n.func, ast.Name) and n.func.id in ("setattr", "delattr", "vars", "locals", "exec", "eval"):
                fail(f"HomogeneousMatrix.__init__: `{n.func.id}`", n)
    if len(keep) < 2:
        fail("HomogeneousMatrix.__init__ does not assign self.src and self.dst at the top level")
    return keep


def translate_function(fn, trees, repo, done):
    tree = load(trees, repo, TRANSFORM_PY)
    f = find_fn(tree, fn.cls, fn.func)
    decos = [ast.unparse(d) for d in f.decorator_list]
    if decos != (["staticmethod"] if fn.static else []):
        fail(f"decorators {decos}")
    a = f.args
    if a.kwonlyargs or a.posonlyargs or a.kw_defaults:
        fail("parameter list form")
    if [ast.unparse(d) for d in a.defaults] != (["None"] if fn.name == "TransformDict___init__" else []):
        fail("parameter defaults")
    if bool(a.vararg) != fn.star or bool(a.kwarg) != fn.star:
        fail("parameter list form (*args / **kwargs)")
    names = [x.arg for x in a.args]
    if not fn.static:
        if not names:
            fail("a method without self")
        fn.self_name, names = names[0], names[1:]
    if names != [p for p, _ in fn.params]:
        fail(f"parameters {names} differ from the specification {[p for p, _ in fn.params]}")
    body = list(f.body)
    if fn.kind == "labels":
        body = label_slice(f, fn.self_name)
    for st in body:
        for n in ast.walk(st):
            if isinstance(n, (ast.While, ast.For, ast.Try, ast.With, ast.Lambda, ast.NamedExpr, ast.Global, ast.Nonlocal, ast.Assert, ast.AugAssign,
                              ast.Yield, ast.YieldFrom, ast.Await, ast.FunctionDef, ast.ClassDef, ast.ListComp, ast.SetComp, ast.GeneratorExp)):
                fail(f"unsupported construct {type(n).__name__}", n)
            if isinstance(n, ast.Name) and n.id.startswith("l_"):
                fail(f"the name `{n.id}` is reserved", n)
    ctx = Ctx(fn, tree, done)
    ctx.schema = load(trees, repo, SCHEMA_PY)
    env = Env(ctx)
    coq_params = []
    if fn.self_name is not None:
        if fn.self_ty in (KEY, MAT):
            env.vars[fn.self_name] = ("l_self", fn.self_ty)
            coq_params.append(("l_self", fn.self_ty))
        elif fn.self_ty == SELFDICT:
            env.vars[fn.self_name] = ("l_self", SELFDICT)
            env.data = "l_data"
            coq_params.append(("l_data", DICT))
        else:
            env.vars[fn.self_name] = ("l_self", SELFNEW)
    for p, ty in fn.params:
        if ty is None:
            continue                     # a parameter of the numeric leaf (the label slice does not read it)
        env.vars[p] = ("l_" + p, ty)
        coq_params.append(("l_" + p, ty))
    if fn.star:
        env.vars[a.vararg.arg] = ("l_args", ARGS)
        env.vars[a.kwarg.arg] = ("l_kwargs", KWARGS)
        coq_params += [("l_args", ARGS), ("l_kwargs", KWARGS)]
    term = tr_block(body, env, lambda e: fn.on_return(E("None", NONE, const="None"), e, f))
    ps = " ".join(f"({n} : {COQTY[ty]})" for n, ty in coq_params)
    return "\n".join([f"Module Gen_{fn.name}.", f"(* {TRANSFORM_PY}: {fn.cls}.{fn.func} *)",
                      f"Definition f {ps} : res {paren(COQTY[fn.ret])} :=\n{term}.", f"End Gen_{fn.name}."])


HEADER = r"""(* GENERATED by translator/decisions_transform.py from the Python source of /repo on every run -- do not edit.
   Part 1 (fixed text): exceptions, frames, keys, the dict self.__data, the numeric leaves, *args / **kwargs.
   Part 2: one module per function, `f` = its body.  Props/GenTieTransform.v proves each `f` equal to the hand model
   (Model/Transform.v). *)
From Coq Require Import String List Bool Arith.
From PE Require Import Base.QUtil Base.StrUtil Model.EnumParse Gen.Enums Model.Transform.
Import ListNotations.
Open Scope string_scope.
Open Scope list_scope.
Open Scope nat_scope.

(* ---- results: a value, or the class of the exception.  LeafOutside: a leaf of the rendering was left (never for the inputs of
   the equations; it stands for no Python exception) *)
Inductive exn := ValueError | KeyError | TypeError | AttributeError | IndexError | LeafOutside.
Inductive res (A : Type) : Type := Ok (a : A) | Err (e : exn).
Arguments Ok {A} a.
Arguments Err {A} e.
Definition bind {A B} (r : res A) (f : A -> res B) : res B := match r with Ok a => f a | Err e => Err e end.

(* ---- frames: a str (inl) or a FrameID member given by its key (inr) *)
Definition frame := spelling.
Definition frame_is_str (a : frame) : bool := match a with inl _ => true | inr _ => false end.
Fixpoint assoc_str (l : list (string * string)) (k : string) : option string :=
  match l with [] => None | (k', v) :: t => if String.eqb k k' then Some v else assoc_str t k end.
Definition member_value (k : string) : option string := assoc_str (members FrameID_enum) k.
Definition value_is (k s : string) : bool := match member_value k with Some v => String.eqb v s | None => false end.
(* a == b: two members: the same member; two strs: the same str; a member and a str, in either order: FrameID.__eq__ *)
Definition frame_eqb (a b : frame) : bool :=
  match a, b with
  | inr x, inr y => String.eqb x y
  | inl s, inl t => String.eqb s t
  | inr k, inl s => FrameID_str_eq && value_is k s
  | inl s, inr k => FrameID_str_eq && value_is k s
  end.
(* the str whose hash is the hash of the frame: FrameID.__hash__ = hash(self.value) *)
Definition frame_hash (a : frame) : string :=
  match a with inl s => s | inr k => match member_value k with Some v => v | None => "" end end.
Definition frames_hash (l : list frame) : string * string :=
  match l with [a; b] => (frame_hash a, frame_hash b) | _ => ("", "") end.
(* FrameID.from_value(x): the parser of Gen/Enums.v; a member has no .lower() *)
Definition frame_from_value (a : frame) : res frame :=
  match a with
  | inl s => match run_parser FrameID_enum FrameID_from_value s with
             | Member k => Ok (inr k)
             | KeyStr k => Ok (inl k)
             | Raises => Err ValueError
             | RetNone => Err LeafOutside
             end
  | inr _ => Err AttributeError
  end.

(* ---- keys *)
Record tkey := mkKey { ksrc : frame; kdst : frame }.
Definition key_eqb (k k' : tkey) : bool := frame_eqb (ksrc k) (ksrc k') && frame_eqb (kdst k) (kdst k').
(* a `key` argument: a TransformKey, a tuple / list of frames, something that is not iterable *)
Inductive keyarg := AKey (k : tkey) | ASeq (l : list frame) | AOther.
Definition unpack_seq (l : list frame) : res (frame * frame) :=
  match l with [a; b] => Ok (a, b) | _ => Err ValueError end.
Definition unpack_keyarg (ka : keyarg) : res (frame * frame) :=
  match ka with ASeq l => unpack_seq l | _ => Err TypeError end.

(* ---- self.__data: insertion ordered; the entry of a key is the first entry whose key == it *)
Definition tdict := list (tkey * rigid).
Fixpoint dict_find (d : tdict) (k : tkey) : option rigid :=
  match d with [] => None | (k0, v) :: t => if key_eqb k0 k then Some v else dict_find t k end.
Definition dict_getitem (d : tdict) (k : tkey) : res rigid :=
  match dict_find d k with Some v => Ok v | None => Err KeyError end.
Fixpoint dict_set (d : tdict) (k : tkey) (v : rigid) : tdict :=
  match d with
  | [] => [(k, v)]
  | (k0, v0) :: t => if key_eqb k0 k then (k0, v) :: t else (k0, v0) :: dict_set t k v
  end.
Fixpoint dict_del (d : tdict) (k : tkey) : res tdict :=
  match d with
  | [] => Err KeyError
  | (k0, v0) :: t => if key_eqb k0 k then Ok t else bind (dict_del t k) (fun t' => Ok ((k0, v0) :: t'))
  end.
Inductive initarg := INone | IOne (m : rigid) | IMany (l : list rigid) | IOther.

(* ---- the numeric leaves: a 4x4 rigid matrix is its (rotation, translation); the exact rational forms of Model/Transform.v *)
Definition pose := (quat * vec3)%type.
Definition pose_of (m : rigid) : pose := (rq m, rt m).
Definition pose_mul (a b : pose) : pose := (qmul (fst a) (fst b), vadd (rot (fst a) (snd b)) (snd a)).
Definition pose_inv (a : pose) : pose := (qconj (fst a), vneg (rot (qconj (fst a)) (snd a))).
Definition pose_split (a : pose) : vec3 * quat := (snd a, fst a).
Definition hm_src (m : rigid) : frame := inr (rsrc m).
Definition hm_dst (m : rigid) : frame := inr (rdst m).

(* ---- *args / **kwargs *)
Inductive tval := VPoint (p : vec3) | VQuat (q : quat) | VMat (m : rigid) | VTuple (l : list tval) | VOther.
Definition kwargs := list (string * tval).
Fixpoint kw_find (kw : kwargs) (k : string) : option tval :=
  match kw with [] => None | (k', v) :: t => if String.eqb k k' then Some v else kw_find t k end.
Definition kw_mem (kw : kwargs) (k : string) : bool := match kw_find kw k with Some _ => true | None => false end.
Definition kw_getitem (kw : kwargs) (k : string) : res tval := match kw_find kw k with Some v => Ok v | None => Err KeyError end.
Definition kw_nonempty (kw : kwargs) : bool := match kw with [] => false | _ => true end.
Definition args_nonempty (l : list tval) : bool := match l with [] => false | _ => true end.
Definition args_nth (l : list tval) (n : nat) : res tval := match nth_error l n with Some v => Ok v | None => Err IndexError end.
Definition unpack_args (l : list tval) : res (tval * tval) := match l with [a; b] => Ok (a, b) | _ => Err ValueError end.
(* matrix.transform( *args, **kwargs ): the three positional call forms of the model; anything else is outside this rendering *)
Definition hm_transform (m : rigid) (args : list tval) (kw : kwargs) : res tval :=
  match args, kw with
  | [VPoint p], [] => Ok (VPoint (apply_point m p))
  | [VPoint p; VQuat r], [] => Ok (VTuple [VPoint (fst (apply_pose m (p, r))); VQuat (snd (apply_pose m (p, r)))])
  | [VMat M], [] => match transform_matrix m M with DotOk r => Ok (VMat r) | DotValueError => Err ValueError end
  | _, _ => Err LeafOutside
  end.
"""

HM_NEW = r"""(* HomogeneousMatrix(position, rotation, src=, dst=): the label lines of its __init__ (translated above), then the record *)
Definition hm_new (p : vec3) (r : quat) (src dst : frame) : res rigid :=
  bind (Gen_HomogeneousMatrix_labels.f src dst) (fun sd =>
  match sd with
  | (inr s, inr d) => Ok (mkRigid r p s d)
  | _ => Err LeafOutside
  end).
"""


def generate(repo):
    trees, out, bad, done = {}, [HEADER], {}, []
    for fn in specs():
        try:
            missing = [n for n in fn.needs if n not in done]
            if missing:
                fail("depends on " + ", ".join(missing) + " (not translated)")
            txt = translate_function(fn, trees, repo, done)
        except (TranslatorError, SyntaxError, OSError, RecursionError) as e:
            bad[fn.name] = f"{type(e).__name__}: {e}" if not isinstance(e, TranslatorError) else str(e)
        except Exception as e:  # noqa: BLE001 -- a defect of the translator itself must not look like a translation
            bad[fn.name] = f"internal error {type(e).__name__}: {e}"
        if fn.name in bad:
            out.append(f"(* {fn.name}: not translated: {bad[fn.name].replace('*)', '* )').replace('(*', '( *')} *)\n")
            continue
        done.append(fn.name)
        out.append(txt + "\n")
        if fn.name == "HomogeneousMatrix_labels":
            out.append(HM_NEW)
    out.append("Definition translated : list string := [" + "; ".join(coq_str(n) for n in done) + "].")
    return "\n".join(out) + "\n", bad


def regenerate(repo, outdir):
    """Write <outdir>/decisions_transform.v (only when the content changes).  {file: None} when every function was translated, else
    {file: "partial: f1: not translated: why; ..."}."""
    os.makedirs(outdir, exist_ok=True)
    txt, bad = generate(repo)
    path = os.path.join(outdir, OUT_NAME)
    old = None
    if os.path.exists(path):
        with open(path) as fh:
            old = fh.read()
    if old != txt:
        with open(path, "w") as fh:
            fh.write(txt)
    if not bad:
        return {OUT_NAME: None}
    return {OUT_NAME: "partial: " + "; ".join(f"{k}: not translated: {v}" for k, v in bad.items())}


if __name__ == "__main__":
    repo_ = sys.argv[1] if len(sys.argv) > 1 else "/repo"
    outdir_ = sys.argv[2] if len(sys.argv) > 2 else os.path.join(HERE, "..", "coq", "theories", "Gen")
    try:
        st = regenerate(repo_, outdir_)
    except OSError as e_:
        print(f"{OUT_NAME}: could not be written: {e_}")
        sys.exit(1)
    for k_, v_ in st.items():
        print(f"{k_}: {'ok' if v_ is None else v_}")
    sys.exit(0)
