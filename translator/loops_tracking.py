#!/usr/bin/env python3
"""Translator for the loop functions of the TRACKING metrics (CLEAR) and of the frame lookup: Python `ast` -> Gallina
(Gen/loops_tracking.v).  Third layer of the redundant tie (decisions.py: loop-free decisions; loops.py: the loops of the AP computation).
Props/GenTieTracking.v proves every generated definition EQUAL, for all inputs, to the hand model (Model/Clear.v, Model/Lookup.v).

The expression layer (`tr`: comparisons, arithmetic, calls through a per-function vocabulary, xs[i] as nth_error + ErrIndex) is the one
of loops.py, imported unchanged.  The STATEMENT layer is re-implemented here because these functions need what loops.py refuses:

  nested loops    a `for` inside the body of a `for`: the inner fold_left is part of the outer body; its state is the tuple of the
                  locals it changes that exist before it (including the ones created earlier in the OUTER body and the outer state).
  `break`         a loop whose body contains a `break` (syntactically inside this loop, not inside a nested one) carries a flag:

      bind (fold_left (fun (st_ : res (bool * S)) x => bind st_ (fun '(brk_, STATE) =>
                         if brk_ then Ok (true, STATE) else <body>))
                      xs (Ok (false, STATE)))
           (fun '(_, STATE) => <what follows the loop>)

                  where the body ends in `Ok (false, STATE)` at its normal end and at a `continue`, and in `Ok (true, STATE)` at a `break`:
                  after a break every remaining iteration returns the state unchanged, which is exactly "the loop is left with the locals as
                  they are at the break".  `for ... else`, `return` inside a loop and `break` anywhere else are not translated.
  attributes      (CLEAR.__init__ / _calculate_score) `self.x` for the attributes listed per function is a local named `self_x`
                  (the object under construction is not shared while __init__ runs); the function "returns" the listed attributes.
  +inf            `float("inf")` assigned to a local declared as extended (`fn.xlocals`) is `None`, a finite value `Some v`;
                  `max(0.0, x)` on such a local is Python's `x if x > 0.0 else 0.0` with inf > 0.0.
  division        by an expression e is translated only under a dominating test that makes e non-zero (`e == 0` false branch, also
                  for rationals: the quotient of rationals by a non-zero rational is the exact one).

Everything else (what is a local, which lists may be mutated, Optional narrowing through `is None`, loop shapes declared per function,
fail-closed per function, `regenerate(repo, outdir)`) follows loops.py.  Only `ast` is used.
"""
import ast
import os
import sys

sys.path.insert(0, os.path.dirname(os.path.abspath(__file__)))
from py_to_coq import TranslatorError, coq_str  # noqa: E402
from decisions import fail, paren, parse, find_function  # noqa: E402
import loops as L  # noqa: E402
from loops import Q, NAT, BOOL, NUM, lst, tup, cty, is_list, E, V, Call, Fn, Env, coerce, lname, wrap, state_tuple, state_pat, state_type  # noqa: E402

MODNAME = "loops_tracking"          # core.regenerate_gen derives the file name Gen/<module name>.v from this file's name
XQ = ("coq", "option Q")            # an extended rational: None = +inf


class LoopCtx:
    """what `continue` / the normal end of the body and `break` mean in the loop being translated"""

    def __init__(self, cont, brk):
        self.cont, self.brk = cont, brk


# =============================================================================================
# expressions: loops.tr, plus the few top-level forms of these functions
# =============================================================================================
def check_scope(node, env):
    """a vocabulary entry may mention l_<name> of a Python local: that local must be in scope with the expected type here"""
    need = getattr(env.fn, "scope", {})
    for n in ast.walk(node):
        if isinstance(n, ast.Name) and isinstance(n.ctx, ast.Load) and n.id in need:
            if n.id not in env.vars or env.vars[n.id][1] != need[n.id]:
                fail(f"`{n.id}` is used where it is not the {cty(need[n.id])} the vocabulary speaks about", node)


def is_inf(node):
    return isinstance(node, ast.Call) and isinstance(node.func, ast.Name) and node.func.id == "float" and len(node.args) == 1 \
        and not node.keywords and isinstance(node.args[0], ast.Constant) and node.args[0].value in ("inf", "Infinity", "+inf")


ZT = ("coq", "Z")                   # a Python int that may be negative (time stamps, differences)


def has_z(node, env):
    """does the expression contain an integer (Z) leaf: a local / parameter of that type or a vocabulary leaf of that type?"""
    for n in ast.walk(node):
        if isinstance(n, ast.Name) and n.id in env.vars and env.vars[n.id][1] == ZT:
            return True
        if isinstance(n, ast.expr) and not isinstance(n, ast.Name):
            v = env.fn.vocab.get(ast.unparse(n))
            if v is not None and v.ty == ZT:
                return True
    return False


def trz(node, env, ctx):
    """integer (Z) arithmetic and comparisons: names, vocabulary leaves, int literals, a + b, a - b, a * b, -a, abs(a),
    literal ** literal, comparisons (each Python operator is the Z operator of the same name: <? >? <=? >=? =?)"""
    key = ast.unparse(node)
    if key in env.fn.vocab and not isinstance(node, ast.Name):
        v = env.fn.vocab[key]
        if v.eff:
            fail("effectful integer leaf", node)
        return E(v.term, v.ty)
    if isinstance(node, ast.Name):
        if node.id in env.vars:
            return E(*env.vars[node.id])
        fail(f"unknown name `{node.id}`", node)
    if isinstance(node, ast.Constant) and isinstance(node.value, int) and not isinstance(node.value, bool):
        return E(f"{node.value}%Z" if node.value >= 0 else f"({node.value})%Z", ZT)
    if isinstance(node, ast.UnaryOp) and isinstance(node.op, ast.USub):
        a = trz(node.operand, env, ctx)
        if a.ty != ZT:
            fail("unary minus on a non-integer", node)
        return E(f"(- {paren(a.term)})%Z", ZT)
    if isinstance(node, ast.BinOp):
        if isinstance(node.op, ast.Pow):
            if all(isinstance(x, ast.Constant) and isinstance(x.value, int) and not isinstance(x.value, bool) and x.value >= 0
                   for x in (node.left, node.right)):
                return E(f"({node.left.value} ^ {node.right.value})%Z", ZT)
            fail("power of something that is not two natural literals", node)
        a, b = trz(node.left, env, ctx), trz(node.right, env, ctx)
        if a.ty != ZT or b.ty != ZT:
            fail("integer arithmetic with a non-integer", node)
        op = {ast.Add: "+", ast.Sub: "-", ast.Mult: "*"}.get(type(node.op))
        if op is None:
            fail(f"operator {type(node.op).__name__} on integers", node)      # / would be a float, // and % are not needed
        return E(f"({paren(a.term)} {op} {paren(b.term)})%Z", ZT)
    if isinstance(node, ast.Call) and isinstance(node.func, ast.Name) and node.func.id == "abs" and "abs" not in env.vars \
            and len(node.args) == 1 and not node.keywords:
        a = trz(node.args[0], env, ctx)
        if a.ty != ZT:
            fail("abs() of a non-integer", node)
        return E(f"Z.abs {paren(a.term)}", ZT)
    if isinstance(node, ast.Compare):
        terms, left = [], trz(node.left, env, ctx)
        for op, rn in zip(node.ops, node.comparators):
            right = trz(rn, env, ctx)
            if left.ty != ZT or right.ty != ZT:
                fail("comparison of an integer with a non-integer", node)
            f = {ast.Lt: "Z.ltb", ast.LtE: "Z.leb", ast.Gt: "Z.gtb", ast.GtE: "Z.geb", ast.Eq: "Z.eqb"}.get(type(op))
            if f is None:
                fail(f"comparison operator {type(op).__name__} on integers", node)
            terms.append(f"{f} {paren(left.term)} {paren(right.term)}")
            left = right
        return E(" && ".join(paren(t) for t in terms) if len(terms) > 1 else terms[0], BOOL)
    fail(f"integer expression not translated: `{key}`", node)


def tr(node, env, ctx, trunc_ok=False):
    check_scope(node, env)
    # a local that may be inf is only ever passed on as it is (a bare name, or an element of a returned tuple)
    allowed = {id(node)} | ({id(x) for x in node.elts} if isinstance(node, ast.Tuple) else set())
    for n in ast.walk(node):
        if isinstance(n, ast.Name) and n.id in env.vars and env.vars[n.id][1] == XQ and id(n) not in allowed:
            fail(f"arithmetic / comparison / call on `{n.id}`, which may be inf", node)
    if has_z(node, env) or (isinstance(node, ast.BinOp) and isinstance(node.op, ast.Pow)):
        if isinstance(node, ast.UnaryOp) and isinstance(node.op, ast.Not):
            a = tr(node.operand, env, ctx)
            if a.ty != BOOL:
                fail("`not` of a non-boolean", node)
            return E(f"negb {paren(a.term)}", BOOL)
        if isinstance(node, ast.BoolOp):
            parts = []
            for vnode in node.values:
                sub = []
                a = tr(vnode, env, sub)
                if sub or a.ty != BOOL:
                    fail("`and` / `or` on operands that can raise or are not booleans", node)
                parts.append(paren(a.term))
            return E((" && " if isinstance(node.op, ast.And) else " || ").join(parts), BOOL)
        if isinstance(node, ast.Tuple):
            parts = [tr(x, env, ctx) for x in node.elts]
            e = E("(" + ", ".join(p.term for p in parts) + ")", tup(*[p.ty for p in parts]))
            e.parts = parts
            return e
        return trz(node, env, ctx)
    return L.tr(node, env, ctx, trunc_ok)


def sub_index(node):
    """xs[a - k], k a positive integer literal -> (xs, a, k)"""
    if isinstance(node, ast.Subscript) and isinstance(node.slice, ast.BinOp) and isinstance(node.slice.op, ast.Sub) \
            and isinstance(node.slice.right, ast.Constant) and isinstance(node.slice.right.value, int) \
            and not isinstance(node.slice.right.value, bool) and node.slice.right.value > 0:
        return node.value, node.slice.left, node.slice.right.value
    return None


def tr_sub_index(node, env, ctx):
    """xs[a - k] with Python's meaning of a negative index:  a - k >= 0: position a - k;  otherwise position len(xs) - (k - a),
    IndexError when that is negative too (or when the position is not below len(xs))"""
    xs_n, a_n, k = sub_index(node)
    xs = tr(xs_n, env, ctx)
    if not is_list(xs.ty) or xs.ty[1] == NUM:
        fail("subscript of something that is not a list", node)
    a = L.to_nat(tr(a_n, env, ctx), node)
    x, a = paren(xs.term), paren(a)
    v = env.fn.fresh("e")
    ctx.append((v, f"match (if Nat.leb {k} {a} then nth_error {x} ({a} - {k})%nat else if Nat.leb ({k} - {a})%nat (length {x}) "
                   f"then nth_error {x} (length {x} - ({k} - {a}))%nat else None) with Some x_ => Ok x_ | None => ErrIndex end"))
    return E(v, xs.ty[1])


def tr_value(node, env, ctx, target_ty):
    """right-hand side of an assignment to a local of the extended type"""
    if target_ty == XQ:
        if is_inf(node):
            return E("None", XQ)
        # max(0.0, x), x an extended local:  Python's max returns its first argument unless a later one is greater
        if isinstance(node, ast.Call) and isinstance(node.func, ast.Name) and node.func.id == "max" and node.func.id not in env.vars \
                and len(node.args) == 2 and not node.keywords and isinstance(node.args[1], ast.Name) \
                and node.args[1].id in env.vars and env.vars[node.args[1].id][1] == XQ:
            a = L.tr(node.args[0], env, ctx)
            if a.ty != NUM:
                fail("max(...) whose first argument is not a literal", node)
            x = env.vars[node.args[1].id][0]
            return E(f"match {x} with None => None | Some x_ => Some (if Qltb {L.qlit(a.num)} x_ then x_ else {L.qlit(a.num)}) end", XQ)
        e = tr(node, env, ctx)
        if e.ty in (Q, NUM):
            return E(f"Some {paren(L.to_q(e, node))}", XQ)
        fail(f"a {e.ty} assigned to a local that is a float or inf", node)
    return tr(node, env, ctx)


# =============================================================================================
# statements
# =============================================================================================
def own_breaks(stmts):
    """does the body contain a `break` that belongs to THIS loop (not to a nested one)?"""
    def walk(ss):
        for s in ss:
            if isinstance(s, ast.Break):
                return True
            if isinstance(s, (ast.For, ast.While)):
                if walk(s.orelse):
                    return True
                continue
            for fld in ("body", "orelse", "handlers", "finalbody"):
                if walk(getattr(s, fld, []) or []):
                    return True
        return False
    return walk(stmts)


def branch_envs(test, env):
    """loops.branch_envs, plus: in the FALSE branch of `e == 0` / `0 == e` (TRUE branch of `e != 0`) a rational e is non-zero.
    (Env.positive is only ever consulted to decide whether a divisor is non-zero.)"""
    et, ef = L.branch_envs(test, env)
    t, neg = test, False
    while isinstance(t, ast.UnaryOp) and isinstance(t.op, ast.Not):
        t, neg = t.operand, not neg
    if isinstance(t, ast.Compare) and len(t.ops) == 1 and isinstance(t.ops[0], (ast.Eq, ast.NotEq)):
        a, b = t.left, t.comparators[0]

        def zero(n):
            return isinstance(n, ast.Constant) and not isinstance(n.value, bool) and isinstance(n.value, (int, float)) and n.value == 0

        other = b if zero(a) else a if zero(b) else None
        if other is not None:
            nonzero_when_true = isinstance(t.ops[0], ast.NotEq) != neg
            try:
                ty = L.tr(other, env, []).ty
            except TranslatorError:
                ty = None
            if ty in (Q, NAT) and all(not isinstance(n, ast.Call) for n in ast.walk(other)):
                (et if nonzero_when_true else ef).positive.add(ast.unparse(other))
    return et, ef


def tr_block(ss, env, k):
    """-> Coq term of type res <function result>; k(env): what follows the block (None: the end of the function)"""
    fn = env.fn
    if not ss:
        if k is None:
            fail(f"{fn.func}: control can reach the end of the function without a return")
        return k(env)
    s, rest = ss[0], ss[1:]

    def cont(e):
        return tr_block(rest, e, k)

    if isinstance(s, ast.Return):
        if env.loop is not None:
            fail("return inside a loop", s)
        if s.value is None:
            fail("bare return", s)
        ctx = []
        if isinstance(fn.ret, tuple) and fn.ret[0] == "opt":
            if isinstance(s.value, ast.Constant) and s.value.value is None:
                return "Ok None"
            e = tr(s.value, env, ctx)
            if e.ty == fn.ret:
                return wrap(ctx, f"Ok {paren(e.term)}")
            return wrap(ctx, f"Ok (Some {paren(coerce(e, fn.ret[1], s))})")
        e = tr(s.value, env, ctx)
        return wrap(ctx, f"Ok {paren(coerce(e, fn.ret, s))}")
    if isinstance(s, ast.Continue):
        if env.loop is None:
            fail("continue outside a loop", s)
        return env.loop.cont(env)
    if isinstance(s, ast.Break):
        if env.loop is None or env.loop.brk is None:
            fail("break outside a loop this translator renders", s)
        return env.loop.brk(env)
    if isinstance(s, ast.For):
        return tr_for(s, rest, env, k)
    if isinstance(s, ast.If):
        return tr_if(s, rest, env, k)
    # an assignment to a local of the extended type (float or inf)
    if isinstance(s, (ast.Assign, ast.AnnAssign)) and getattr(s, "value", None) is not None:
        targets = s.targets if isinstance(s, ast.Assign) else [s.target]
        if len(targets) == 1 and isinstance(targets[0], ast.Name) and targets[0].id in getattr(fn, "xlocals", ()):
            nme = targets[0].id
            ctx = []
            e = tr_value(s.value, env, ctx, XQ)
            e1 = L.bind_local(env, nme, XQ, s)
            return wrap(ctx, f"let {lname(nme)} := {e.term} in\n{cont(e1)}")
    if isinstance(s, (ast.Assign, ast.AnnAssign)) and getattr(s, "value", None) is not None and sub_index(s.value) is not None:
        targets = s.targets if isinstance(s, ast.Assign) else [s.target]
        if len(targets) != 1 or not isinstance(targets[0], ast.Name):
            fail("assignment target", s)
        nme = targets[0].id
        ctx = []
        e = tr_sub_index(s.value, env, ctx)
        e1 = L.bind_local(env, nme, e.ty, s)        # not `made`: an element of the caller's list is never mutated here
        return wrap(ctx, f"let {lname(nme)} := {e.term} in\n{cont(e1)}")
    if isinstance(s, (ast.Assign, ast.AnnAssign)) and getattr(s, "value", None) is not None:
        targets = s.targets if isinstance(s, ast.Assign) else [s.target]
        if len(targets) == 1 and isinstance(targets[0], ast.Name) and (has_z(s.value, env) or targets[0].id in getattr(fn, "ltypes", {})
                                                                       or (isinstance(s.value, ast.BinOp) and isinstance(s.value.op, ast.Pow))):
            # an integer (Z) value, or a local whose type is declared (Optional objects, integers that start as the float 0.0)
            nme = targets[0].id
            ctx = []
            dty = getattr(fn, "ltypes", {}).get(nme)
            if dty is not None and isinstance(s.value, ast.Constant) and s.value.value is None and dty[0] == "opt":
                e = E("None", dty)
            elif dty == ZT and isinstance(s.value, ast.Constant) and isinstance(s.value.value, float) and s.value.value == int(s.value.value):
                e = E(f"{int(s.value.value)}%Z", ZT)        # the float k.0 where every later value is an int: same comparisons
            else:
                e = tr(s.value, env, ctx)
                if dty is not None and dty[0] == "opt" and e.ty == dty[1]:
                    e = E(f"Some {paren(e.term)}", dty)
            if dty is not None and e.ty != dty:
                fail(f"`{nme}` is declared {cty(dty)} but is assigned a {e.ty}", s)
            if is_list(e.ty):
                fail("a list bound by this path", s)
            e1 = L.bind_local(env, nme, e.ty, s)
            return wrap(ctx, f"let {lname(nme)} := {e.term} in\n{cont(e1)}")
    if isinstance(s, (ast.Assign, ast.AnnAssign, ast.AugAssign, ast.Expr, ast.Pass)):
        # one simple statement: rendered by loops.py, what follows it by this module
        check_scope(s, env)
        for n in ast.walk(s):
            if isinstance(n, ast.Name) and isinstance(n.ctx, ast.Load) and n.id in env.vars and env.vars[n.id][1] == XQ:
                fail(f"`{n.id}` (which may be inf) is used in an expression", s)
        return L.tr_block([s], env, cont)
    fail(f"statement not translated: {type(s).__name__}", s)


def tr_if(s, rest, env, k):
    ctx = []
    nn = L.none_test(s.test, env)
    if nn is not None:
        x, is_none = nn
        inner = env.vars[x][1][1]
        e_some, e_none = env.copy(), env.copy()
        e_some.vars[x] = (lname(x), inner)
        del e_none.vars[x]           # the name stands for None there: any use is not translated
        (et, ef) = (e_none, e_some) if is_none else (e_some, e_none)

        def render(a, b):
            none_b, some_b = (a, b) if is_none else (b, a)
            return f"match {lname(x)} with\n| None =>\n{none_b}\n| Some {lname(x)} =>\n{some_b}\nend"
    else:
        c = tr(s.test, env, ctx)
        if c.ty != BOOL:
            fail("condition is not a boolean (truthiness is not translated)", s)
        et, ef = branch_envs(s.test, env)

        def render(a, b):
            return f"if {c.term} then\n{a}\nelse\n{b}"
    if L.escapes([s]):
        def after(e, branch):
            return tr_block(rest, L.restrict(e, env, branch), k)
        a = tr_block(s.body, et, lambda e: after(e, s.body))
        b = tr_block(s.orelse, ef, lambda e: after(e, s.orelse))
        return wrap(ctx, render(a, b))
    ab, ao = L.assigned(s.body), L.assigned(s.orelse)
    mv = [v for v in env.vars if v in ab or v in ao] + [v for v in ab if v not in env.vars and v in ao]
    if not mv:
        fail("an `if` that neither leaves nor changes a variable that is live afterwards", s)
    seen = {}

    def kj(e):
        for v in mv:
            if v not in e.vars:
                fail(f"`{v}` is not assigned on every path", s)
            seen.setdefault(v, set()).add(e.vars[v][1] if isinstance(e.vars[v][1], str) else repr(e.vars[v][1]))
            seen.setdefault(("t", v), e.vars[v][1])
            seen.setdefault(("m", v), []).append(v in e.made)
        return f"Ok {state_tuple(mv)}"

    a = tr_block(s.body, et, kj)
    b = tr_block(s.orelse, ef, kj)
    e1 = env.copy()
    for v in mv:
        if len(seen[v]) != 1:
            fail(f"`{v}` has different types on the two paths", s)
        e1.vars[v] = (lname(v), seen[("t", v)])
        e1.positive.discard(v)
        if all(seen[("m", v)]):
            e1.made.add(v)
        else:
            e1.made.discard(v)
    return wrap(ctx, f"bind ({render(a, b)}) (fun {state_pat(mv)} =>\n{tr_block(rest, e1, k)})")


def iter_of(it, env, ctx, node):
    """loops.iter_of, plus  xs[1:]  (tl xs)  and  enumerate(<iterable>, k)  (indices from the literal k)"""
    if isinstance(it, ast.Subscript) and isinstance(it.slice, ast.Slice) and it.slice.upper is None and it.slice.step is None \
            and isinstance(it.slice.lower, ast.Constant) and it.slice.lower.value == 1 and not isinstance(it.slice.lower.value, bool):
        e = tr(it.value, env, ctx)
        if not is_list(e.ty) or e.ty[1] == NUM:
            fail("slice of something that is not a list", node)
        return f"tl {paren(e.term)}", e.ty[1]
    if isinstance(it, ast.Call) and isinstance(it.func, ast.Name) and it.func.id == "enumerate" and "enumerate" not in env.vars \
            and len(it.args) == 2 and not it.keywords:
        st = it.args[1]
        if not (isinstance(st, ast.Constant) and isinstance(st.value, int) and not isinstance(st.value, bool) and st.value >= 0):
            fail("enumerate(..., start) with a start that is not a natural literal", node)
        t, ty = iter_of(it.args[0], env, ctx, node)
        return f"combine (seq {st.value} (length ({t}))) ({t})", tup(NAT, ty)
    if isinstance(it, ast.Call) and isinstance(it.func, ast.Name) and it.func.id in ("reversed", "enumerate", "zip", "range"):
        for a in it.args:
            if isinstance(a, ast.Subscript) and isinstance(a.slice, ast.Slice):
                fail("a slice inside this loop header", node)
        return L.iter_of(it, env, ctx, node)
    e = tr(it, env, ctx)
    if not is_list(e.ty) or e.ty[1] == NUM:
        fail("loop over something that is not a list / range", node)
    return e.term, e.ty[1]


def iter_kind(it):
    if isinstance(it, ast.Subscript) and isinstance(it.slice, ast.Slice):
        return "list[1:]"
    if isinstance(it, ast.Call) and isinstance(it.func, ast.Name) and it.func.id == "enumerate" and len(it.args) == 2:
        return f"enumerate({iter_kind(it.args[0])},{ast.unparse(it.args[1])})"
    return L.iter_kind(it)


def direct_lists(it):
    if isinstance(it, ast.Subscript) and isinstance(it.slice, ast.Slice):
        return [it.value]
    return L.direct_lists(it)


def tr_for(s, rest, env, k):
    fn = env.fn
    if s.orelse:
        fail("for ... else", s)
    ctx = []
    it, ety = iter_of(s.iter, env, ctx, s)
    pat, benv, loopvars = L.bind_target(s.target, ety, env, s)
    ab = L.assigned(s.body)
    for v in loopvars:
        if v in ab:
            fail(f"loop variable `{v}` is assigned in the body", s)
    for v in ab:
        if v in env.params:
            fail(f"parameter `{v}` is changed in a loop", s)
    for n in direct_lists(s.iter):
        for m in ast.walk(n):
            if isinstance(m, ast.Name) and m.id in ab:
                fail(f"`{m.id}` is iterated and changed in the same loop", s)
    state = [v for v in env.vars if v in ab]
    if not state:
        fail("a loop that changes no variable defined before it", s)
    has_break = own_breaks(s.body)

    def end(flag):
        def f(e):
            L.check_state(e, env, state, s)
            return f"Ok ({flag}, {state_tuple(state)})" if has_break else f"Ok {state_tuple(state)}"
        return f

    benv.loop = LoopCtx(end("false"), end("true") if has_break else None)
    body = tr_block(s.body, benv, benv.loop.cont)
    sty = state_type(state, env)
    fn.found.append((iter_kind(s.iter) + ("+break" if has_break else ""), tuple(env.vars[v][1] for v in state)))
    e1 = env.copy()          # loop variables and locals first bound in the body are not visible after the loop
    e1.positive -= set(state)
    after = tr_block(rest, e1, k)
    if has_break:
        st = state_tuple(state)
        loop = (f"fold_left (fun (st_ : res (bool * {sty})) {pat} => bind st_ (fun '(brk_, {st}) =>\nif brk_ then Ok (true, {st}) else\n{body}))\n"
                f"({it}) (Ok (false, {st}))")
        return wrap(ctx, f"bind ({loop}) (fun '(_, {st}) =>\n{after})")
    loop = (f"fold_left (fun (st_ : res {sty}) {pat} => bind st_ (fun {state_pat(state)} =>\n{body}))\n"
            f"({it}) (Ok {state_tuple(state)})")
    return wrap(ctx, f"bind ({loop}) (fun {state_pat(state)} =>\n{after})")


# =============================================================================================
# one function
# =============================================================================================
class _SelfAttrs(ast.NodeTransformer):
    """self.x -> the local self_x, for the attributes the function owns"""

    def __init__(self, attrs):
        self.attrs = attrs

    def visit_Attribute(self, node):
        if isinstance(node.value, ast.Name) and node.value.id == "self" and node.attr in self.attrs:
            return ast.copy_location(ast.Name(id="self_" + node.attr, ctx=node.ctx), node)
        return self.generic_visit(node)


def prepare_init(fn, f, body):
    """a constructor: (1) the first statement must be the expected super().__init__ call (dropped: its meaning is the vocabulary);
    (2) self.<owned attribute> -> local self_<attribute>; no other attribute of self may be written; (3) method calls that read
    attributes implicitly get them as explicit arguments; (4) the result is the tuple of the owned attributes at the end."""
    if not body or not isinstance(body[0], ast.Expr) or ast.unparse(body[0].value) != fn.super_call:
        fail("the constructor does not start with the expected super().__init__(...) call (every parameter passed under its own name)")
    body = [_SelfAttrs(fn.attrs).visit(s) for s in body[1:]]
    for s in body:
        for n in ast.walk(s):
            if isinstance(n, ast.Attribute) and isinstance(n.ctx, (ast.Store, ast.Del)):
                fail(f"`{ast.unparse(n)}` is written", n)
            if isinstance(n, ast.Call) and ast.unparse(n.func) in fn.implicit:
                if n.args or n.keywords:
                    fail(f"arguments of {ast.unparse(n.func)}", n)
                n.args = [ast.Name(id=a, ctx=ast.Load()) for a in fn.implicit[ast.unparse(n.func)]]
            if isinstance(n, ast.Return):
                fail("return in a constructor", n)
            if isinstance(n, ast.Name) and n.id == "self" and isinstance(n.ctx, ast.Load):
                pass
    ret = ast.Return(value=ast.Tuple(elts=[ast.Name(id="self_" + a, ctx=ast.Load()) for a in fn.result_attrs], ctx=ast.Load()))
    body.append(ret)
    for s in body:
        ast.fix_missing_locations(s)
    return body


def prepare_raise_guard(fn, f, body):
    """the function starts with constant assignments and `if <test>: raise <fn.raises>(...)` (no else): the test becomes the
    definition `raises_<Error>`; `f` is the rest of the function (what it computes when the guard does not raise)"""
    for i, s in enumerate(body):
        if isinstance(s, ast.If) and not s.orelse and len(s.body) == 1 and isinstance(s.body[0], ast.Raise):
            r = s.body[0]
            if r.cause is not None or not (isinstance(r.exc, ast.Call) and isinstance(r.exc.func, ast.Name) and r.exc.func.id == fn.raises):
                fail(f"the leading guard does not raise {fn.raises}", r)
            before = body[:i]
            if not all(isinstance(b, (ast.Assign, ast.AnnAssign)) for b in before):
                fail("statements other than assignments before the leading guard", s)
            fn.pre_body = before + [ast.copy_location(ast.Return(value=s.test), s)]
            return before + body[i + 1:]
        if not isinstance(s, (ast.Assign, ast.AnnAssign)):
            break
    fail(f"the leading `if ...: raise {fn.raises}(...)` was not found")


def prepare_prefix(fn, f, body):
    """the statements before the first one that contains a `return`; the result is the tuple of fn.result_locals there"""
    for i, s in enumerate(body):
        if any(isinstance(n, ast.Return) for n in ast.walk(s)):
            if i == 0:
                break
            ret = ast.Return(value=ast.Tuple(elts=[ast.Name(id=a, ctx=ast.Load()) for a in fn.result_locals], ctx=ast.Load()))
            ast.copy_location(ret, s)
            ast.fix_missing_locations(ret)
            return body[:i] + [ret]
    fail("no statement before the first return")


def translate_function(fn, repo, trees):
    if fn.file not in trees:
        trees[fn.file] = parse(repo, fn.file)
    f = find_function(trees[fn.file], fn.cls, fn.func)
    fn.counter = 0
    body = list(f.body)
    if body and isinstance(body[0], ast.Expr) and isinstance(body[0].value, ast.Constant) and isinstance(body[0].value.value, str):
        body = body[1:]
    pynames = [a.arg for a in f.args.args if a.arg != "self"]
    if f.args.vararg or f.args.kwarg or f.args.kwonlyargs or f.args.posonlyargs:
        fail("parameter list form")
    if sorted(pynames) != sorted(fn.penv):
        fail(f"parameters changed: {pynames} (expected {sorted(fn.penv)})")
    fn.pre_body = None
    prepare = getattr(fn, "prepare", None)
    if prepare is not None:
        body = prepare(fn, f, body)
    for st in body + (fn.pre_body or []):
        for n in ast.walk(st):
            if isinstance(n, (ast.While, ast.Try, ast.With, ast.Raise, ast.Lambda, ast.NamedExpr, ast.Global, ast.Nonlocal, ast.Delete, ast.Assert,
                              ast.Yield, ast.YieldFrom, ast.Await, ast.FunctionDef, ast.ClassDef, ast.Starred)):
                fail(f"unsupported construct {type(n).__name__}", n)
    env = Env(fn)
    for p in pynames:
        env.vars[p] = fn.penv[p]
        env.params.add(p)
    for nme, (term, ty) in getattr(fn, "attr_inputs", {}).items():      # attributes set before this method runs: read-only inputs
        env.vars[nme] = (term, ty)
        env.params.add(nme)
    fn.found = []
    term = tr_block(body, env, None)
    if fn.loops is not None and fn.found != fn.loops:
        def show(ls):
            return "; ".join(f"{k} over ({', '.join(cty(t) for t in ts)})" for k, ts in ls) or "none"
        fail(f"the loops of the function ({show(fn.found)}) are not the ones its equation is proved for ({show(fn.loops)})")
    out = [f"Module Gen_{fn.name}.", f"(* {fn.file}: {(fn.cls + '.') if fn.cls else ''}{fn.func} *)"]
    for m in fn.imports:
        out.append(f"Import {m}.")
    if fn.pre_body is not None:
        # the leading `if <test>: raise <Error>(...)`: <test> as a definition of its own; f is the function after that statement
        ret, found = fn.ret, fn.found
        fn.ret = BOOL
        env0 = Env(fn)
        for p in pynames:
            env0.vars[p] = fn.penv[p]
            env0.params.add(p)
        pre = tr_block(fn.pre_body, env0, None)
        fn.ret, fn.found = ret, found
        out.append(f"Definition raises_{fn.raises} {fn.params} : res bool :=\n{pre}.")
    out.append(f"Definition f {fn.params} : res {paren(cty(fn.ret))} :=\n{term}.")
    out.append(f"End Gen_{fn.name}.")
    return "\n".join(out)


# =============================================================================================
# the functions and their vocabularies
# =============================================================================================
CLEAR_PY = "evaluation/metrics/tracking/clear.py"
R = ("coq", "Clear.result")
DATASET_PY = "common/dataset.py"
FRAME = ("coq", "Lookup.frame")


def glt(x):
    return (f"get_label_threshold(semantic_label={x}.ground_truth_object.semantic_label if {x}.ground_truth_object is not None "
            f"else {x}.estimated_object.semantic_label, target_labels=self.target_labels, threshold_list=self.matching_threshold_list)")


def specs():
    S = []
    # ---- CLEAR._calculate_tp_fp --------------------------------------------------------------------------------------------------
    # facts: Clear.label_threshold T (Clear.thr_label r) is get_label_threshold of the label of r's ground truth (of its estimate
    # when there is none); Clear.is_correct / is_switched / is_same are the decision functions tied in Props/GenTie.v
    # (GenTie_is_result_correct_clear, GenTie_is_id_switched, GenTie_is_same_match); Clear.score_of r is get_matching(mode).value;
    # w r is self.tp_metrics.get_value(r) (a parameter: the hand model is the case w = 1, TPMetricsAp).
    fn = Fn("CLEAR__calculate_tp_fp", CLEAR_PY, "_calculate_tp_fp",
            "(w : Clear.result -> Q) (m : Clear.mode) (T : Clear.targets) (cur_object_results prev_object_results : list Clear.result)",
            {"cur_object_results": ("cur_object_results", lst(R)), "prev_object_results": ("prev_object_results", lst(R))},
            tup(Q, Q, NAT, Q), cls="CLEAR",
            vocab={"self.matching_mode": V("m", ("coq", "Clear.mode")),
                   glt("cur_obj_result"): V("Clear.label_threshold T (Clear.thr_label l_cur_obj_result)", ("opt", Q)),
                   "prev_obj_result.get_matching(self.matching_mode).value": V("Clear.score_of l_prev_obj_result", Q),
                   "cur_obj_result.get_matching(self.matching_mode).value": V("Clear.score_of l_cur_obj_result", Q)},
            calls={"prev_obj_result.is_result_correct":
                   Call("Clear.is_correct {matching_mode} {matching_threshold} l_prev_obj_result",
                        [("matching_mode", ("coq", "Clear.mode")), ("matching_threshold", Q)], BOOL),
                   "cur_obj_result.is_result_correct":
                   Call("Clear.is_correct {matching_mode} {matching_threshold} l_cur_obj_result",
                        [("matching_mode", ("coq", "Clear.mode")), ("matching_threshold", Q)], BOOL),
                   "self._is_id_switched": Call("Clear.is_switched", [("cur_object_result", R), ("prev_object_result", R)], BOOL),
                   "self._is_same_match": Call("Clear.is_same", [("cur_object_result", R), ("prev_object_result", R)], BOOL),
                   "self.tp_metrics.get_value": Call("w", [("object_result", R)], Q)},
            loops=[("list+break", (Q, Q, BOOL, BOOL)), ("list", (Q, Q, NAT, Q))])
    fn.scope = {"cur_obj_result": R, "prev_obj_result": R}
    S.append(fn)
    # ---- CLEAR._calculate_score ----------------------------------------------------------------------------------------------------
    # reads the attributes; inf is None.  tp / fp are the floats the object holds (any rationals here)
    fn = Fn("CLEAR__calculate_score", CLEAR_PY, "_calculate_score",
            "(num_ground_truth : nat) (tp fp : Q) (id_switch : nat) (tp_matching_score : Q)", {}, tup(XQ, XQ), cls="CLEAR",
            vocab={"self.num_ground_truth": V("num_ground_truth", NAT), "self.tp": V("tp", Q), "self.fp": V("fp", Q),
                   "self.id_switch": V("id_switch", NAT), "self.tp_matching_score": V("tp_matching_score", Q)},
            loops=[])
    fn.xlocals = ("mota", "motp")
    S.append(fn)
    # ---- CLEAR.__init__ --------------------------------------------------------------------------------------------------------------
    # the attributes the constructor owns are locals `self_<name>`; the result is their final value.  super().__init__(...) must pass
    # every parameter on under its own name (then self.matching_mode = m, self.tp_metrics = w, the zipped target_labels /
    # matching_threshold_list = T, self.num_ground_truth = num_ground_truth, which is what the two method calls read).
    F = lst(R)
    fn = Fn("CLEAR___init__", CLEAR_PY, "__init__",
            "(w : Clear.result -> Q) (m : Clear.mode) (T : Clear.targets) (num_ground_truth : nat) (object_results : list Clear.frame)",
            {"object_results": ("object_results", lst(F)), "num_ground_truth": ("num_ground_truth", NAT),
             "target_labels": ("T", ("coq", "Clear.targets")), "matching_threshold_list": ("T", ("coq", "Clear.targets")),
             "matching_mode": ("m", ("coq", "Clear.mode")), "tp_metrics": ("w", ("coq", "Clear.result -> Q")),
             "metrics_field": ("tt", ("coq", "unit"))},
            tup(NAT, Q, Q, NAT, Q, XQ, XQ), cls="CLEAR",
            calls={"self._calculate_tp_fp":
                   Call("Gen_CLEAR__calculate_tp_fp.f w m T {cur_object_results} {prev_object_results}",
                        [("cur_object_results", F), ("prev_object_results", F)], tup(Q, Q, NAT, Q), eff=True),
                   "self._calculate_score":
                   Call("Gen_CLEAR__calculate_score.f",
                        [("num_ground_truth", NAT), ("tp", Q), ("fp", Q), ("id_switch", NAT), ("tp_matching_score", Q)], tup(XQ, XQ), eff=True)},
            needs=("CLEAR__calculate_tp_fp", "CLEAR__calculate_score"),
            loops=[("enumerate(list[1:],1)", (Q, Q, NAT, Q, NAT))])
    fn.attrs = ("tp", "fp", "id_switch", "tp_matching_score", "objects_results_num", "mota", "motp")
    fn.result_attrs = ("objects_results_num", "tp", "fp", "id_switch", "tp_matching_score", "mota", "motp")
    fn.super_call = ("super().__init__(num_ground_truth=num_ground_truth, target_labels=target_labels, matching_mode=matching_mode, "
                     "matching_threshold_list=matching_threshold_list, tp_metrics=tp_metrics, metrics_field=metrics_field)")
    # attributes a method call reads implicitly, made explicit as arguments (python names)
    fn.implicit = {"self._calculate_score": ["num_ground_truth", "self_tp", "self_fp", "self_id_switch", "self_tp_matching_score"]}
    fn.prepare = prepare_init
    S.append(fn)
    # ---- common/dataset.py get_now_frame ---------------------------------------------------------------------------------------------
    # time stamps are Python ints (Z); a frame is a Lookup.frame and frame.unix_time its Lookup.f_stamp; the result is the frame object
    fn = Fn("get_now_frame", DATASET_PY, "get_now_frame",
            "(ground_truth_frames : list Lookup.frame) (unix_time threshold_min_time : Z)",
            {"ground_truth_frames": ("ground_truth_frames", lst(FRAME)), "unix_time": ("unix_time", ZT),
             "threshold_min_time": ("threshold_min_time", ZT)}, ("opt", FRAME),
            vocab={"ground_truth_frame.unix_time": V("Lookup.f_stamp l_ground_truth_frame", ZT),
                   "ground_truth_now_frame.unix_time": V("Lookup.f_stamp l_ground_truth_now_frame", ZT)},
            loops=[("list", (FRAME, ZT))])
    fn.scope = {"ground_truth_frame": FRAME, "ground_truth_now_frame": FRAME}
    fn.raises = "DatasetLoadingError"
    fn.prepare = prepare_raise_guard
    S.append(fn)
    # ---- common/dataset.py get_interpolated_now_frame: the neighbour search ----------------------------------------------------------
    # the part of the function before its first `return` (the loop with the `break`, then the two gates); the result is the value of
    # (before_frame, after_frame, dt_before, dt_after) at that point.  dt_before / dt_after start as the float 0.0 and hold ints later.
    fn = Fn("neighbour_search", DATASET_PY, "get_interpolated_now_frame",
            "(ground_truth_frames : list Lookup.frame) (unix_time threshold_min_time : Z)",
            {"ground_truth_frames": ("ground_truth_frames", lst(FRAME)), "unix_time": ("unix_time", ZT),
             "threshold_min_time": ("threshold_min_time", ZT)}, tup(("opt", FRAME), ("opt", FRAME), ZT, ZT),
            vocab={"ground_truth_frame.unix_time": V("Lookup.f_stamp l_ground_truth_frame", ZT)},
            loops=[("list+break", (("opt", FRAME), ("opt", FRAME), ZT, ZT))])
    fn.scope = {"ground_truth_frame": FRAME}
    fn.ltypes = {"before_frame": ("opt", FRAME), "after_frame": ("opt", FRAME), "dt_before": ZT, "dt_after": ZT}
    fn.result_locals = ("before_frame", "after_frame", "dt_before", "dt_after")
    fn.prepare = prepare_prefix
    S.append(fn)
    return S


HEADER = """(* GENERATED by translator/loops_tracking.py from the Python source of /repo on every run -- do not edit.
   One module per function; `f` = its body in the error monad Filter.res.  A `for` loop is a fold_left over the iterated list with the
   tuple of the locals it changes as state; a loop with a `break` carries a flag (once it is true the remaining iterations return the
   state unchanged).  Props/GenTieTracking.v proves each `f` equal to the hand-written model for all inputs. *)
From Coq Require Import List Bool ZArith Arith.
From PE Require Import Base.QUtil.
From PE Require Model.Clear Model.Lookup Model.Filter.
Import ListNotations.
Import Filter.
Open Scope Q_scope.
"""


def generate(repo):
    """-> (text, {function: why-not-translated})"""
    trees, out, bad, done = {}, [HEADER], {}, []
    for fn in specs():
        try:
            missing = [n for n in fn.needs if n not in done]
            if missing:
                fail("depends on " + ", ".join(missing) + " (not translated)")
            txt = translate_function(fn, repo, trees)
        except (TranslatorError, SyntaxError, OSError, RecursionError) as e:
            bad[fn.name] = f"{type(e).__name__}: {e}" if not isinstance(e, TranslatorError) else str(e)
            out.append(f"(* {fn.name}: not translated: {bad[fn.name].replace('*)', '* )').replace('(*', '( *')} *)\n")
            continue
        except Exception as e:  # noqa: BLE001  -- a defect of the translator itself must not look like a translation
            bad[fn.name] = f"internal error {type(e).__name__}: {e}"
            out.append(f"(* {fn.name}: not translated: {bad[fn.name].replace('*)', '* )').replace('(*', '( *')} *)\n")
            continue
        done.append(fn.name)
        out.append(txt + "\n")
    out.append("From Coq Require Import String.\nOpen Scope string_scope.")
    out.append("Definition translated : list string := [" + "; ".join(coq_str(n) for n in done) + "].")
    return "\n".join(out) + "\n", bad


def regenerate(repo, outdir):
    """Write <outdir>/loops_tracking.v (only when the content changes).  {"loops_tracking.v": None} when every function was
    translated, else {"loops_tracking.v": "partial: f1: not translated: why; ..."}."""
    os.makedirs(outdir, exist_ok=True)
    txt, bad = generate(repo)
    fname = MODNAME + ".v"
    path = os.path.join(outdir, fname)
    old = None
    if os.path.exists(path):
        with open(path) as fh:
            old = fh.read()
    if old != txt:
        with open(path, "w") as fh:
            fh.write(txt)
    if not bad:
        return {fname: None}
    return {fname: "partial: " + "; ".join(f"{k}: not translated: {v}" for k, v in bad.items())}


if __name__ == "__main__":
    repo_ = sys.argv[1] if len(sys.argv) > 1 else "/repo"
    outdir_ = sys.argv[2] if len(sys.argv) > 2 else os.path.join(os.path.dirname(os.path.abspath(__file__)), "..", "coq", "theories", "Gen")
    try:
        st_ = regenerate(repo_, outdir_)
    except OSError as e_:
        print(f"{MODNAME}.v: could not be written: {e_}")
        sys.exit(1)
    for k_, v_ in st_.items():
        print(f"{k_}: {'ok' if v_ is None else v_}")
    sys.exit(0)
