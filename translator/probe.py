#!/usr/bin/env python3
"""translator/probe.py <repo>  -- run with /venv/bin/python, PYTHONPATH=<repo>/perception_eval.

Fallback of translator/py_to_coq.py: when the SHAPE of a translated function is not recognised (a refactoring: extracted helper, other
loop form, ...), the tables and the behaviour of the string parsers are read from the RUNNING code instead: enum members, label
tables, supported-task lists, and for every parser its outcome on a decisive probe set (every member's value / key in lower, upper,
mixed and original case, the alias strings, non-members).  py_to_coq then picks, out of the finite space of parser shapes of
Model/EnumParse.v, a shape that reproduces every probe, and emits the same Gen/*.v definitions marked "inferred".  Prints one JSON object.
The tie of an inferred shape to the code is the correspondence of C14 / C15 / C20 (hand model + correspondence), no longer the translation.
"""
import ast
import inspect
import json
import logging
import sys
import textwrap

logging.disable(logging.CRITICAL)


def classify(enum_cls, f, s):
    try:
        r = f(s)
    except (ValueError, AssertionError, KeyError) as e:
        return ["raises", type(e).__name__]
    if r is None:
        return ["none"]
    if isinstance(r, enum_cls):
        return ["member", r.name]
    if isinstance(r, str):
        return ["str", r]
    return ["other", repr(r)[:60]]


def spellings(members):
    out = []
    for k, v in members:
        for s in (v, k):
            mixed = "".join(c.upper() if i % 2 else c.lower() for i, c in enumerate(s))
            out += [s, s.lower(), s.upper(), mixed, s.capitalize(), s + "x", s[:-1], " " + s]
    out += ["", "zzz", "ZZZ", "none", "None", "unknown_frame", "0", "v0-40", "v40-60", "v60-80", "v80-100", "full", "most", "partial"]
    seen, res = set(), []
    for s in out:
        if s not in seen:
            seen.add(s)
            res.append(s)
    return res


def str_constants(func):
    try:
        tree = ast.parse(textwrap.dedent(inspect.getsource(func)))
    except (OSError, TypeError, SyntaxError):
        return []
    return sorted({n.value for n in ast.walk(tree) if isinstance(n, ast.Constant) and isinstance(n.value, str) and len(n.value) < 40 and "\n" not in n.value})


def main():
    out = {}
    from perception_eval.common.evaluation_task import EvaluationTask, set_task
    from perception_eval.common.schema import FrameID, SensorModality, Visibility
    from perception_eval.common.shape import Shape, ShapeType
    from perception_eval.common.transform import TransformKey
    from perception_eval.evaluation.matching.object_matching import MatchingLabelPolicy

    def mem(E):
        return [[m.name, m.value] for m in E]

    enums = {"EvaluationTask": EvaluationTask, "FrameID": FrameID, "Visibility": Visibility, "SensorModality": SensorModality,
             "ShapeType": ShapeType, "MatchingLabelPolicy": MatchingLabelPolicy}
    out["members"] = {k: mem(E) for k, E in enums.items()}
    parsers = {"EvaluationTask_from_value": (EvaluationTask, EvaluationTask.from_value), "set_task": (EvaluationTask, set_task),
               "FrameID_from_value": (FrameID, FrameID.from_value), "Visibility_from_value": (Visibility, Visibility.from_value),
               "SensorModality_from_value": (SensorModality, SensorModality.from_value),
               "ShapeType_from_value": (ShapeType, ShapeType.from_value), "MatchingLabelPolicy_from_str": (MatchingLabelPolicy, MatchingLabelPolicy.from_str)}
    alias_consts = str_constants(Visibility.from_alias)
    out["alias_table"] = {s: classify(Visibility, Visibility.from_alias, s) for s in alias_consts}
    out["alias_default"] = classify(Visibility, Visibility.from_alias, "<<no such alias>>")
    out["probes"] = {}
    for name, (E, f) in parsers.items():
        ps = spellings(out["members"][[k for k, v in enums.items() if v is E][0]])
        if E is Visibility:
            ps += [s for s in alias_consts if s not in ps]
        out["probes"][name] = [[s, classify(E, f, s)] for s in ps]
    out["is_3d"] = [m.name for m in EvaluationTask if m.is_3d()]
    out["is_fp_validation"] = [m.name for m in EvaluationTask if m.is_fp_validation()]
    out["is_2d_is_not_3d"] = all(m.is_2d() == (not m.is_3d()) for m in EvaluationTask)
    out["FrameID_str_eq"] = bool(all((m == m.value) for m in FrameID))
    import numpy as np  # noqa: F401
    from shapely.geometry import Polygon

    fp = Polygon([(1, 1), (-1, 1), (-1, -1), (1, -1)])

    def shape_type_of(arg):
        try:
            return ["member", Shape(arg, (1.0, 2.0, 3.0), footprint=fp).type.name] if isinstance(Shape(arg, (1.0, 2.0, 3.0), footprint=fp).type, ShapeType) else ["str", str(Shape(arg, (1.0, 2.0, 3.0), footprint=fp).type)]
        except (ValueError, AssertionError, KeyError) as e:
            return ["raises", type(e).__name__]
    out["Shape_init"] = {v: shape_type_of(v) for _, v in out["members"]["ShapeType"]}

    def tk(a, b):
        try:
            k = TransformKey(a, b)
            return [k.src.name if isinstance(k.src, FrameID) else ["str", k.src], k.dst.name if isinstance(k.dst, FrameID) else ["str", k.dst]]
        except (ValueError, AssertionError, KeyError, AttributeError) as e:
            return ["raises", type(e).__name__]
    out["TransformKey_init"] = [[a, b, tk(a, b)] for a, b in (("base_link", "map"), ("map", FrameID.BASE_LINK.value), ("lidar_top", "base_link"))]

    # ---- labels
    from perception_eval.common import label as L

    out["label_members"] = {"AutowareLabel": mem(L.AutowareLabel), "TrafficLightLabel": mem(L.TrafficLightLabel)}
    out["autoware_pairs"] = {str(m): [[lab.name, nm] for lab, nm in L._get_autoware_pairs(m)] for m in (True, False)}
    out["traffic_light_pairs"] = {t.name: [[lab.name, nm] for lab, nm in L._get_traffic_light_paris(t)] for t in EvaluationTask}
    conv_probe = {}
    for fam, merge, task in (("autoware", False, "detection"), ("autoware", True, "detection"), ("traffic_light", False, "classification2d"),
                             ("traffic_light", False, "detection2d")):
        conv = L.LabelConverter(task, merge, fam)
        names = sorted({li.name for li in conv.label_infos} | {"zzz", ""})
        rows = []
        for n in names:
            for s in (n, n.upper()):
                rows.append([s, conv.convert_label(s).label.name, conv.convert_name(s).name, [x.name for x in L.set_target_lists([s], conv)]])
        conv_probe[f"{fam}|{merge}|{task}"] = {"infos": [[li.label.name, li.name] for li in conv.label_infos], "rows": rows,
                                              "all_labels": [x.name for x in L.set_target_lists(None, conv)]}
    out["converter"] = conv_probe

    # ---- config
    from perception_eval.config import PerceptionEvaluationConfig, SensingEvaluationConfig

    out["perception_support_tasks"] = list(PerceptionEvaluationConfig._support_tasks)
    out["sensing_support_tasks"] = list(SensingEvaluationConfig._support_tasks)
    import tempfile
    import shutil

    tmp = tempfile.mkdtemp(prefix="probe_")
    try:
        try:
            PerceptionEvaluationConfig([], "base_link", tmp, {"evaluation_task": "sensing", "target_labels": ["car"], "max_x_position": 1.0, "max_y_position": 1.0,
                                                              "min_point_numbers": [0], "center_distance_thresholds": [1.0], "plane_distance_thresholds": [1.0],
                                                              "iou_2d_thresholds": [0.5], "iou_3d_thresholds": [0.5]}, False)
            out["check_tasks_rejects_unsupported"] = False
        except ValueError:
            out["check_tasks_rejects_unsupported"] = True
        except Exception as e:  # noqa: BLE001
            out["check_tasks_rejects_unsupported"] = f"{type(e).__name__}"
    finally:
        shutil.rmtree(tmp, ignore_errors=True)
    print(json.dumps(out))


if __name__ == "__main__":
    main()
