#!/usr/bin/env python3
"""Self-test of translator/decisions_threshold.py + coq/theories/Props/GenTieThreshold.v (scheme of test_decisions.py).

  (1) unchanged /repo: translate, build the generated file, the lemma file and every theorem (closed under the global context);
  (2) MUTANTS: one-token changes of the translated functions in a scratch copy (/tmp/gen_threshold_scratch/<id>/): the
      translation still succeeds (or fails closed) and an equation stops checking -- unless the mutant is semantically
      equivalent, in which case it should still check;
  (3) REFACTORINGS: behaviour-preserving rewrites: translation + proofs should survive (or the translator fails closed).

The generated file carries the Python-semantics prelude, so the lemma file is re-compiled against every scratch copy (1 s).
Each theorem is compiled on its own (header + block); only theorems that mention a module whose generated text changed are
re-compiled.  usage: python3 translator/test_decisions_threshold.py [--jobs N] [--only base|mutants|refactorings] [--keep] [ids..]
"""
import ast
import concurrent.futures as cf
import os
import re
import shutil
import subprocess
import sys
import textwrap
import time

HERE = os.path.dirname(os.path.abspath(__file__))
VERIF = os.path.dirname(HERE)
sys.path.insert(0, HERE)
import decisions_threshold as dt  # noqa: E402

REPO = "/repo"
PKGDIR = os.path.join(REPO, "perception_eval", "perception_eval")
SCRATCH = "/tmp/gen_threshold_scratch"
THEORIES = os.path.join(VERIF, "coq", "theories")
COQ_TIMEOUT = 420
TH = "common/threshold.py"
FILES = sorted({f.file for f in dt.specs()})

GT, GN, CT, CN, ST = "__get_thresholds", "__get_nested_thresholds", "check_thresholds", "check_nested_thresholds", "set_thresholds"

# (id, function (None: anywhere in the file), old, new, expected)      expected: "caught" | "equivalent"
MUTANTS = [
    ("M01", GT, "if isinstance(threshold, Real):", "if not isinstance(threshold, Real):", "caught"),
    ("M02", GT, "return [threshold] * num_elements", "return [threshold] * (num_elements + 1)", "caught"),
    ("M03", GT, "if len(threshold) == 0:", "if len(threshold) != 0:", "caught"),
    ("M04", GT, "elif any([not isinstance(t, Real) for t in threshold]):", "elif all([not isinstance(t, Real) for t in threshold]):", "caught"),
    ("M05", GT, "elif any([not isinstance(t, Real) for t in threshold]):", "elif any([isinstance(t, Real) for t in threshold]):", "caught"),
    ("M06", GT, "len(threshold) != 1 and num_elements != len(threshold)", "len(threshold) != 1 or num_elements != len(threshold)", "caught"),
    ("M07", GT, "and num_elements != len(threshold)", "and num_elements == len(threshold)", "caught"),
    ("M08", GT, "and num_elements != len(threshold)", "and num_elements > len(threshold)", "caught"),
    ("M09", GT, "return threshold * num_elements if len(threshold) == 1 else threshold", "return threshold if len(threshold) == 1 else threshold * num_elements", "caught"),
    ("M10", GT, "elif any([not isinstance(t, Real) for t in threshold]):", "elif any([not isinstance(t, float) for t in threshold]):", "caught"),
    ("M11", GT, 'raise ThresholdError("Empty list is invalid")', "pass", "caught"),
    ("M12", GT, "if len(threshold) == 1 else threshold", "if len(threshold) == 2 else threshold", "caught"),
    ("M13", GN, "return [[threshold] * num_elements]", "return [threshold] * num_elements", "caught"),
    ("M14", GN, "if isinstance(threshold[0], Real):", "if isinstance(threshold[1], Real):", "caught"),
    ("M15", GN, "if len(threshold) != num_elements else [threshold]", "if len(threshold) == num_elements else [threshold]", "caught"),
    ("M16", GN, "if any([not isinstance(t, list) for t in threshold]):", "if all([not isinstance(t, list) for t in threshold]):", "caught"),
    ("M17", GN, "len(t) != num_elements and len(t) != 1", "len(t) != num_elements or len(t) != 1", "caught"),
    ("M18", GN, "len(t) != num_elements and len(t) != 1", "len(t) != num_elements and len(t) == 1", "caught"),
    ("M19", GN, "if len(t) == 1:\n                threshold_list.append(t * num_elements)", "if len(t) != 1:\n                threshold_list.append(t * num_elements)", "caught"),
    ("M20", GN, "threshold_list.append(t * num_elements)", "threshold_list.append(t * (num_elements + 1))", "caught"),
    ("M21", GN, "threshold_list.append(t)\n", "threshold_list.append(t * 1)\n", "equivalent"),          # a copy with the same value
    ("M22", GN, 'raise ThresholdError(f"Type of all elements must be same, but got {threshold}")', 'raise ValueError(f"Type of all elements must be same, but got {threshold}")', "caught"),
    ("M23", GN, "return [[t] * num_elements for t in threshold] if", "return [[t] * num_elements for t in threshold if isinstance(t, Real)] if", "equivalent"),   # every t is Real there
    ("M24", CT, "if any([not isinstance(t, Real) for t in thresholds]):", "if all([not isinstance(t, Real) for t in thresholds]):", "caught"),
    ("M25", CT, "elif len(thresholds) != num_elements:", "elif len(thresholds) > num_elements:", "caught"),
    ("M26", CT, "return thresholds", "return None", "caught"),
    ("M27", CT, "elif len(thresholds) != num_elements:", "if len(thresholds) != num_elements:", "equivalent"),    # the branch before raises
    ("M28", CN, "len(t) == 0 or len(t) != num_elements", "len(t) == 0 and len(t) != num_elements", "caught"),
    ("M29", CN, "len(t) == 0 or len(t) != num_elements", "len(t) == 1 or len(t) != num_elements", "caught"),
    ("M30", CN, "any([not isinstance(v, Real) for t in thresholds for v in t])", "any([isinstance(v, Real) for t in thresholds for v in t])", "caught"),
    ("M31", CN, "for t in thresholds for v in t])", "for t in thresholds for v in thresholds])", "caught"),
    ("M32", CN, "if any([not isinstance(t, list) for t in thresholds]):", "if any([not isinstance(t, tuple) for t in thresholds]):", "caught"),
    ("M33", CN, 'raise ThresholdError(f"Type of all elements must be Real number, but got {thresholds}")\n    return', "pass\n    return", "caught"),
    ("M34", CN, "len(t) == 0 or len(t) != num_elements", "len(t) != num_elements", "caught"),          # differs for zero labels only
    ("M35", ST, "if nest:", "if not nest:", "caught"),
    ("M36", ST, "return check_nested_thresholds(output, target_objects_num)", "return output", "caught"),
    ("M37", ST, "return check_thresholds(output, target_objects_num)", "return output", "equivalent"),   # __get_thresholds returns n reals
    ("M38", ST, "__get_nested_thresholds(thresholds, target_objects_num)", "__get_thresholds(thresholds, target_objects_num)", "caught"),
    ("M39", None, "def __init__(self, message) -> None:\n        super().__init__(message)", "def __init__(self, message, extra) -> None:\n        super().__init__(message)", "caught"),   # raising it is a TypeError
    ("M40", GT, "if len(threshold) == 0:", "if not threshold:", "caught"),        # None: ThresholdError instead of TypeError
    ("M41", CN, "elif any([len(t) == 0 or", "elif all([len(t) == 0 or", "caught"),
    ("M42", GN, "return [[threshold] * num_elements]", "return [[threshold] * (num_elements + 1)]", "caught"),
]

# (id, description, function, new source of the whole function)
REFACTORINGS = [
    ("R01", "check_thresholds: comprehension + any -> explicit loop that raises", CT, '''
def check_thresholds(thresholds: List[Real], num_elements: int) -> List[Real]:
    for t in thresholds:
        if not isinstance(t, Real):
            raise ThresholdError(f"Type of all elements must be Real number, but got {thresholds}")
    if len(thresholds) != num_elements:
        raise ThresholdError(f"Expected the number of elements is {num_elements}, but got {len(thresholds)}")
    return thresholds
'''),
    ("R02", "check_thresholds: any([not ..]) -> not all([..])", CT, '''
def check_thresholds(thresholds: List[Real], num_elements: int) -> List[Real]:
    if not all([isinstance(t, Real) for t in thresholds]):
        raise ThresholdError(f"Type of all elements must be Real number, but got {thresholds}")
    elif len(thresholds) != num_elements:
        raise ThresholdError(f"Expected the number of elements is {num_elements}, but got {len(thresholds)}")
    return thresholds
'''),
    ("R03", "check_thresholds: list comprehension -> generator expression, a print added", CT, '''
def check_thresholds(thresholds: List[Real], num_elements: int) -> List[Real]:
    print("checking thresholds")
    if any(not isinstance(t, Real) for t in thresholds):
        raise ThresholdError(f"Type of all elements must be Real number, but got {thresholds}")
    elif len(thresholds) != num_elements:
        raise ThresholdError(f"Expected the number of elements is {num_elements}, but got {len(thresholds)}")
    return thresholds
'''),
    ("R04", "check_thresholds: the two independent checks reordered (same exception class)", CT, '''
def check_thresholds(thresholds: List[Real], num_elements: int) -> List[Real]:
    if len(thresholds) != num_elements:
        raise ThresholdError(f"Expected the number of elements is {num_elements}, but got {len(thresholds)}")
    if any([not isinstance(t, Real) for t in thresholds]):
        raise ThresholdError(f"Type of all elements must be Real number, but got {thresholds}")
    return thresholds
'''),
    ("R05", "check_thresholds: extracted helper _all_real (module level, inlined by the translator)", CT, '''
def check_thresholds(thresholds: List[Real], num_elements: int) -> List[Real]:
    if not _all_real(thresholds):
        raise ThresholdError(f"Type of all elements must be Real number, but got {thresholds}")
    elif len(thresholds) != num_elements:
        raise ThresholdError(f"Expected the number of elements is {num_elements}, but got {len(thresholds)}")
    return thresholds


def _all_real(values) -> bool:
    return all([isinstance(t, Real) for t in values])
'''),
    ("R06", "__get_thresholds: elif chain -> separate ifs, conditional expression -> if / return, local for the length", GT, '''
def __get_thresholds(threshold: Union[Real, List[Real]], num_elements: int) -> List[Real]:
    if isinstance(threshold, Real):
        return [threshold] * num_elements
    size: int = len(threshold)
    if size == 0:
        raise ThresholdError("Empty list is invalid")
    if any([not isinstance(t, Real) for t in threshold]):
        raise ThresholdError(f"Type of all elements must be Real number, but got {threshold}")
    if size != 1 and num_elements != size:
        raise ThresholdError(f"Number of list elements must be {num_elements} or 1, but got {size}")
    if size == 1:
        return threshold * num_elements
    return threshold
'''),
    ("R07", "__get_nested_thresholds: the append loop -> a comprehension with a conditional expression", GN, '''
def __get_nested_thresholds(threshold, num_elements: int) -> List[List[Real]]:
    if isinstance(threshold, Real):
        return [[threshold] * num_elements]

    if len(threshold) == 0:
        raise ThresholdError("Empty list is invalid")

    if isinstance(threshold[0], Real):
        if any([not isinstance(t, Real) for t in threshold]):
            raise ThresholdError(f"Type of all elements must be same, but got {threshold}")
        return [[t] * num_elements for t in threshold] if len(threshold) != num_elements else [threshold]
    else:
        if any([not isinstance(t, list) for t in threshold]):
            raise ThresholdError(f"Type of all elements must be same but got {threshold}")
        elif any([len(t) != num_elements and len(t) != 1 for t in threshold]):
            raise ThresholdError(f"For nested list, expected the number of each element is {num_elements} or 1, but got {threshold}")
        return [t * num_elements if len(t) == 1 else t for t in threshold]
'''),
    ("R08", "__get_nested_thresholds: the comprehension of rows -> a loop of appends; De Morgan on the row test", GN, '''
def __get_nested_thresholds(threshold, num_elements: int) -> List[List[Real]]:
    if isinstance(threshold, Real):
        return [[threshold] * num_elements]

    if len(threshold) == 0:
        raise ThresholdError("Empty list is invalid")

    if isinstance(threshold[0], Real):
        if any([not isinstance(t, Real) for t in threshold]):
            raise ThresholdError(f"Type of all elements must be same, but got {threshold}")
        if len(threshold) == num_elements:
            return [threshold]
        rows = []
        for t in threshold:
            rows.append([t] * num_elements)
        return rows
    else:
        if any([not isinstance(t, list) for t in threshold]):
            raise ThresholdError(f"Type of all elements must be same but got {threshold}")
        elif any([not (len(t) == num_elements or len(t) == 1) for t in threshold]):
            raise ThresholdError(f"For nested list, expected the number of each element is {num_elements} or 1, but got {threshold}")
        threshold_list: List[List[Real]] = []
        for t in threshold:
            if len(t) == 1:
                threshold_list.append(t * num_elements)
            else:
                threshold_list.append(t)
        return threshold_list
'''),
    ("R09", "set_thresholds: nested calls, no locals", ST, '''
def set_thresholds(thresholds, target_objects_num: int, nest: bool):
    if nest:
        return check_nested_thresholds(__get_nested_thresholds(thresholds, target_objects_num), target_objects_num)
    return check_thresholds(__get_thresholds(thresholds, target_objects_num), num_elements=target_objects_num)
'''),
    ("R10", "check_nested_thresholds: the nested comprehension -> two nested loops that raise", CN, '''
def check_nested_thresholds(thresholds: List[List[Real]], num_elements: int) -> List[List[Real]]:
    if any([not isinstance(t, list) for t in thresholds]):
        raise ThresholdError(f"Type of all elements must be list, but got {thresholds}")
    elif any([len(t) == 0 or len(t) != num_elements for t in thresholds]):
        raise ThresholdError(f"Expected the number of each element is {num_elements}, but got {thresholds}")
    for t in thresholds:
        for v in t:
            if not isinstance(v, Real):
                raise ThresholdError(f"Type of all elements must be Real number, but got {thresholds}")
    return thresholds
'''),
    ("R11", "check_nested_thresholds: `len(t) == 0 or len(t) != n` -> `not (len(t) != 0 and len(t) == n)`, generator for the last test", CN, '''
def check_nested_thresholds(thresholds: List[List[Real]], num_elements: int) -> List[List[Real]]:
    if any([not isinstance(t, list) for t in thresholds]):
        raise ThresholdError(f"Type of all elements must be list, but got {thresholds}")
    if any([not (len(t) != 0 and len(t) == num_elements) for t in thresholds]):
        raise ThresholdError(f"Expected the number of each element is {num_elements}, but got {thresholds}")
    if any(not isinstance(v, Real) for t in thresholds for v in t):
        raise ThresholdError(f"Type of all elements must be Real number, but got {thresholds}")
    return thresholds
'''),
    ("R12", "set_thresholds: private helper renamed (the spec no longer finds it: that function fails closed, the caller inlines it)", None, None),
]


def func_span(src, func):
    tree = ast.parse(src)
    fs = [n for n in tree.body if isinstance(n, ast.FunctionDef) and n.name == func]
    assert len(fs) == 1, func
    f = fs[0]
    lines = src.splitlines(keepends=True)
    start = sum(len(l) for l in lines[:f.lineno - 1])
    end = sum(len(l) for l in lines[:f.end_lineno])
    return start, end, f


def strip_docstrings(src):
    """the anchors must not match inside a docstring: blank the docstring of every function"""
    tree = ast.parse(src)
    lines = src.splitlines(keepends=True)
    for n in ast.walk(tree):
        if isinstance(n, ast.FunctionDef) and n.body and isinstance(n.body[0], ast.Expr) and isinstance(n.body[0].value, ast.Constant) and isinstance(n.body[0].value.value, str):
            d = n.body[0]
            ind = " " * d.col_offset
            for i in range(d.lineno - 1, d.end_lineno):
                lines[i] = "\n"
            lines[d.lineno - 1] = ind + '"""doc."""\n'
    return "".join(lines)


def apply_edit(src, func, old, new):
    src = strip_docstrings(src)
    if func is None:
        assert src.count(old) == 1, (old, src.count(old))
        return src.replace(old, new, 1)
    a, b, _ = func_span(src, func)
    seg = src[a:b]
    if seg.count(old) < 1:
        raise RuntimeError(f"anchor not found in {func}: {old!r}")
    return src[:a] + seg.replace(old, new, 1) + src[b:]


def replace_function(src, func, new_src):
    a, b, _ = func_span(src, func)
    return src[:a] + textwrap.dedent(new_src).strip("\n") + "\n" + src[b:]


def make_scratch(n):
    d = os.path.join(SCRATCH, str(n))
    shutil.rmtree(d, ignore_errors=True)
    for rel in FILES:
        dst = os.path.join(d, "repo", "perception_eval", "perception_eval", rel)
        os.makedirs(os.path.dirname(dst), exist_ok=True)
        shutil.copy(os.path.join(PKGDIR, rel), dst)
    os.makedirs(os.path.join(d, "coq"))
    return d


def to_scratch(txt):
    txt = txt.replace("From PE Require Gen.decisions_threshold.\nImport Gen.decisions_threshold.", "From SCR Require decisions_threshold.\nImport decisions_threshold.")
    txt = txt.replace("From PE Require Import Gen.decisions_threshold.", "From SCR Require Import decisions_threshold.")
    txt = txt.replace("Proofs.ThresholdProofs Proofs.GenTieThresholdLemmas.", "Proofs.ThresholdProofs.\nFrom SCR Require Import GenTieThresholdLemmas.")
    assert "SCR" in txt
    return txt


def split_gentie():
    with open(os.path.join(THEORIES, "Props", "GenTieThreshold.v")) as f:
        txt = to_scratch(f.read())
    m0 = re.search(r"(?m)^\(\* ---- ", txt)
    header = txt[:m0.start()]
    blocks = {}
    for m in re.finditer(r"(?ms)^Theorem (\w+)\b.*?^Print Assumptions \1\.", txt):
        blocks[m.group(1)] = m.group(0) + "\n"
    examples = re.findall(r"(?ms)^Example \w+.*?Qed\.", txt)
    return header, blocks, examples


def modules_of(text):
    return {m.group(1): m.group(2) for m in re.finditer(r"(?s)Module (Gen_\w+)\.(.*?)End \1\.", text)}


def coqc(args, cwd):
    try:
        p = subprocess.run(["timeout", str(COQ_TIMEOUT), "coqc"] + args, cwd=cwd, capture_output=True, text=True)
        return p.returncode, p.stdout + p.stderr
    except Exception as e:  # noqa: BLE001
        return 99, str(e)


def check_theorem(d, header, name, block):
    fn = os.path.join(d, "coq", f"T_{name}.v")
    with open(fn, "w") as f:
        f.write(header + block)
    t0 = time.time()
    rc, out = coqc(["-Q", THEORIES, "PE", "-Q", os.path.join(d, "coq"), "SCR", fn], os.path.join(d, "coq"))
    el = time.time() - t0
    if rc == 0 and "Closed under the global context" in out and "Axioms:" not in out:
        return name, "ok", el
    if rc == 124:
        return name, "timeout", el
    m = re.search(r"Error:\s*(.*)", out, re.S)
    return name, "FAILS: " + (" ".join(m.group(1).split())[:90] if m else f"rc={rc}"), el


def run_variant(n, edit, header, blocks, base_modules, examples=None):
    """edit: src -> src of common/threshold.py (or None).  -> (translator status, {theorem: (result, seconds)}, dir)"""
    d = make_scratch(n)
    if edit is not None:
        path = os.path.join(d, "repo", "perception_eval", "perception_eval", TH)
        with open(path) as f:
            src = f.read()
        new = edit(src)
        ast.parse(new)
        assert new != src
        with open(path, "w") as f:
            f.write(new)
    c = os.path.join(d, "coq")
    st = dt.regenerate(os.path.join(d, "repo"), c)[dt.OUT_NAME]
    with open(os.path.join(c, dt.OUT_NAME)) as f:
        mods = modules_of(f.read())
    rc, out = coqc(["-Q", THEORIES, "PE", "-Q", c, "SCR", dt.OUT_NAME], c)
    if rc != 0:
        return st, {"<generated file>": ("FAILS to compile: " + " ".join(out.split())[:200], 0)}, d
    with open(os.path.join(THEORIES, "Proofs", "GenTieThresholdLemmas.v")) as f:
        lem = to_scratch(f.read())
    with open(os.path.join(c, "GenTieThresholdLemmas.v"), "w") as f:
        f.write(lem)
    rc, out = coqc(["-Q", THEORIES, "PE", "-Q", c, "SCR", "GenTieThresholdLemmas.v"], c)
    if rc != 0:
        return st, {"<lemma file>": ("FAILS to compile: " + " ".join(out.split())[:200], 0)}, d
    if base_modules is None:
        todo = list(blocks)
    else:
        changed = [m for m in base_modules if mods.get(m) != base_modules[m]]
        todo = [t for t, b in blocks.items() if any(re.search(r"\b" + re.escape(m) + r"\.", b) for m in changed)]
    res = {}
    for t in todo:
        name, r, el = check_theorem(d, header, t, blocks[t])
        res[name] = (r, el)
    if examples:
        fn = os.path.join(c, "T_examples.v")
        with open(fn, "w") as f:
            f.write(header + "\n".join(examples) + "\n")
        t0 = time.time()
        rc, out = coqc(["-Q", THEORIES, "PE", "-Q", c, "SCR", fn], c)
        res["<non-vacuity examples>"] = ("ok" if rc == 0 else "FAILS: " + " ".join(out.split())[:120], time.time() - t0)
    return st, res, d


def bad_of(res):
    return [f"{k} [{v[0]}]" for k, v in res.items() if v[0] != "ok"]


def rename_helper(src):
    return src.replace("__get_thresholds", "_flat_thresholds")


def main():
    jobs = 4
    only = None
    keep = "--keep" in sys.argv
    if "--jobs" in sys.argv:
        jobs = int(sys.argv[sys.argv.index("--jobs") + 1])
    if "--only" in sys.argv:
        only = sys.argv[sys.argv.index("--only") + 1]
    ids = [a for a in sys.argv[1:] if re.fullmatch(r"[MR]\d\d", a)]
    shutil.rmtree(SCRATCH, ignore_errors=True)
    os.makedirs(SCRATCH)
    header, blocks, examples = split_gentie()
    failures = 0
    with cf.ThreadPoolExecutor(max_workers=jobs) as pool:
        t0 = time.time()
        st, res, d0 = run_variant("base", None, header, blocks, None, examples)
        with open(os.path.join(d0, "coq", dt.OUT_NAME)) as f:
            base_modules = modules_of(f.read())
        print(f"(1) UNCHANGED /repo: translation: {'all translated' if st is None else st}")
        for k, (r, el) in res.items():
            print(f"    {k:42s} {r}  ({el:.1f}s)")
        bad = bad_of(res)
        print(f"    -> {len(res) - len(bad)}/{len(res)} closed, {time.time() - t0:.0f}s")
        if bad or st is not None:
            failures += 1
        if only == "base":
            if not keep:
                shutil.rmtree(SCRATCH, ignore_errors=True)
            return failures
        if only in (None, "mutants"):
            print("\n(2) MUTANTS (one token each)")
            tally = {"caught": 0, "caught (not translated)": 0, "equivalent, still proves": 0, "MISSED": 0, "equivalent but REJECTED": 0}
            todo = [m for m in MUTANTS if not ids or m[0] in ids]
            futs = [pool.submit(run_variant, m[0], (lambda s, f=m[1], o=m[2], n=m[3]: apply_edit(s, f, o, n)), header, blocks, base_modules) for m in todo]
            for (mid, func, old, new, expected), fut in zip(todo, futs):
                st, res, d = fut.result()
                bad = bad_of(res)
                if not res and not st:
                    if expected == "caught":
                        verdict = "MISSED"
                        tally["MISSED"] += 1
                    else:
                        verdict = "equivalent, still proves"
                        tally[verdict] += 1
                    verdict += " (generated text unchanged)"
                elif bad or st:
                    if expected == "caught":
                        verdict = "caught" + (" (not translated)" if st else "")
                        tally[verdict] += 1
                    else:
                        verdict = "equivalent but REJECTED"
                        tally[verdict] += 1
                else:
                    if expected == "equivalent":
                        verdict = "equivalent, still proves"
                        tally[verdict] += 1
                    else:
                        verdict = "MISSED"
                        tally["MISSED"] += 1
                tmax = max([v[1] for v in res.values()] + [0])
                print(f"  {mid} {verdict:30s} {func or '<class ThresholdError>'}: {' '.join(old.split())[:52]!r} -> {' '.join(new.split())[:52]!r}  [{tmax:.0f}s]")
                if st:
                    print(f"        translator: {st[:230]}")
                for b in bad:
                    print(f"        breaks: {b[:170]}")
                if not keep:
                    shutil.rmtree(d, ignore_errors=True)
            print("  tally:", tally)
            if tally["MISSED"]:
                failures += 1
        if only in (None, "refactorings"):
            print("\n(3) REFACTORINGS (behaviour preserving)")
            allr = []
            for rid, desc, func, new in REFACTORINGS:
                if rid == "R12":
                    allr.append((rid, desc, rename_helper))
                else:
                    allr.append((rid, desc, (lambda s, f=func, n=new: replace_function(s, f, n))))
            allr = [r for r in allr if not ids or r[0] in ids]
            futs = [pool.submit(run_variant, rid, edit, header, blocks, base_modules) for rid, desc, edit in allr]
            survived = 0
            for (rid, desc, edit), fut in zip(allr, futs):
                st, res, d = fut.result()
                bad = bad_of(res)
                if bad and not st:
                    verdict = "translated, proof REJECTS"
                elif st and not [b for b in bad if not any(x in b for x in ())]:
                    verdict = "translator FAILS CLOSED"
                elif st:
                    verdict = "translator FAILS CLOSED"
                else:
                    verdict = "survives" + ("" if res else " (generated text identical)")
                    survived += 1
                tmax = max([v[1] for v in res.values()] + [0])
                print(f"  {rid} {verdict:28s} {desc}  [{len(res)} theorem(s) re-checked, slowest {tmax:.0f}s]")
                if st:
                    print(f"        translator: {st[:230]}")
                for b in bad:
                    print(f"        breaks: {b[:170]}")
                if not keep:
                    shutil.rmtree(d, ignore_errors=True)
            print(f"  {survived}/{len(allr)} refactorings survive")
    if not keep:
        shutil.rmtree(SCRATCH, ignore_errors=True)
    return 1 if failures else 0


if __name__ == "__main__":
    sys.exit(main())
