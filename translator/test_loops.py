#!/usr/bin/env python3
"""Self-test of translator/loops.py + coq/theories/Props/GenTieLoops.v (same scheme as test_decisions.py).

  (1) unchanged /repo: translate, build Gen/Loops.v, Proofs/GenTieLoopsLemmas.v and the whole Props/GenTieLoops.v (theorems closed,
      non-vacuity examples evaluate);
  (2) MUTANTS: one-token changes of the translated loop functions in a scratch copy (/tmp/gen_loops_scratch/<id>/): each must break
      an equation (named), or fail closed in the translator, or be semantically equivalent (the reason is in the table);
      a mutant that translates, is not equivalent and still proves is reported as MISSED (exit status 1);
  (3) REFACTORINGS: behaviour-preserving rewrites: survive / translator fails closed / translated but the proof rejects.

Each theorem of GenTieLoops.v is compiled on its own (header + that theorem), only the theorems that mention a module whose
generated text changed.  usage: python3 translator/test_loops.py [--jobs N] [--only base|mutants|refactorings] [--keep] [ids...]
"""
import ast
import concurrent.futures as cf
import os
import re
import shutil
import subprocess
import sys
import time

HERE = os.path.dirname(os.path.abspath(__file__))
VERIF = os.path.dirname(HERE)
sys.path.insert(0, HERE)
import loops  # noqa: E402
from test_decisions import apply_edit, replace_function  # noqa: E402

REPO = "/repo"
PKGDIR = os.path.join(REPO, "perception_eval", "perception_eval")
SCRATCH = "/tmp/gen_loops_scratch"
THEORIES = os.path.join(VERIF, "coq", "theories")
COQ_TIMEOUT = 300

AP = "evaluation/metrics/detection/ap.py"
I, C, G, T = "interpolate_precision_recall_list", "_calculate_ap", "get_precision_recall_list", "_calculate_tp_fp"

# (id, file, class, function, old, new, expected, why)   expected: caught | closed (translator fails closed) | equivalent
MUTANTS = [
    ("M01", AP, "Ap", I, "precision_list[i] > max_precision_list[-1]", "precision_list[i] >= max_precision_list[-1]", "caught", ""),
    ("M02", AP, "Ap", I, "for i in reversed(range(len(recall_list) - 1)):", "for i in range(len(recall_list) - 1):", "closed",
     "direction of the loop: not the loop the equation is proved for"),
    ("M03", AP, "Ap", I, "reversed(range(len(recall_list) - 1))", "reversed(range(len(recall_list)))", "equivalent",
     "the extra first iteration compares the last precision with itself: never strictly greater"),
    ("M04", AP, "Ap", I, "[precision_list[-1]]", "[precision_list[0]]", "caught", ""),
    ("M05", AP, "Ap", I, "[recall_list[-1]]", "[recall_list[0]]", "caught", ""),
    ("M06", AP, "Ap", I, "precision_list[i] > max_precision_list[-1]", "precision_list[i] > max_precision_list[0]", "caught", ""),
    ("M07", AP, "Ap", I, "max_precision_list.append(precision_list[i])", "max_precision_list.append(recall_list[i])", "caught", ""),
    ("M08", AP, "Ap", I, "max_precision_recall_list.append(recall_list[i])", "max_precision_recall_list.append(precision_list[i])", "caught", ""),
    ("M09", AP, "Ap", I, "max_precision_recall_list.append(0.0)", "max_precision_recall_list.append(1.0)", "caught", ""),
    ("M10", AP, "Ap", I, "max_precision_list.append(max_precision_list[-1])", "max_precision_list.append(max_precision_list[0])", "caught", ""),
    ("M11", AP, "Ap", I, "if precision_list[i] > max_precision_list[-1]", "if recall_list[i] > max_precision_list[-1]", "caught", ""),
    ("M12", AP, "Ap", I, "reversed(range(len(recall_list) - 1))", "reversed(range(len(precision_list) - 1))", "caught",
     "same value under the guard (equal lengths), another function outside it: the _outside equation is false"),
    ("M13", AP, "Ap", I, "if precision_list[i] > max_precision_list[-1]", "if precision_list[i] < max_precision_list[-1]", "caught", ""),
    ("M14", AP, "Ap", I, "range(len(recall_list) - 1)", "range(len(recall_list) - 2)", "caught", ""),
    ("M15", AP, "Ap", I, "max_precision_list.append(precision_list[i])", "max_precision_recall_list.append(precision_list[i])", "caught", ""),
    ("M16", AP, "Ap", I, "max_precision_recall_list.append(recall_list[i])", "max_precision_recall_list.append(recall_list[i + 1])", "caught", ""),
    ("M17", AP, "Ap", I, "return max_precision_list, max_precision_recall_list", "return max_precision_recall_list, max_precision_list", "caught", ""),
    ("M18", AP, "Ap", I, "max_precision_list.append(max_precision_list[-1])", "max_precision_list.append(precision_list[-1])", "caught", ""),
    ("M20", AP, "Ap", C, "range(len(max_precision_list) - 1)", "range(len(max_precision_list))", "caught", ""),
    ("M21", AP, "Ap", C, "max_precision_recall_list[i + 1]", "max_precision_recall_list[i]", "caught", ""),
    ("M22", AP, "Ap", C, "ap: float = 0.0", "ap: float = 1.0", "caught", ""),
    ("M23", AP, "Ap", C, "            return 0.0", "            return 1.0", "caught", ""),
    ("M24", AP, "Ap", C, "score: float = max_precision_list[i] *", "score: float = max_precision_recall_list[i] *", "caught", ""),
    ("M25", AP, "Ap", C, "ap += score", "ap -= score", "caught", ""),
    ("M26", AP, "Ap", C, "(max_precision_recall_list[i] - max_precision_recall_list[i + 1])", "(max_precision_recall_list[i] + max_precision_recall_list[i + 1])", "caught", ""),
    ("M27", AP, "Ap", C, "if len(precision_list) == 0:", "if len(recall_list) == 0:", "caught",
     "same value under the guard, another function outside it (empty precision with a non-empty recall)"),
    ("M28", AP, "Ap", C, "            precision_list,\n            recall_list,\n        )", "            recall_list,\n            precision_list,\n        )", "caught", ""),
    ("M29", AP, "Ap", C, "max_precision_recall_list[i + 1]", "max_precision_recall_list[i + 2]", "caught", ""),
    ("M30", AP, "Ap", C, "range(len(max_precision_list) - 1)", "range(len(max_precision_recall_list) - 1)", "equivalent",
     "the two lists returned by interpolate have the same length"),
    ("M31", AP, "Ap", C, "if len(precision_list) == 0:", "if len(precision_list) != 0:", "caught", ""),
    ("M32", AP, "Ap", C, "range(len(max_precision_list) - 1)", "reversed(range(len(max_precision_list) - 1))", "closed",
     "mathematically the same sum, but another order of additions: not the loop the equation is proved for"),
    ("M40", AP, "Ap", G, "precisions_list[i] = float(self.tp_list[i]) / (i + 1)", "precisions_list[i] = float(self.tp_list[i]) / (i + 2)", "caught", ""),
    ("M41", AP, "Ap", G, "precisions_list[i] = float(self.tp_list[i]) / (i + 1)", "precisions_list[i] = float(self.tp_list[i]) / (i)", "closed",
     "division by the index: ZeroDivisionError at i = 0 has no rendering"),
    ("M42", AP, "Ap", G, "if self.num_ground_truth > 0:", "if self.num_ground_truth >= 0:", "closed", "the divisor is no longer known to be non-zero"),
    ("M43", AP, "Ap", G, "                recalls_list[i] = 0.0", "                recalls_list[i] = 1.0", "caught", ""),
    ("M44", AP, "Ap", G, "recalls_list[i] = float(self.tp_list[i]) / self.num_ground_truth", "precisions_list[i] = float(self.tp_list[i]) / self.num_ground_truth", "caught", ""),
    ("M45", AP, "Ap", G, "for i in range(len(precisions_list)):", "for i in range(len(precisions_list) - 1):", "caught", ""),
    ("M46", AP, "Ap", G, "precisions_list: List[float] = [0.0 for", "precisions_list: List[float] = [1.0 for", "equivalent",
     "every position of the list is overwritten by the loop"),
    ("M47", AP, "Ap", G, "return precisions_list, recalls_list", "return recalls_list, precisions_list", "caught", ""),
    ("M48", AP, "Ap", G, "recalls_list[i] = float(self.tp_list[i]) / self.num_ground_truth", "recalls_list[i] = float(self.tp_list[i]) * self.num_ground_truth", "caught", ""),
    ("M49", AP, "Ap", G, "recalls_list: List[float] = [0.0 for _ in range(len(self.tp_list))]", "recalls_list: List[float] = [0.0 for _ in range(len(self.tp_list) - 1)]", "caught", ""),
    ("M50", AP, "Ap", G, "precisions_list[i] = float(self.tp_list[i]) / (i + 1)", "precisions_list[i] = float(self.tp_list[i + 1]) / (i + 1)", "caught", ""),
    ("M51", AP, "Ap", G, "recalls_list[i] = float(self.tp_list[i]) / self.num_ground_truth", "recalls_list[i] = float(self.tp_list[i]) / (i + 1)", "caught", ""),
    ("M52", AP, "Ap", G, "if self.num_ground_truth > 0:", "if self.num_ground_truth > 1:", "caught", ""),
    ("M60", AP, "Ap", T, "if matching_threshold_ is None:", "if matching_threshold_ is not None:", "closed",
     "is_result_correct would be called with a threshold that is None"),
    ("M61", AP, "Ap", T, "if is_result_correct:", "if not is_result_correct:", "caught", ""),
    ("M62", AP, "Ap", T, "fp_list[i] = 1.0", "fp_list[i] = 0.0", "caught", ""),
    ("M63", AP, "Ap", T, "tp_list[i] = tp_metrics.get_value(obj_result)", "fp_list[i] = tp_metrics.get_value(obj_result)", "caught", ""),
    ("M64", AP, "Ap", T, "fp_list = np.cumsum(fp_list).tolist()", "fp_list = np.cumsum(tp_list).tolist()", "caught", ""),
    ("M65", AP, "Ap", T, "if self.num_ground_truth == 0:", "if self.num_ground_truth != 0:", "caught", ""),
    ("M66", AP, "Ap", T, "[0.0] * self.num_ground_truth", "[1.0] * self.num_ground_truth", "caught", ""),
    ("M67", AP, "Ap", T, "if len(object_results) == 0:", "if len(object_results) != 0:", "caught", ""),
    ("M68", AP, "Ap", T, "tp_list: List[float] = [0.0 for _ in range(self.objects_results_num)]", "tp_list: List[float] = [0.0 for _ in range(self.num_ground_truth)]", "caught", ""),
    ("M69", AP, "Ap", T, "fp_list[i] = 1.0", "fp_list[i] = 2.0", "caught", ""),
    ("M70", AP, "Ap", T, "                return tp_list, fp_list", "                return fp_list, tp_list", "caught", ""),
    ("M71", AP, "Ap", T, "tp_list[i] = tp_metrics.get_value(obj_result)", "tp_list[i + 1] = tp_metrics.get_value(obj_result)", "caught", ""),
    ("M72", AP, "Ap", T, "        tp_list = np.cumsum(tp_list).tolist()\n", "        tp_list = tp_list\n", "closed", "no running sum (and an alias)"),
    ("M73", AP, "Ap", T, "                continue", "                break", "closed", "break is not translated"),
    ("M74", AP, "Ap", T, "        return tp_list, fp_list\n\n", "        return fp_list, tp_list\n\n", "caught", ""),
    ("M75", AP, "Ap", T, "fp_list: List[float] = [0.0 for _ in range(self.objects_results_num)]", "fp_list: List[float] = [1.0 for _ in range(self.objects_results_num)]", "caught", ""),
]

# (id, description, file, class, function, new source of the whole function)
REFACTORINGS = [
    ("R01", "interpolate: the two elements read into locals before the test", AP, "Ap", I, '''
def interpolate_precision_recall_list(self, precision_list: List[float], recall_list: List[float]):
    max_precision_list: List[float] = [precision_list[-1]]
    max_precision_recall_list: List[float] = [recall_list[-1]]
    for i in reversed(range(len(recall_list) - 1)):
        precision: float = precision_list[i]
        recall: float = recall_list[i]
        if precision > max_precision_list[-1]:
            max_precision_list.append(precision)
            max_precision_recall_list.append(recall)
    max_precision_list.append(max_precision_list[-1])
    max_precision_recall_list.append(0.0)
    return max_precision_list, max_precision_recall_list
'''),
    ("R02", "interpolate: `not a <= b` for `a > b`, `continue` instead of the nested if, logging", AP, "Ap", I, '''
def interpolate_precision_recall_list(self, precision_list: List[float], recall_list: List[float]):
    max_precision_list: List[float] = [precision_list[-1]]
    max_precision_recall_list: List[float] = [recall_list[-1]]
    for i in reversed(range(len(recall_list) - 1)):
        if precision_list[i] <= max_precision_list[-1]:
            continue
        logger.debug("new maximum")
        max_precision_list.append(precision_list[i])
        max_precision_recall_list.append(recall_list[i])
    last_max: float = max_precision_list[-1]
    max_precision_list.append(last_max)
    max_precision_recall_list.append(0.0)
    return max_precision_list, max_precision_recall_list
'''),
    ("R03", "interpolate: running maximum kept in a local", AP, "Ap", I, '''
def interpolate_precision_recall_list(self, precision_list: List[float], recall_list: List[float]):
    max_precision_list: List[float] = [precision_list[-1]]
    max_precision_recall_list: List[float] = [recall_list[-1]]
    running_max: float = precision_list[-1]
    for i in reversed(range(len(recall_list) - 1)):
        if precision_list[i] > running_max:
            running_max = precision_list[i]
            max_precision_list.append(precision_list[i])
            max_precision_recall_list.append(recall_list[i])
    max_precision_list.append(running_max)
    max_precision_recall_list.append(0.0)
    return max_precision_list, max_precision_recall_list
'''),
    ("R04", "interpolate: zip over the reversed lists instead of the index loop", AP, "Ap", I, '''
def interpolate_precision_recall_list(self, precision_list: List[float], recall_list: List[float]):
    max_precision_list: List[float] = [precision_list[-1]]
    max_precision_recall_list: List[float] = [recall_list[-1]]
    for precision, recall in zip(reversed(precision_list[:-1]), reversed(recall_list[:-1])):
        if precision > max_precision_list[-1]:
            max_precision_list.append(precision)
            max_precision_recall_list.append(recall)
    max_precision_list.append(max_precision_list[-1])
    max_precision_recall_list.append(0.0)
    return max_precision_list, max_precision_recall_list
'''),
    ("R05", "_calculate_ap: score inlined, `ap = ap + ...`, `len(...) < 1`, call with keywords", AP, "Ap", C, '''
def _calculate_ap(self, precision_list: List[float], recall_list: List[float]) -> float:
    if len(precision_list) < 1:
        return 0.0
    max_precision_list, max_precision_recall_list = self.interpolate_precision_recall_list(
        recall_list=recall_list, precision_list=precision_list
    )
    ap: float = 0.0
    for i in range(len(max_precision_list) - 1):
        ap = ap + max_precision_list[i] * (max_precision_recall_list[i] - max_precision_recall_list[i + 1])
    return ap
'''),
    ("R06", "_calculate_ap: width and height of each step in locals, else branch instead of the early return", AP, "Ap", C, '''
def _calculate_ap(self, precision_list: List[float], recall_list: List[float]) -> float:
    if len(precision_list) == 0:
        return 0.0
    else:
        max_precision_list, max_precision_recall_list = self.interpolate_precision_recall_list(precision_list, recall_list)
        ap: float = 0.0
        for i in range(len(max_precision_list) - 1):
            height: float = max_precision_list[i]
            width: float = max_precision_recall_list[i] - max_precision_recall_list[i + 1]
            ap += height * width
        return ap
'''),
    ("R07", "_calculate_ap: sum(...) of a list comprehension instead of the accumulation loop", AP, "Ap", C, '''
def _calculate_ap(self, precision_list: List[float], recall_list: List[float]) -> float:
    if len(precision_list) == 0:
        return 0.0
    max_precision_list, max_precision_recall_list = self.interpolate_precision_recall_list(precision_list, recall_list)
    return sum(
        [max_precision_list[i] * (max_precision_recall_list[i] - max_precision_recall_list[i + 1]) for i in range(len(max_precision_list) - 1)]
    )
'''),
    ("R08", "_calculate_ap: zip of the lists with their tails instead of the index loop", AP, "Ap", C, '''
def _calculate_ap(self, precision_list: List[float], recall_list: List[float]) -> float:
    if len(precision_list) == 0:
        return 0.0
    max_precision_list, max_precision_recall_list = self.interpolate_precision_recall_list(precision_list, recall_list)
    ap: float = 0.0
    for precision, recall, next_recall in zip(max_precision_list, max_precision_recall_list, max_precision_recall_list[1:]):
        ap += precision * (recall - next_recall)
    return ap
'''),
    ("R09", "get_precision_recall_list: tp in a local, `== 0` test with swapped branches, `[0.0] * n`", AP, "Ap", G, '''
def get_precision_recall_list(self) -> Tuple[List[float], List[float]]:
    precisions_list: List[float] = [0.0] * len(self.tp_list)
    recalls_list: List[float] = [0.0] * len(self.tp_list)
    for i in range(len(precisions_list)):
        tp: float = float(self.tp_list[i])
        precisions_list[i] = tp / (i + 1)
        if self.num_ground_truth == 0:
            recalls_list[i] = 0.0
        else:
            recalls_list[i] = tp / self.num_ground_truth
    return precisions_list, recalls_list
'''),
    ("R10", "get_precision_recall_list: conditional expression for the recall, range(len(self.tp_list))", AP, "Ap", G, '''
def get_precision_recall_list(self) -> Tuple[List[float], List[float]]:
    precisions_list: List[float] = [0.0 for _ in range(len(self.tp_list))]
    recalls_list: List[float] = [0.0 for _ in range(len(self.tp_list))]
    for i in range(len(self.tp_list)):
        precisions_list[i] = float(self.tp_list[i]) / (i + 1)
        recalls_list[i] = float(self.tp_list[i]) / self.num_ground_truth if self.num_ground_truth > 0 else 0.0
    return precisions_list, recalls_list
'''),
    ("R11", "get_precision_recall_list: enumerate and append instead of pre-allocated lists", AP, "Ap", G, '''
def get_precision_recall_list(self) -> Tuple[List[float], List[float]]:
    precisions_list: List[float] = []
    recalls_list: List[float] = []
    for i, tp in enumerate(self.tp_list):
        precisions_list.append(float(tp) / (i + 1))
        recalls_list.append(float(tp) / self.num_ground_truth if self.num_ground_truth > 0 else 0.0)
    return precisions_list, recalls_list
'''),
    ("R12", "Ap._calculate_tp_fp: nested `is not None` instead of continue, swapped branches, `len(...) < 1`, merged early returns", AP, "Ap", T, '''
def _calculate_tp_fp(self, tp_metrics, object_results):
    if len(object_results) < 1:
        if self.num_ground_truth != 0:
            tp_list: List[float] = [0.0] * self.num_ground_truth
            fp_list: List[float] = np.arange(1, self.num_ground_truth + 1, dtype=np.float32).tolist()
            return tp_list, fp_list
        return [], []
    tp_list: List[float] = [0.0 for _ in range(self.objects_results_num)]
    fp_list: List[float] = [0.0 for _ in range(self.objects_results_num)]
    for i, obj_result in enumerate(object_results):
        matching_threshold_ = get_label_threshold(
            semantic_label=obj_result.ground_truth_object.semantic_label
            if obj_result.ground_truth_object is not None
            else obj_result.estimated_object.semantic_label,
            target_labels=self.target_labels,
            threshold_list=self.matching_threshold_list,
        )
        if matching_threshold_ is not None:
            if not obj_result.is_result_correct(matching_mode=self.matching_mode, matching_threshold=matching_threshold_):
                fp_list[i] = 1.0
            else:
                tp_list[i] = tp_metrics.get_value(obj_result)
    return np.cumsum(tp_list).tolist(), np.cumsum(fp_list).tolist()
'''),
    ("R13", "Ap._calculate_tp_fp: range(len(...)) with indexing instead of enumerate", AP, "Ap", T, '''
def _calculate_tp_fp(self, tp_metrics, object_results):
    if len(object_results) == 0:
        if self.num_ground_truth == 0:
            return [], []
        else:
            tp_list: List[float] = [0.0] * self.num_ground_truth
            fp_list: List[float] = np.arange(1, self.num_ground_truth + 1, dtype=np.float32).tolist()
            return tp_list, fp_list
    tp_list: List[float] = [0.0 for _ in range(self.objects_results_num)]
    fp_list: List[float] = [0.0 for _ in range(self.objects_results_num)]
    for i in range(len(object_results)):
        obj_result = object_results[i]
        matching_threshold_ = get_label_threshold(
            semantic_label=obj_result.ground_truth_object.semantic_label
            if obj_result.ground_truth_object is not None
            else obj_result.estimated_object.semantic_label,
            target_labels=self.target_labels,
            threshold_list=self.matching_threshold_list,
        )
        if matching_threshold_ is None:
            continue
        is_result_correct = obj_result.is_result_correct(matching_mode=self.matching_mode, matching_threshold=matching_threshold_)
        if is_result_correct:
            tp_list[i] = tp_metrics.get_value(obj_result)
        else:
            fp_list[i] = 1.0
    tp_list = np.cumsum(tp_list).tolist()
    fp_list = np.cumsum(fp_list).tolist()
    return tp_list, fp_list
'''),
]


# ---------------------------------------------------------------------------------------------------------------------
def make_scratch(n):
    d = os.path.join(SCRATCH, str(n))
    shutil.rmtree(d, ignore_errors=True)
    for rel in sorted({fn.file for fn in loops.specs()}):
        dst = os.path.join(d, "repo", "perception_eval", "perception_eval", rel)
        os.makedirs(os.path.dirname(dst), exist_ok=True)
        shutil.copy(os.path.join(PKGDIR, rel), dst)
    os.makedirs(os.path.join(d, "coq"))
    return d


def split_gentie():
    with open(os.path.join(THEORIES, "Props", "GenTieLoops.v")) as f:
        txt = f.read()
    whole = txt.replace("From PE Require Gen.Loops.\nImport Gen.Loops.", "From SCR Require Loops.\nImport Loops.")
    assert "SCR" in whole
    m0 = re.search(r"^\(\* ---- ", whole, flags=re.M)
    header, blocks = whole[:m0.start()], {}
    for m in re.finditer(r"(?ms)^Theorem (\w+)\b.*?^Print Assumptions \1\.", whole):
        blocks[m.group(1)] = m.group(0) + "\n"
    return whole, header, blocks


def modules_of(text):
    return {m.group(1): m.group(2) for m in re.finditer(r"(?s)Module (Gen_\w+)\.(.*?)End \1\.", text)}


def coqc(args, cwd):
    try:
        p = subprocess.run(["timeout", str(COQ_TIMEOUT), "coqc"] + args, cwd=cwd, capture_output=True, text=True)
        return p.returncode, p.stdout + p.stderr
    except Exception as e:  # noqa: BLE001
        return 99, str(e)


def check_text(d, name, text, nthm):
    fn = os.path.join(d, "coq", f"T_{name}.v")
    with open(fn, "w") as f:
        f.write(text)
    t0 = time.time()
    rc, out = coqc(["-Q", THEORIES, "PE", "-Q", os.path.join(d, "coq"), "SCR", fn], os.path.join(d, "coq"))
    dt = time.time() - t0
    if rc == 0 and out.count("Closed under the global context") == nthm and "Axioms:" not in out:
        return "ok", dt
    if rc == 124:
        return "timeout", dt
    m = re.search(r"Error:\s*(.*)", out, re.S)
    return "FAILS: " + (" ".join(m.group(1).split())[:110] if m else f"rc={rc}"), dt


def run_variant(n, edits, header, blocks, base_modules):
    """-> (translator status, {theorem: (result, seconds)}, scratch dir)"""
    d = make_scratch(n)
    for rel, fn in edits:
        path = os.path.join(d, "repo", "perception_eval", "perception_eval", rel)
        with open(path) as f:
            src = f.read()
        new = fn(src)
        ast.parse(new)
        assert new != src, "the edit changes nothing"
        with open(path, "w") as f:
            f.write(new)
    st = loops.regenerate(os.path.join(d, "repo"), os.path.join(d, "coq"))["Loops.v"]
    with open(os.path.join(d, "coq", "Loops.v")) as f:
        mods = modules_of(f.read())
    rc, out = coqc(["-Q", THEORIES, "PE", "-Q", os.path.join(d, "coq"), "SCR", "Loops.v"], os.path.join(d, "coq"))
    if rc != 0:
        return st, {"<Loops.v>": ("FAILS to compile: " + " ".join(out.split())[:200], 0)}, d
    if base_modules is None:
        todo = list(blocks)
    else:
        changed = [m for m in base_modules if mods.get(m) != base_modules[m]]
        todo = [t for t, b in blocks.items() if any(re.search(r"\b" + re.escape(m) + r"\.", b) for m in changed)]
    res = {}
    for t in todo:
        res[t] = check_text(d, t, header + blocks[t], 1)
    return st, res, d


def main():
    jobs = 4
    only = None
    keep = "--keep" in sys.argv
    if "--jobs" in sys.argv:
        jobs = int(sys.argv[sys.argv.index("--jobs") + 1])
    if "--only" in sys.argv:
        only = sys.argv[sys.argv.index("--only") + 1]
    ids = [a for a in sys.argv[1:] if re.fullmatch(r"[MR]\d\d", a)]
    shutil.rmtree(SCRATCH, ignore_errors=True)
    os.makedirs(SCRATCH)
    rc, out = coqc(["-Q", THEORIES, "PE", os.path.join(THEORIES, "Proofs", "GenTieLoopsLemmas.v")], THEORIES)
    if rc != 0:
        print("Proofs/GenTieLoopsLemmas.v does not compile:", out)
        return 1
    whole, header, blocks = split_gentie()
    failures = 0
    # ---- (1) unchanged repo
    t0 = time.time()
    st, res, d0 = run_variant("base", [], header, blocks, None)
    with open(os.path.join(d0, "coq", "Loops.v")) as f:
        base_modules = modules_of(f.read())
    print(f"(1) UNCHANGED /repo: translation: {'all translated' if st is None else st}")
    for k, (r, dt) in res.items():
        print(f"    {k:55s} {r}  ({dt:.1f}s)")
    bad = [k for k, v in res.items() if v[0] != "ok"]
    r, dt = check_text(d0, "whole_file", whole, len(blocks))
    print(f"    {'<the whole file, with the non-vacuity examples>':55s} {r}  ({dt:.1f}s)")
    print(f"    -> {len(res) - len(bad)}/{len(res)} theorems closed, {time.time() - t0:.0f}s")
    if bad or st is not None or r != "ok":
        failures += 1
    if only == "base":
        if not keep:
            shutil.rmtree(SCRATCH, ignore_errors=True)
        return failures
    with cf.ThreadPoolExecutor(max_workers=jobs) as pool:
        # ---- (2) mutants
        if only in (None, "mutants"):
            print("\n(2) MUTANTS (one token each)")
            tally = {}
            todo = [m for m in MUTANTS if not ids or m[0] in ids]
            futs = [pool.submit(run_variant, m[0], [(m[1], lambda s, c=m[2], f=m[3], o=m[4], n=m[5]: apply_edit(s, c, f, o, n))], header, blocks, base_modules)
                    for m in todo]
            for (mid, rel, cls, func, old, new, expected, why), fut in zip(todo, futs):
                try:
                    st, res, d = fut.result()
                except Exception as e:  # noqa: BLE001
                    print(f"  {mid} ERROR {e}")
                    failures += 1
                    continue
                badt = [f"{k} [{v[0]}]" for k, v in res.items() if v[0] != "ok"]
                if st:
                    verdict = "fails closed (translator)"
                    okv = expected in ("closed", "caught", "equivalent")
                elif not res:
                    verdict = "generated text unchanged" + (" (equivalent)" if expected == "equivalent" else "")
                    okv = expected == "equivalent"
                elif badt:
                    verdict = "caught" if expected != "equivalent" else "equivalent, proof script rejects"
                    okv = True
                else:
                    verdict = "equivalent, still proves" if expected == "equivalent" else "MISSED"
                    okv = expected == "equivalent"
                if expected == "equivalent" and st:
                    verdict = "equivalent, fails closed"
                tally[verdict] = tally.get(verdict, 0) + 1
                if not okv:
                    failures += 1
                    verdict += "  <<<<<< UNEXPECTED"
                desc = f"{func}: {' '.join(old.split())[:58]!r} -> {' '.join(new.split())[:58]!r}"
                print(f"  {mid} {verdict:34s} {desc}")
                if why:
                    print(f"        note: {why}")
                if st:
                    print(f"        translator: {st[:230]}")
                for b in badt:
                    print(f"        breaks: {b[:190]}")
                if not keep:
                    shutil.rmtree(d, ignore_errors=True)
            print("  tally:", tally)
        # ---- (3) refactorings
        if only in (None, "refactorings"):
            print("\n(3) REFACTORINGS (behaviour preserving)")
            survived = 0
            allr = [r for r in REFACTORINGS if not ids or r[0] in ids]
            futs = [pool.submit(run_variant, rid, [(rel, lambda s, c=cls, f=func, n=new: replace_function(s, c, f, n))], header, blocks, base_modules)
                    for (rid, desc, rel, cls, func, new) in allr]
            for (rid, desc, rel, cls, func, new), fut in zip(allr, futs):
                try:
                    st, res, d = fut.result()
                except Exception as e:  # noqa: BLE001
                    print(f"  {rid} ERROR {e}")
                    failures += 1
                    continue
                badt = [f"{k} [{v[0]}]" for k, v in res.items() if v[0] != "ok"]
                if st:
                    verdict = "translator FAILS CLOSED"
                elif badt:
                    verdict = "translated, proof REJECTS"
                else:
                    verdict = "survives" + ("" if res else " (generated text identical)")
                    survived += 1
                print(f"  {rid} {verdict:28s} {desc}  [{len(res)} theorem(s) re-checked]")
                if st:
                    print(f"        translator: {st[:230]}")
                for b in badt:
                    print(f"        breaks: {b[:190]}")
                if not keep:
                    shutil.rmtree(d, ignore_errors=True)
            print(f"  {survived}/{len(allr)} refactorings survive")
    if not keep:
        shutil.rmtree(SCRATCH, ignore_errors=True)
    return 1 if failures else 0


if __name__ == "__main__":
    sys.exit(main())
