#!/usr/bin/env python3
"""Translator for the OBJECT MATCHER of perception_eval (C01 / C02): Python `ast` -> Gallina (Gen/loops_matcher.v).

Layer of the redundant tie for evaluation/result/object_result.py: `get_object_results` for 3D objects and 2D objects with a ROI (the
early returns, the dispatch to the identity matchers, the two greedy stages over the numpy score table, the remainder),
`_get_score_table`, `_get_matching_module` and `_get_fp_object_results` are re-translated from the source on every run and
Props/GenTieMatcher.v proves each generated definition EQUAL, for all inputs, to the hand model (Model/Matching.v: `match_core`,
`stage`, `argbest`, `score_cell`, `get_object_results`).

What is generic (statement / expression layer, written for this file; only `fail`, `paren`, `coq_str` are imported):
  objects           an estimate / a ground truth is its identity (a nat: the index in the caller's list); what the code reads from
                    objects are FACT functions the generated definitions take as parameters (est_frame, gt_frame, thr, value, okf)
  results           `res A` = Ok a | Err <exception class> (fixed text of the generated file)
  `for`             fold_left over the iterated list (enumerate = combine (seq 0 (length xs)) xs, range(n) = seq 0 n) with the tuple of
                    the locals the body changes as state; a loop with a `break` carries a flag (loops_tracking.py's rendering): the
                    source's greedy loops are `for _ in range(number of rows): if all NaN: break ...`, so the number of iterations
                    is bounded by construction -- there is no `while` in the source; a `while` is not translated
  `if`              without return / break / raise inside: `bind (if c then .. Ok state else Ok state) (fun state => rest)`;
                    otherwise the rest of the block is continued in the branches that fall through
  Optional          `x is None or (x is not None and P x)` narrows x inside P (match .. with None => .. | Some x => .. end)
  mutation          xs.pop(i) / xs.append(v) / xs += ys only on lists CREATED in the function (.copy(), []); t[i, j] = v only on an
                    array created by np.full in the function of which no view was taken; parameters are never changed
numpy vocabulary (definitions in the fixed prelude of the generated file; characterising lemmas in Proofs/GenTieMatcherLemmas.v):
  a 2-D float array is `tbl (option Q)` = list of rows, NaN = None; the (n, m, 2) table of (score, flag) pairs is `tbl (option Q * bool)`
  np.full((n, m, 2), (np.nan, False)) = np_full2      t[i, j] = (a, b)      = np_setitem2 (IndexError outside)
  t[..., 0] / t[..., 1]               = np_last0 / np_last1                 np.where(mask, t, np.nan) = np_where_nan
  np.isnan(t).all() / .any()          = np_isnan_all / np_isnan_any         np.nanargmin / nanargmax  = first best in row-major order,
  np.unravel_index(k, t.shape)        = (k / m, k mod m)                                                ValueError on an all-NaN table
  np.delete(t, i, axis=0 / 1)         = np_delete0 / np_delete1             n, *_ = t.shape           = number of rows
  t.shape of a table WITHOUT rows is not represented (the column count is lost): ShapeError -- the equations prove it is never asked.
Only `ast` is used; the library is never imported.
"""
import ast
import os
import sys

HERE = os.path.dirname(os.path.abspath(__file__))
sys.path.insert(0, HERE)
from py_to_coq import TranslatorError, coq_str  # noqa: E402
from decisions import fail, paren  # noqa: E402

MODNAME = "loops_matcher"          # harness/lib/core.py regenerate_gen: translator/<modname>.py writes Gen/<modname>.v
PKG = os.path.join("perception_eval", "perception_eval")
RESULT_PY = "evaluation/result/object_result.py"

# ---- types ------------------------------------------------------------------------------------------------------------------
NAT, BOOL, EST, GT, RESULT, OQ, THR, MODE, METH, FRAME, ELABEL, GLABEL, NONE, EMPTY = \
    "nat", "bool", "est", "gt", "result", "oq", "thr", "mode", "meth", "frame", "elabel", "glabel", "none", "emptylist"
TBL, BTBL, TBL2, SHAPE = "tbl", "btbl", "tbl2", "shape"


def lst(t):
    return ("list", t)


def opt(t):
    return ("opt", t)


def tup(*ts):
    return ("tuple",) + tuple(ts)


def opaque(name):
    return ("opaque", name)


ESTS, GTS, RESULTS = lst(EST), lst(GT), lst(RESULT)
COQTY = {NAT: "nat", BOOL: "bool", EST: "nat", GT: "nat", RESULT: "(nat * option nat)", OQ: "option Q", THR: "Q",
         MODE: "Matching.Mode", METH: "(Matching.Mode * nat * nat)", FRAME: "nat", TBL: "tbl (option Q)", BTBL: "tbl bool",
         TBL2: "tbl (option Q * bool)", SHAPE: "(nat * nat)", ELABEL: "nat", GLABEL: "nat", "flat": "nat"}


def cty(t):
    if isinstance(t, str):
        if t not in COQTY:
            fail(f"no Coq type for {t}")
        return COQTY[t]
    if t[0] == "list":
        return f"list {paren(cty(t[1]))}"
    if t[0] == "opt":
        return f"option {paren(cty(t[1]))}"
    if t[0] == "tuple":
        return "(" + " * ".join(paren(cty(x)) for x in t[1:]) + ")"
    if t[0] == "opaque":
        return "unit"
    fail(f"no Coq type for {t}")


def show(t):
    return t if isinstance(t, str) else (t[0] + "(" + ", ".join(show(x) for x in t[1:]) + ")")


def is_list(t):
    return isinstance(t, tuple) and t[0] == "list"


class E:
    def __init__(self, term, ty):
        self.term, self.ty = term, ty


class Call:
    """a vocabulary call: parameter names of the callee (checked against its definition when `sig` is given), expected type per
    parameter (a type, a tuple of alternatives, or ("opaque", name): the argument must be the caller's variable of that name),
    template over {param}, result type, eff (the term has type res _), defaults {param: term}"""

    def __init__(self, params, template, ret, eff=False, defaults=None, sig=None, by_type=None):
        self.params, self.template, self.ret, self.eff, self.defaults, self.sig, self.by_type = \
            params, template, ret, eff, defaults or {}, sig, by_type


class Fn:
    def __init__(self, name, func, params, penv, ret, facts=None, calls=None, asserts=(), loops=(), needs=(), consts=None):
        self.name, self.func, self.params, self.penv, self.ret = name, func, params, penv, ret
        self.facts, self.calls, self.asserts, self.loops, self.needs = facts or {}, calls or {}, asserts, list(loops), needs
        self.consts = consts or {}
        self.counter, self.found = 0, []

    def fresh(self, hint="v"):
        self.counter += 1
        return f"{hint}{self.counter}_"


class Env:
    def __init__(self, fn):
        self.fn, self.vars, self.made, self.params, self.nonempty, self.loop = fn, {}, set(), set(), set(), None
        self.known = {}          # Optional locals whose test against None is decided here: name -> True (not None) | False (None)

    def copy(self):
        e = Env(self.fn)
        e.vars, e.made, e.params, e.nonempty, e.loop = dict(self.vars), set(self.made), set(self.params), set(self.nonempty), self.loop
        e.known = dict(self.known)
        return e


def lname(n):
    return "l_" + n


def wrap(ctx, body):
    for pat, term in reversed(ctx):
        body = f"bind ({term}) (fun {pat} =>\n{body})"
    return body


def coerce(e, ty, node):
    if e.ty == ty:
        return e.term
    if e.ty == EMPTY and is_list(ty):
        return "[]"
    if e.ty == NONE and isinstance(ty, tuple) and ty[0] == "opt":
        return "None"
    if isinstance(ty, tuple) and ty[0] == "opt" and e.ty == ty[1]:
        return f"Some {paren(e.term)}"
    if isinstance(ty, tuple) and ty[0] == "tuple" and isinstance(e.ty, tuple) and e.ty[0] == "tuple" and len(ty) == len(e.ty) \
            and getattr(e, "parts", None):
        return "(" + ", ".join(coerce(p, t, node) for p, t in zip(e.parts, ty[1:])) + ")"
    fail(f"a {show(e.ty)} where a {show(ty)} is expected", node)


# =============================================================================================
# expressions
# =============================================================================================
def natlit(node):
    return isinstance(node, ast.Constant) and isinstance(node.value, int) and not isinstance(node.value, bool) and node.value >= 0


def is_np(node, name):
    return isinstance(node, ast.Attribute) and isinstance(node.value, ast.Name) and node.value.id == "np" and node.attr == name


def check_nonempty(node, env):
    """a fact / assert that reads xs[0]: xs must be a parameter known to be non-empty here"""
    for n in ast.walk(node):
        if isinstance(n, ast.Subscript):
            if not (isinstance(n.value, ast.Name) and n.value.id in env.params and natlit(n.slice) and n.slice.value == 0
                    and n.value.id in env.nonempty):
                fail(f"`{ast.unparse(n)}` is read where the list is not known to be non-empty", node)


def none_test(node, env):
    """`x is None` / `x is not None` for a local x of an Optional type -> (x, is_none)"""
    if isinstance(node, ast.Compare) and len(node.ops) == 1 and isinstance(node.ops[0], (ast.Is, ast.IsNot)) \
            and isinstance(node.left, ast.Name) and isinstance(node.comparators[0], ast.Constant) and node.comparators[0].value is None:
        x = node.left.id
        if x in env.known:
            return "const", (not env.known[x]) == isinstance(node.ops[0], ast.Is)
        if x in env.vars and isinstance(env.vars[x][1], tuple) and env.vars[x][1][0] == "opt":
            return x, isinstance(node.ops[0], ast.Is)
        if x in env.vars:
            fail(f"`{x}` is compared with None but is a {show(env.vars[x][1])} here", node)
    return None


def narrowed(env, x, some):
    e = env.copy()
    if some:
        e.vars[x] = (lname(x), env.vars[x][1][1])
    else:
        del e.vars[x]
    e.known[x] = some
    return e


def cond(node, env):
    """a boolean expression that cannot raise -> Coq term of type bool"""
    if isinstance(node, ast.BoolOp):
        is_or = isinstance(node.op, ast.Or)

        def go(vals, e):
            v = vals[0]
            if len(vals) == 1:
                return cond(v, e)
            nt = none_test(v, e)
            if nt is not None and nt[0] == "const":
                nt = None
            if nt is not None:
                x, is_none = nt
                lx = e.vars[x][0]
                rest_some = go(vals[1:], narrowed(e, x, True))
                rest_none = go(vals[1:], narrowed(e, x, False)) if (is_or != is_none) else None
                if is_or and is_none:
                    return f"match {lx} with None => true | Some {lname(x)} => {rest_some} end"
                if is_or:
                    return f"match {lx} with Some _ => true | None => {rest_none} end"
                if not is_none:
                    return f"match {lx} with None => false | Some {lname(x)} => {rest_some} end"
                return f"match {lx} with Some _ => false | None => {rest_none} end"
            return f"({paren(cond(v, e))} {'||' if is_or else '&&'} {paren(go(vals[1:], e))})"
        return go(node.values, env)
    if isinstance(node, ast.UnaryOp) and isinstance(node.op, ast.Not):
        ctx = []
        a = tr(node.operand, env, ctx)
        if ctx:
            fail("`not` of something that can raise", node)
        if is_list(a.ty):
            return f"list_is_empty {paren(a.term)}"
        if a.ty == BOOL:
            return f"negb {paren(a.term)}"
        fail(f"`not` of a {show(a.ty)}", node)
    nt = none_test(node, env)
    if nt is not None and nt[0] == "const":
        return "true" if nt[1] else "false"
    if nt is not None:
        x, is_none = nt
        return f"match {env.vars[x][0]} with None => {'true' if is_none else 'false'} | Some _ => {'false' if is_none else 'true'} end"
    ctx = []
    a = tr(node, env, ctx)
    if ctx:
        fail("a condition that can raise", node)
    if is_list(a.ty):                 # truthiness of a list
        return f"negb (list_is_empty {paren(a.term)})"
    if a.ty != BOOL:
        fail(f"a {show(a.ty)} used as a condition", node)
    return a.term


def tr_call(node, env, ctx):
    fn = env.fn
    f = node.func
    key = ast.unparse(f)
    # ---- numpy
    if is_np(f, "full"):
        if len(node.args) != 2 or node.keywords or not isinstance(node.args[0], ast.Tuple) or len(node.args[0].elts) != 3 \
                or not (natlit(node.args[0].elts[2]) and node.args[0].elts[2].value == 2) or not isinstance(node.args[1], ast.Tuple) \
                or len(node.args[1].elts) != 2:
            fail("np.full form (expected a (rows, columns, 2) shape and a pair to fill with)", node)
        n, m = tr(node.args[0].elts[0], env, ctx), tr(node.args[0].elts[1], env, ctx)
        a, b = tr(node.args[1].elts[0], env, ctx), tr(node.args[1].elts[1], env, ctx)
        if n.ty != NAT or m.ty != NAT or a.ty != OQ or b.ty != BOOL:
            fail("np.full: types of the shape / fill value", node)
        return E(f"np_full2 {paren(n.term)} {paren(m.term)} ({a.term}, {b.term})", TBL2)
    if is_np(f, "where"):
        if len(node.args) != 3 or node.keywords or not is_np(node.args[2], "nan"):
            fail("np.where form (expected np.where(mask, table, np.nan))", node)
        mk, t = tr(node.args[0], env, ctx), tr(node.args[1], env, ctx)
        if mk.ty != BTBL or t.ty != TBL:
            fail(f"np.where on a {show(mk.ty)} and a {show(t.ty)}", node)
        return E(f"np_where_nan {paren(mk.term)} {paren(t.term)}", TBL)
    if isinstance(f, ast.Attribute) and f.attr in ("all", "any") and isinstance(f.value, ast.Call) and is_np(f.value.func, "isnan"):
        if node.args or node.keywords or len(f.value.args) != 1 or f.value.keywords:
            fail("np.isnan(...).all() form", node)
        t = tr(f.value.args[0], env, ctx)
        if t.ty != TBL:
            fail(f"np.isnan of a {show(t.ty)}", node)
        return E(f"np_isnan_{f.attr} {paren(t.term)}", BOOL)
    if is_np(f, "nanargmin") or is_np(f, "nanargmax"):
        if len(node.args) != 1 or node.keywords:
            fail("np.nanarg* form", node)
        t = tr(node.args[0], env, ctx)
        if t.ty != TBL:
            fail(f"{key} of a {show(t.ty)}", node)
        v = fn.fresh("k")
        ctx.append((v, f"np_{f.attr} {paren(t.term)}"))
        return E(v, "flat")
    if is_np(f, "unravel_index"):
        if len(node.args) != 2 or node.keywords:
            fail("np.unravel_index form", node)
        k = tr(node.args[0], env, ctx)
        sh = node.args[1]
        if k.ty != "flat" or not (isinstance(sh, ast.Attribute) and sh.attr == "shape"):
            fail("np.unravel_index of something that is not (a flat index, <table>.shape)", node)
        t = tr(sh.value, env, ctx)
        if t.ty != TBL:
            fail(f".shape of a {show(t.ty)}", node)
        s, v = fn.fresh("sh"), fn.fresh("ij")
        ctx.append((s, f"np_shape2 {paren(t.term)}"))
        ctx.append((v, f"np_unravel_index {k.term} {s}"))
        return E(v, tup(NAT, NAT))
    if is_np(f, "delete"):
        args = list(node.args)
        kw = {k.arg: k.value for k in node.keywords}
        if len(args) == 3 and not kw:
            args, kw = args[:2], {"axis": args[2]}
        if len(args) != 2 or set(kw) != {"axis"} or not (natlit(kw["axis"]) and kw["axis"].value in (0, 1)):
            fail("np.delete form (expected np.delete(table, index, axis=0 | 1))", node)
        t, i = tr(args[0], env, ctx), tr(args[1], env, ctx)
        if t.ty not in (TBL, TBL2) or i.ty != NAT:
            fail(f"np.delete on a {show(t.ty)} at a {show(i.ty)}", node)
        v = fn.fresh("t")
        ctx.append((v, f"np_delete{kw['axis'].value} {paren(t.term)} {paren(i.term)}"))
        return E(v, t.ty)
    # ---- builtins / list methods
    if isinstance(f, ast.Name) and f.id == "len" and "len" not in env.vars:
        if len(node.args) != 1 or node.keywords:
            fail("len form", node)
        a = tr(node.args[0], env, ctx)
        if not is_list(a.ty):
            fail(f"len of a {show(a.ty)}", node)
        return E(f"length {paren(a.term)}", NAT)
    if isinstance(f, ast.Attribute) and f.attr == "copy" and not node.args and not node.keywords:
        a = tr(f.value, env, ctx)
        if not is_list(a.ty):
            fail(f".copy() of a {show(a.ty)}", node)
        return E(a.term, a.ty)
    if isinstance(f, ast.Attribute) and f.attr in ("pop", "append", "remove", "insert", "extend", "clear", "sort", "reverse"):
        fail(f"`.{f.attr}(...)` inside an expression", node)
    # ---- the vocabulary of the function
    spec = fn.calls.get(key)
    if spec is None and isinstance(f, ast.Attribute):
        # a method of a typed value: key "<type>.<method>"
        base = tr(f.value, env, ctx)
        spec = fn.calls.get(f"<{show(base.ty)}>.{f.attr}")
        if spec is None:
            fail(f"call not in the vocabulary: `{key}` (on a {show(base.ty)})", node)
        return apply_call(spec, node, env, ctx, base)
    if spec is None and isinstance(f, ast.Name) and f.id in env.vars and f"<{show(env.vars[f.id][1])}>()" in fn.calls:
        return apply_call(fn.calls[f"<{show(env.vars[f.id][1])}>()"], node, env, ctx, E(*env.vars[f.id]))
    if spec is None:
        fail(f"call not in the vocabulary: `{key}`", node)
    if isinstance(f, ast.Name) and f.id in env.vars:
        fail(f"`{f.id}` is a local here, not the function the vocabulary speaks about", node)
    return apply_call(spec, node, env, ctx, None)


def apply_call(spec, node, env, ctx, base):
    if any(isinstance(a, ast.Starred) for a in node.args) or any(k.arg is None for k in node.keywords) or len(node.args) > len(spec.params):
        fail("call form", node)
    given = {}
    for (pn, _), a in zip(spec.params, node.args):
        given[pn] = a
    for k in node.keywords:
        if k.arg in given or k.arg not in [p for p, _ in spec.params]:
            fail(f"argument `{k.arg}` of `{ast.unparse(node.func)}`", node)
        given[k.arg] = k.value
    vals = {"self": base.term if base is not None else None}
    kinds = []
    for pn, want in spec.params:
        if pn not in given:
            if pn not in spec.defaults:
                fail(f"`{ast.unparse(node.func)}`: argument `{pn}` is missing", node)
            if spec.defaults[pn] is not None:
                vals[pn] = spec.defaults[pn]
            continue
        a = given[pn]
        if isinstance(want, tuple) and want[0] == "opaque":
            if not (isinstance(a, ast.Name) and a.id == want[1] and a.id in env.vars and env.vars[a.id][1] == want):
                fail(f"`{ast.unparse(node.func)}`: argument `{pn}` is `{ast.unparse(a)}`, expected the caller's `{want[1]}` passed on unchanged", node)
            continue
        e = tr(a, env, ctx)
        alts = want if isinstance(want, list) else [want]
        for w in alts:
            try:
                vals[pn] = paren(coerce(e, w, node))
                kinds.append(w)
                break
            except TranslatorError:
                continue
        else:
            fail(f"`{ast.unparse(node.func)}`: argument `{pn}` is a {show(e.ty)}", node)
    template = spec.template
    if spec.by_type is not None:
        template = spec.by_type.get(tuple(k for k in kinds if isinstance(k, str)))
        if template is None:
            fail(f"`{ast.unparse(node.func)}`: no fact for these argument kinds", node)
    term = template.format(**vals)
    if spec.eff:
        v = env.fn.fresh("r")
        ctx.append((v, term))
        return E(v, spec.ret)
    return E(term, spec.ret)


NAT_CMP = {ast.Eq: "Nat.eqb {a} {b}", ast.NotEq: "negb (Nat.eqb {a} {b})", ast.Lt: "Nat.ltb {a} {b}", ast.LtE: "Nat.leb {a} {b}",
           ast.Gt: "Nat.ltb {b} {a}", ast.GtE: "Nat.leb {b} {a}"}


def tr(node, env, ctx):
    fn = env.fn
    key = ast.unparse(node)
    if not isinstance(node, ast.Name) and key in fn.facts:
        check_nonempty(node, env)
        for n in ast.walk(node):
            if isinstance(n, ast.Name) and n.id in env.vars and n.id not in env.params:
                fail(f"the fact `{key}` mentions `{n.id}`, which is a local here", node)
        term, ty, eff = fn.facts[key]
        if eff:
            v = fn.fresh("r")
            ctx.append((v, term))
            return E(v, ty)
        return E(term, ty)
    if key in fn.consts and not (isinstance(node, ast.Name) and node.id in env.vars):
        return E(*fn.consts[key])
    if isinstance(node, ast.Name):
        if node.id not in env.vars:
            fail(f"unknown name `{node.id}`", node)
        t, ty = env.vars[node.id]
        if isinstance(ty, tuple) and ty[0] == "opaque":
            fail(f"`{node.id}` is only ever passed on to the functions of the vocabulary", node)
        return E(t, ty)
    if isinstance(node, ast.Constant):
        if isinstance(node.value, bool):
            return E("true" if node.value else "false", BOOL)
        if natlit(node):
            return E(str(node.value), NAT)
        if node.value is None:
            return E("None", NONE)
        fail(f"literal {node.value!r}", node)
    if is_np(node, "nan"):
        return E("None", OQ)
    if isinstance(node, ast.List) and not node.elts:
        return E("[]", EMPTY)
    if isinstance(node, ast.Tuple):
        parts = [tr(x, env, ctx) for x in node.elts]
        e = E("(" + ", ".join(p.term for p in parts) + ")", tup(*[p.ty for p in parts]))
        e.parts = parts
        return e
    if isinstance(node, (ast.BoolOp,)) or (isinstance(node, ast.UnaryOp) and isinstance(node.op, ast.Not)):
        return E(cond(node, env), BOOL)
    if isinstance(node, ast.Compare):
        if none_test(node, env) is not None:
            return E(cond(node, env), BOOL)
        if len(node.ops) != 1:
            fail("chained comparison", node)
        op = node.ops[0]
        rn = node.comparators[0]
        if isinstance(op, (ast.Is, ast.IsNot)) and isinstance(rn, ast.Constant) and isinstance(rn.value, bool):
            a = tr(node.left, env, ctx)
            if a.ty != BOOL:
                fail(f"`is {rn.value}` of a {show(a.ty)}", node)
            pos = (rn.value is True) == isinstance(op, ast.Is)
            return E(a.term if pos else f"negb {paren(a.term)}", BOOL)
        a, b = tr(node.left, env, ctx), tr(rn, env, ctx)
        if a.ty == b.ty and a.ty in (NAT, FRAME) and type(op) in NAT_CMP:
            if a.ty == FRAME and not isinstance(op, (ast.Eq, ast.NotEq)):
                fail("ordering of frame ids", node)
            return E(NAT_CMP[type(op)].format(a=paren(a.term), b=paren(b.term)), BOOL)
        if a.ty == b.ty == MODE and isinstance(op, (ast.Eq, ast.NotEq)):
            t = f"mode_eqb {paren(a.term)} {paren(b.term)}"
            return E(t if isinstance(op, ast.Eq) else f"negb ({t})", BOOL)
        fail(f"comparison {type(op).__name__} of a {show(a.ty)} and a {show(b.ty)}", node)
    if isinstance(node, ast.IfExp):
        c = cond(node.test, env)
        ca, cb = [], []
        a, b = tr(node.body, env, ca), tr(node.orelse, env, cb)
        ty = a.ty if a.ty not in (EMPTY, NONE) else b.ty
        if ty in (EMPTY, NONE):
            fail("conditional expression whose type is not determined", node)
        ta, tb = coerce(a, ty, node), coerce(b, ty, node)
        if not ca and not cb:
            return E(f"if {c} then {ta} else {tb}", ty)
        v = fn.fresh("c")
        ctx.append((v, f"if {c} then {wrap(ca, 'Ok ' + paren(ta))} else {wrap(cb, 'Ok ' + paren(tb))}"))
        return E(v, ty)
    if isinstance(node, ast.Attribute):
        if node.attr == "shape":
            fail("`.shape` outside `n, *_ = t.shape` / np.unravel_index(k, t.shape)", node)
        base = tr(node.value, env, ctx)
        a = ATTRS.get((base.ty, node.attr))
        if a is None:
            fail(f"attribute not in the vocabulary: `.{node.attr}` of a {show(base.ty)}", node)
        return E(a[0].format(paren(base.term)), a[1])
    if isinstance(node, ast.Subscript):
        sl = node.slice
        if isinstance(sl, ast.Tuple) and len(sl.elts) == 2 and isinstance(sl.elts[0], ast.Constant) and sl.elts[0].value is Ellipsis \
                and natlit(sl.elts[1]) and sl.elts[1].value in (0, 1):
            t = tr(node.value, env, ctx)
            if t.ty != TBL2:
                fail(f"[..., k] of a {show(t.ty)}", node)
            return E(f"np_last{sl.elts[1].value} {paren(t.term)}", TBL if sl.elts[1].value == 0 else BTBL)
        fail(f"subscript not translated: `{key}`", node)
    if isinstance(node, ast.Call):
        return tr_call(node, env, ctx)
    fail(f"expression not translated: `{key}`", node)


# facts read from typed values (objects are their identities)
ATTRS = {
    (EST, "frame_id"): ("est_frame {}", FRAME),
    (GT, "frame_id"): ("gt_frame {}", FRAME),
    (EST, "semantic_label"): ("{}", ELABEL),
    (GT, "semantic_label"): ("{}", GLABEL),
    (METH, "value"): ("meth_value value {}", OQ),
}


# =============================================================================================
# statements
# =============================================================================================
def targets_of(s):
    return s.targets if isinstance(s, ast.Assign) else [s.target]


def assigned(stmts):
    """names (re)bound or mutated in the statements, in order of first occurrence"""
    out = []

    def add(n):
        if n not in out:
            out.append(n)

    def tgt(t):
        if isinstance(t, ast.Name):
            add(t.id)
        elif isinstance(t, (ast.Tuple, ast.List)):
            for x in t.elts:
                tgt(x)
        elif isinstance(t, ast.Starred):
            tgt(t.value)
        elif isinstance(t, (ast.Subscript, ast.Attribute)):
            b = t
            while isinstance(b, (ast.Subscript, ast.Attribute)):
                b = b.value
            if isinstance(b, ast.Name):
                add(b.id)

    def walk(ss):
        for s in ss:
            if isinstance(s, (ast.Assign, ast.AnnAssign, ast.AugAssign)):
                if getattr(s, "value", None) is not None:
                    calls(s.value)
                    for t in (targets_of(s) if not isinstance(s, ast.AugAssign) else [s.target]):
                        tgt(t)
            elif isinstance(s, ast.Expr):
                calls(s.value)
            elif isinstance(s, ast.For):
                tgt(s.target)
                walk(s.body)
                walk(s.orelse)
            elif isinstance(s, ast.If):
                walk(s.body)
                walk(s.orelse)

    def calls(v):
        for n in ast.walk(v):
            if isinstance(n, ast.Call) and isinstance(n.func, ast.Attribute) and isinstance(n.func.value, ast.Name) \
                    and n.func.attr in ("pop", "append", "remove", "insert", "extend", "clear", "sort", "reverse"):
                add(n.func.value.id)
    walk(stmts)
    return out


def escapes(stmts):
    """does a statement leave the block other than by its end (return / raise / break / continue), loops excluded for break / continue?"""
    def walk(ss, in_loop):
        for s in ss:
            if isinstance(s, (ast.Return, ast.Raise)):
                return True
            if isinstance(s, (ast.Break, ast.Continue)) and not in_loop:
                return True
            if isinstance(s, ast.For):
                if walk(s.body, True):
                    return True
            elif isinstance(s, ast.If):
                if walk(s.body, in_loop) or walk(s.orelse, in_loop):
                    return True
        return False
    return walk(stmts, False)


def always_escapes(stmts):
    if not stmts:
        return False
    s = stmts[-1]
    if isinstance(s, (ast.Return, ast.Raise, ast.Break, ast.Continue)):
        return True
    if isinstance(s, ast.If):
        return always_escapes(s.body) and always_escapes(s.orelse)
    return False


def own_breaks(stmts):
    for s in stmts:
        if isinstance(s, ast.Break):
            return True
        if isinstance(s, ast.If) and (own_breaks(s.body) or own_breaks(s.orelse)):
            return True
    return False


def state_tuple(names):
    return "(" + ", ".join(lname(n) for n in names) + ")" if len(names) != 1 else lname(names[0])


def state_pat(names):
    return "'" + state_tuple(names) if len(names) != 1 else lname(names[0])


def state_type(names, env):
    ts = [paren(cty(env.vars[n][1])) for n in names]
    return "(" + " * ".join(ts) + ")" if len(ts) != 1 else ts[0]


def bind_local(env, name, ty, node, made=False):
    if name in env.params:
        fail(f"parameter `{name}` is re-bound", node)
    if name in env.fn.consts or name in ("np", "len", "range", "enumerate"):
        fail(f"`{name}` is re-bound", node)
    if name in env.vars and env.vars[name][1] != ty:
        fail(f"`{name}` changes its type ({show(env.vars[name][1])} -> {show(ty)})", node)
    if ty in (NONE, EMPTY) or (isinstance(ty, tuple) and ty[0] == "opaque"):
        fail(f"`{name}` is bound to a value whose type is not determined", node)
    e = env.copy()
    e.vars[name] = (lname(name), ty)
    e.known.pop(name, None)
    if made:
        e.made.add(name)
    else:
        e.made.discard(name)
    return e


def mutable_list(env, name, node):
    if name not in env.vars or name in env.params or name not in env.made or not is_list(env.vars[name][1]):
        fail(f"`{name}` is changed in place but is not a list created in this function", node)


ANNOT = {"List[DynamicObjectWithPerceptionResult]": RESULTS}


def tr_block(ss, env, k):
    """-> Coq term of type res <function result>; k(env): what follows the block (None: the end of the function)"""
    fn = env.fn
    if not ss:
        if k is None:
            fail(f"{fn.func}: control can reach the end of the function without a return")
        return k(env)
    s, rest = ss[0], ss[1:]

    def cont(e):
        return tr_block(rest, e, k)

    if isinstance(s, ast.Return):
        if env.loop is not None:
            fail("return inside a loop", s)
        if s.value is None:
            fail("bare return", s)
        ctx = []
        e = tr(s.value, env, ctx)
        return wrap(ctx, f"Ok {paren(coerce(e, fn.ret, s))}")
    if isinstance(s, ast.Raise):
        x = s.exc
        if s.cause is not None or not (isinstance(x, ast.Call) and isinstance(x.func, ast.Name) and x.func.id in ("ValueError", "IndexError")):
            fail("raise of something that is not one of the modelled exception classes", s)
        return f"Err {x.func.id}"
    if isinstance(s, ast.Continue):
        if env.loop is None:
            fail("continue outside a loop", s)
        return env.loop[0](env)
    if isinstance(s, ast.Break):
        if env.loop is None or env.loop[1] is None:
            fail("break outside a loop", s)
        return env.loop[1](env)
    if isinstance(s, ast.Pass):
        return cont(env)
    if isinstance(s, ast.Assert):
        if ast.unparse(s.test) not in fn.asserts:
            fail(f"assert not in the vocabulary: `{ast.unparse(s.test)}`", s)
        check_nonempty(s.test, env)
        return cont(env)
    if isinstance(s, ast.For):
        return tr_for(s, rest, env, k)
    if isinstance(s, ast.If):
        return tr_if(s, rest, env, k)
    if isinstance(s, ast.AugAssign):
        if not isinstance(s.op, ast.Add) or not isinstance(s.target, ast.Name):
            fail("augmented assignment form", s)
        nme = s.target.id
        mutable_list(env, nme, s)
        ctx = []
        v = tr(s.value, env, ctx)
        x = lname(nme)
        return wrap(ctx, f"let {x} := ({x} ++ {paren(coerce(v, env.vars[nme][1], s))})%list in\n{cont(env.copy())}")
    if isinstance(s, ast.Expr):
        c = s.value
        if isinstance(c, ast.Constant) and isinstance(c.value, str):
            return cont(env)
        if isinstance(c, ast.Call) and isinstance(c.func, ast.Attribute) and isinstance(c.func.value, ast.Name) and c.func.attr == "append":
            nme = c.func.value.id
            mutable_list(env, nme, s)
            if len(c.args) != 1 or c.keywords:
                fail("append form", s)
            ctx = []
            v = tr(c.args[0], env, ctx)
            x = lname(nme)
            return wrap(ctx, f"let {x} := ({x} ++ [{coerce(v, env.vars[nme][1][1], s)}])%list in\n{cont(env.copy())}")
        if isinstance(c, ast.Call) and isinstance(c.func, ast.Attribute) and isinstance(c.func.value, ast.Name) and c.func.attr == "pop":
            return tr_pop(None, c, s, env, cont)
        fail("expression statement not translated", s)
    if isinstance(s, (ast.Assign, ast.AnnAssign)):
        if getattr(s, "value", None) is None:
            fail("annotation without a value", s)
        ts = targets_of(s)
        if len(ts) != 1:
            fail("chained assignment", s)
        t, v = ts[0], s.value
        # n, *_ = table.shape
        if isinstance(t, ast.Tuple) and len(t.elts) == 2 and isinstance(t.elts[0], ast.Name) and isinstance(t.elts[1], ast.Starred) \
                and isinstance(t.elts[1].value, ast.Name) and isinstance(v, ast.Attribute) and v.attr == "shape":
            ctx = []
            a = tr(v.value, env, ctx)
            if a.ty not in (TBL, TBL2):
                fail(f".shape of a {show(a.ty)}", s)
            e1 = bind_local(env, t.elts[0].id, NAT, s)
            e1.vars.pop(t.elts[1].value.id, None)          # the starred rest is never used
            return wrap(ctx, f"let {lname(t.elts[0].id)} := length {paren(a.term)} in\n{cont(e1)}")
        # t[i, j] = (a, b)
        if isinstance(t, ast.Subscript):
            if not (isinstance(t.value, ast.Name) and isinstance(t.slice, ast.Tuple) and len(t.slice.elts) == 2):
                fail("item assignment form", s)
            nme = t.value.id
            if nme not in env.vars or nme in env.params or nme not in env.made or env.vars[nme][1] != TBL2:
                fail(f"`{nme}[i, j] = ...` on something that is not a table created by np.full in this function (or of which a view exists)", s)
            ctx = []
            i, j = tr(t.slice.elts[0], env, ctx), tr(t.slice.elts[1], env, ctx)
            val = tr(v, env, ctx)
            if i.ty != NAT or j.ty != NAT:
                fail("item assignment at something that is not a pair of ints", s)
            c = coerce(val, tup(OQ, BOOL), s)
            x = lname(nme)
            return wrap(ctx, f"bind (np_setitem2 {x} {paren(i.term)} {paren(j.term)} {c}) (fun {x} =>\n{cont(env.copy())})")
        if isinstance(v, ast.Call) and isinstance(v.func, ast.Attribute) and isinstance(v.func.value, ast.Name) and v.func.attr == "pop":
            if not isinstance(t, ast.Name):
                fail("pop assigned to something that is not a name", s)
            return tr_pop(t.id, v, s, env, cont)
        ctx = []
        e = tr(v, env, ctx)
        if isinstance(t, ast.Tuple):
            if not all(isinstance(x, ast.Name) for x in t.elts) or not (isinstance(e.ty, tuple) and e.ty[0] == "tuple") \
                    or len(e.ty) - 1 != len(t.elts):
                fail("tuple assignment form", s)
            names = [x.id for x in t.elts]
            if len(set(names)) != len(names):
                fail("a name twice in a tuple target", s)
            e1 = env
            for n_, ty_ in zip(names, e.ty[1:]):
                e1 = bind_local(e1, n_, "nat" if ty_ == "flat" else ty_, s)
            return wrap(ctx, f"let '({', '.join(lname(n_) for n_ in names)}) := {e.term} in\n{cont(e1)}")
        if not isinstance(t, ast.Name):
            fail("assignment target", s)
        nme = t.id
        ty = e.ty
        if ty == EMPTY:
            ann = ast.unparse(s.annotation) if isinstance(s, ast.AnnAssign) else None
            ty = ANNOT.get(ann)
            if ty is None:
                fail(f"`{nme} = []` without a known element type", s)
            e = E("[]", ty)
        made = (is_list(ty) and (isinstance(v, ast.List) or (isinstance(v, ast.Call) and isinstance(v.func, ast.Attribute) and v.func.attr == "copy"))) \
            or (ty == TBL2 and isinstance(v, ast.Call) and is_np(v.func, "full"))
        if is_list(ty) and not made and not (isinstance(v, ast.Call) and ast.unparse(v.func) in fn.calls):
            fail(f"`{nme}` would alias another list", s)
        e1 = bind_local(env, nme, ty, s, made=made)
        # a view of a table: the table may no longer be written in place
        for n in ast.walk(v):
            if isinstance(n, ast.Subscript) and isinstance(n.value, ast.Name):
                e1.made.discard(n.value.id)
        if isinstance(v, ast.Name) and v.id in e1.made:
            e1.made.discard(v.id)
        return wrap(ctx, f"let {lname(nme)} := {e.term} in\n{cont(e1)}")
    fail(f"statement not translated: {type(s).__name__}", s)


def tr_pop(target, c, s, env, cont):
    nme = c.func.value.id
    mutable_list(env, nme, s)
    if len(c.args) != 1 or c.keywords:
        fail("pop form (expected xs.pop(i))", s)
    ctx = []
    i = tr(c.args[0], env, ctx)
    if i.ty != NAT:
        fail(f"pop at a {show(i.ty)}", s)
    x = lname(nme)
    if target is None:
        return wrap(ctx, f"bind (list_pop {x} {paren(i.term)}) (fun '(_, {x}) =>\n{cont(env.copy())})")
    if target == nme:
        fail("a list re-bound to its own popped element", s)
    e1 = bind_local(env, target, env.vars[nme][1][1], s)
    return wrap(ctx, f"bind (list_pop {x} {paren(i.term)}) (fun '({lname(target)}, {x}) =>\n{cont(e1)})")


def restrict(e, env0):
    """after a branch: only what was visible before it stays visible (with its possibly changed `made` status)"""
    r = env0.copy()
    for v in env0.vars:
        if v not in e.vars or e.vars[v][1] != env0.vars[v][1]:
            r.vars.pop(v, None)
        elif v not in e.made:
            r.made.discard(v)
    r.nonempty = set(e.nonempty)
    return r


def tr_if(s, rest, env, k):
    nt = none_test(s.test, env)
    if nt is not None and nt[0] == "const":
        nt = None
    if nt is not None:
        x, is_none = nt
        lx = env.vars[x][0]
        e_some, e_none = narrowed(env, x, True), narrowed(env, x, False)
        et, ef = (e_none, e_some) if is_none else (e_some, e_none)

        def render(a, b):
            none_b, some_b = (a, b) if is_none else (b, a)
            return f"match {lx} with\n| None =>\n{none_b}\n| Some {lname(x)} =>\n{some_b}\nend"
    else:
        c = cond(s.test, env)
        et, ef = env.copy(), env.copy()
        # `if not xs: <leave>`: xs is non-empty afterwards
        t = s.test
        if isinstance(t, ast.UnaryOp) and isinstance(t.op, ast.Not) and isinstance(t.operand, ast.Name) and t.operand.id in env.params \
                and is_list(env.vars[t.operand.id][1]):
            ef.nonempty.add(t.operand.id)

        def render(a, b):
            return f"if {c} then\n{a}\nelse\n{b}"
    if escapes([s]):
        def after(e):
            return tr_block(rest, restrict_keep(e, env), k)
        a = tr_block(s.body, et, after)
        b = tr_block(s.orelse, ef, after)
        return render(a, b)
    ab, ao = assigned(s.body), assigned(s.orelse)
    mv = [v for v in env.vars if v in ab or v in ao]
    if not mv:
        fail("an `if` that neither leaves nor changes a variable defined before it", s)

    def kj(e):
        for v in mv:
            if v not in e.vars or e.vars[v][1] != env.vars[v][1]:
                fail(f"`{v}` does not keep its type on every path", s)
        return f"Ok {state_tuple(mv)}"

    a = tr_block(s.body, et, kj)
    b = tr_block(s.orelse, ef, kj)
    e1 = env.copy()
    return f"bind ({render(a, b)}) (fun {state_pat(mv)} =>\n{tr_block(rest, e1, k)})"


def restrict_keep(e, env0):
    """after a branch of an `if` with escapes: variables bound on this path stay visible on this path (the rest of the block is
    continued separately per path), the narrowing of an Optional does not"""
    r = e.copy()
    for v in env0.vars:
        if v in r.vars and r.vars[v][1] != env0.vars[v][1]:
            r.vars[v] = env0.vars[v]
        if v not in r.vars:
            r.vars[v] = env0.vars[v]
    r.known = dict(env0.known)
    return r


def iter_of(it, env, ctx, node):
    """-> (Coq list term, element type, kind)"""
    if isinstance(it, ast.Call) and isinstance(it.func, ast.Name) and it.func.id == "range" and "range" not in env.vars:
        if len(it.args) != 1 or it.keywords:
            fail("range form", node)
        n = tr(it.args[0], env, ctx)
        if n.ty != NAT:
            fail(f"range of a {show(n.ty)}", node)
        return f"seq 0 {paren(n.term)}", NAT, "range"
    if isinstance(it, ast.Call) and isinstance(it.func, ast.Name) and it.func.id == "enumerate" and "enumerate" not in env.vars:
        if len(it.args) != 1 or it.keywords:
            fail("enumerate form", node)
        t, ty, kd = iter_of(it.args[0], env, ctx, node)
        if kd != "list":
            fail("enumerate of something that is not a list", node)
        return f"combine (seq 0 (length {paren(t)})) {paren(t)}", tup(NAT, ty), "enumerate"
    e = tr(it, env, ctx)
    if not is_list(e.ty):
        fail(f"loop over a {show(e.ty)}", node)
    return e.term, e.ty[1], "list"


def tr_for(s, rest, env, k):
    fn = env.fn
    if s.orelse:
        fail("for ... else", s)
    ctx = []
    it, ety, kind = iter_of(s.iter, env, ctx, s)
    ab = assigned(s.body)
    if isinstance(s.target, ast.Name):
        names, tys, pat = [s.target.id], [ety], lname(s.target.id)
    elif isinstance(s.target, ast.Tuple) and all(isinstance(x, ast.Name) for x in s.target.elts) and isinstance(ety, tuple) \
            and ety[0] == "tuple" and len(ety) - 1 == len(s.target.elts):
        names, tys = [x.id for x in s.target.elts], list(ety[1:])
        pat = "'(" + ", ".join(lname(n) for n in names) + ")"
    else:
        fail("loop target form", s)
    benv = env.copy()
    for n, ty in zip(names, tys):
        if n in ab:
            fail(f"loop variable `{n}` is assigned in the body", s)
        if n in env.vars and n != "_":
            fail(f"loop variable `{n}` shadows an existing name", s)
        benv.vars[n] = (lname(n), ty)
        benv.made.discard(n)
    for v in ab:
        if v in env.params:
            fail(f"parameter `{v}` is changed in a loop", s)
    for n in ast.walk(s.iter):
        if isinstance(n, ast.Name) and n.id in ab:
            fail(f"`{n.id}` is iterated and changed in the same loop", s)
    state = [v for v in env.vars if v in ab]
    if not state:
        fail("a loop that changes no variable defined before it", s)
    has_break = own_breaks(s.body)

    def end(flag):
        def f(e):
            for v in state:
                if v not in e.vars or e.vars[v][1] != env.vars[v][1]:
                    fail(f"`{v}` does not keep its type in the loop", s)
                if v in env.made and v not in e.made:
                    fail(f"`{v}` stops being a list owned by the function inside the loop", s)
            return f"Ok ({flag}, {state_tuple(state)})" if has_break else f"Ok {state_tuple(state)}"
        return f

    benv.loop = (end("false"), end("true") if has_break else None)
    body = tr_block(s.body, benv, benv.loop[0])
    sty = state_type(state, env)
    fn.found.append((kind + ("+break" if has_break else ""), tuple(show(env.vars[v][1]) for v in state)))
    e1 = env.copy()
    after = tr_block(rest, e1, k)
    st = state_tuple(state)
    if has_break:
        loop = (f"fold_left (fun (st_ : res (bool * {sty})) {pat} => bind st_ (fun '(brk_, {st}) =>\nif brk_ then Ok (true, {st}) else\n{body}))\n"
                f"({it}) (Ok (false, {st}))")
        return wrap(ctx, f"bind ({loop}) (fun '(_, {st}) =>\n{after})")
    loop = (f"fold_left (fun (st_ : res {sty}) {pat} => bind st_ (fun {state_pat(state)} =>\n{body}))\n"
            f"({it}) (Ok {st})")
    return wrap(ctx, f"bind ({loop}) (fun {state_pat(state)} =>\n{after})")


# =============================================================================================
# one function
# =============================================================================================
def parse(repo, rel):
    path = os.path.join(repo, PKG, rel)
    with open(path) as f:
        return ast.parse(f.read(), filename=path)


def find_def(tree, cls, func):
    body = tree.body
    if cls is not None:
        cs = [n for n in body if isinstance(n, ast.ClassDef) and n.name == cls]
        if len(cs) != 1:
            fail(f"class {cls} not found")
        body = cs[0].body
    fs = [n for n in body if isinstance(n, ast.FunctionDef) and n.name == func
          and not any(ast.unparse(d) == "overload" for d in n.decorator_list)]
    if len(fs) != 1:
        fail(f"function {func} not found" + (f" in {cls}" if cls else ""))
    return fs[0]


def check_signature(tree, cls, func, expected):
    """expected: [(name, default source | None)] without self"""
    f = find_def(tree, cls, func)
    a = f.args
    if a.vararg or a.kwarg or a.kwonlyargs or a.posonlyargs:
        fail(f"{func}: parameter list form")
    names = [x.arg for x in a.args if x.arg != "self"]
    defaults = [None] * (len(names) - len(a.defaults)) + [ast.unparse(d) for d in a.defaults]
    if list(zip(names, defaults)) != list(expected):
        fail(f"the signature of {func} changed: {list(zip(names, defaults))} (the vocabulary expects {list(expected)})")


def translate_function(fn, repo, trees):
    def tree_of(rel):
        if rel not in trees:
            trees[rel] = parse(repo, rel)
        return trees[rel]

    f = find_def(tree_of(RESULT_PY), None, fn.func)
    for spec in fn.calls.values():
        if spec.sig is not None:
            check_signature(tree_of(spec.sig[0]), spec.sig[1], spec.sig[2], spec.sig[3])
    fn.counter, fn.found = 0, []
    body = list(f.body)
    if body and isinstance(body[0], ast.Expr) and isinstance(body[0].value, ast.Constant) and isinstance(body[0].value.value, str):
        body = body[1:]
    for st in body:
        for n in ast.walk(st):
            if isinstance(n, (ast.While, ast.Try, ast.With, ast.Lambda, ast.NamedExpr, ast.Global, ast.Nonlocal, ast.Delete,
                              ast.Yield, ast.YieldFrom, ast.Await, ast.FunctionDef, ast.ClassDef, ast.ListComp, ast.GeneratorExp,
                              ast.DictComp, ast.SetComp)):
                fail(f"unsupported construct {type(n).__name__}", n)
    a = f.args
    if a.kwonlyargs or a.posonlyargs or a.vararg or a.kwarg:
        fail("parameter list form")
    pynames = [x.arg for x in a.args]
    if pynames != list(fn.penv):
        fail(f"parameters changed: {pynames} (expected {list(fn.penv)})")
    env = Env(fn)
    for p in pynames:
        env.vars[p] = fn.penv[p]
        env.params.add(p)
    term = tr_block(body, env, None)
    if fn.found != fn.loops:
        def shw(ls):
            return "; ".join(f"{kd} over ({', '.join(ts)})" for kd, ts in ls) or "none"
        fail(f"the loops of the function ({shw(fn.found)}) are not the ones its equation is proved for ({shw(fn.loops)})")
    return "\n".join([f"Module Gen_{fn.name}.", f"(* {RESULT_PY}: {fn.func} *)",
                      f"Definition f {fn.params} : res {paren(cty(fn.ret))} :=\n{term}.", f"End Gen_{fn.name}."])


# =============================================================================================
# the functions and their vocabularies
# =============================================================================================
FACTS = "(est_frame gt_frame : nat -> nat) (thr thr_est : nat -> option Q) (value : Matching.Mode -> nat -> nat -> option Q) (okf : nat -> nat -> bool)"
FACT_ARGS = "est_frame gt_frame thr thr_est value okf"
MODES = {"MatchingMode.CENTERDISTANCE": ("Matching.CENTERDISTANCE", MODE), "MatchingMode.PLANEDISTANCE": ("Matching.PLANEDISTANCE", MODE),
         "MatchingMode.IOU2D": ("Matching.IOU2D", MODE), "MatchingMode.IOU3D": ("Matching.IOU3D", MODE),
         # the class implementing a mode is rendered as that mode (its `value` / `is_better_than` facts are indexed by it)
         "CenterDistanceMatching": ("Matching.CENTERDISTANCE", MODE), "PlaneDistanceMatching": ("Matching.PLANEDISTANCE", MODE),
         "IOU2dMatching": ("Matching.IOU2D", MODE), "IOU3dMatching": ("Matching.IOU3D", MODE)}
NEW_RESULT = Call([("estimated_object", EST), ("ground_truth_object", opt(GT)), ("matching_label_policy", opaque("matching_label_policy")),
                   ("transforms", opaque("transforms"))],
                  "({estimated_object}, {ground_truth_object})", RESULT, defaults={"matching_label_policy": None, "transforms": None},
                  sig=(RESULT_PY, "DynamicObjectWithPerceptionResult", "__init__",
                       [("estimated_object", None), ("ground_truth_object", None), ("matching_label_policy", "MatchingLabelPolicy.DEFAULT"),
                        ("transforms", "None")]))


def specs():
    S = []
    # ---- _get_matching_module: the class implementing the mode (rendered as the mode) and the direction ----------------------------
    S.append(Fn("_get_matching_module", "_get_matching_module", "(l_matching_mode : Matching.Mode)",
                {"matching_mode": ("l_matching_mode", MODE)}, tup(MODE, BOOL), consts=MODES))
    # ---- _get_fp_object_results ------------------------------------------------------------------------------------------------------
    S.append(Fn("_get_fp_object_results", "_get_fp_object_results", "(l_estimated_objects : list nat)",
                {"estimated_objects": ("l_estimated_objects", ESTS)}, RESULTS,
                calls={"DynamicObjectWithPerceptionResult": NEW_RESULT}, loops=[("list", ("list(result)",))]))
    # ---- _get_score_table --------------------------------------------------------------------------------------------------------------
    OP = {n: ("tt", opaque(n)) for n in ("matching_label_policy", "target_labels", "matchable_thresholds", "transforms", "uuid_matching_first")}
    S.append(Fn("_get_score_table", "_get_score_table",
                FACTS + " (l_estimated_objects l_ground_truth_objects : list nat) (l_matching_method_module : Matching.Mode)",
                {"estimated_objects": ("l_estimated_objects", ESTS), "ground_truth_objects": ("l_ground_truth_objects", GTS),
                 "matching_label_policy": OP["matching_label_policy"], "matching_method_module": ("l_matching_method_module", MODE),
                 "target_labels": OP["target_labels"], "matchable_thresholds": OP["matchable_thresholds"], "transforms": OP["transforms"]},
                TBL2,
                calls={"get_label_threshold":
                       Call([("semantic_label", [GLABEL, ELABEL]), ("target_labels", opaque("target_labels")),
                             ("threshold_list", opaque("matchable_thresholds"))], None, opt(THR),
                            by_type={(GLABEL,): "thr {semantic_label}", (ELABEL,): "thr_est {semantic_label}"},
                            sig=("common/threshold.py", None, "get_label_threshold",
                                 [("semantic_label", None), ("target_labels", None), ("threshold_list", None)])),
                       # <Mode>Matching(estimated_object, ground_truth_object, transforms): the method object is (mode, est, gt)
                       "<mode>()": Call([("estimated_object", EST), ("ground_truth_object", GT), ("transforms", opaque("transforms"))],
                                        "({self}, {estimated_object}, {ground_truth_object})", METH),
                       "<meth>.is_better_than": Call([("threshold_value", THR)], "meth_better value {self} {threshold_value}", BOOL),
                       "matching_label_policy.is_matchable":
                       Call([("estimation", EST), ("ground_truth", GT)], "okf {estimation} {ground_truth}", BOOL,
                            sig=("evaluation/matching/object_matching.py", "MatchingLabelPolicy", "is_matchable",
                                 [("estimation", None), ("ground_truth", None)]))},
                loops=[("enumerate", ("tbl2",)), ("enumerate", ("tbl2",))]))
    # ---- get_object_results ----------------------------------------------------------------------------------------------------------------
    facts = {
        "isinstance(estimated_objects[0], DynamicObject2D)": ("is2d", BOOL, False),
        "estimated_objects[0].roi is None": ("est_noroi", BOOL, False),
        "ground_truth_objects[0].roi is None": ("gt_noroi", BOOL, False),
        "isinstance(estimated_objects[0].semantic_label.label, TrafficLightLabel)": ("tlr", BOOL, False),
        "evaluation_task.is_fp_validation()": ("fpv", BOOL, False),
        "_get_object_results_for_tlr(estimated_objects, ground_truth_objects, uuid_matching_first)": ("r_tlr", RESULTS, True),
        "_get_object_results_with_id(estimated_objects, ground_truth_objects)": ("r_id", RESULTS, True),
    }
    S.append(Fn("get_object_results", "get_object_results",
                "(fpv is2d est_noroi gt_noroi tlr : bool) (r_tlr r_id : res (list (nat * option nat))) " + FACTS
                + " (l_estimated_objects l_ground_truth_objects : list nat) (l_matching_mode : Matching.Mode)",
                {"evaluation_task": ("tt", opaque("evaluation_task")), "estimated_objects": ("l_estimated_objects", ESTS),
                 "ground_truth_objects": ("l_ground_truth_objects", GTS), "target_labels": OP["target_labels"],
                 "matching_label_policy": OP["matching_label_policy"], "matching_mode": ("l_matching_mode", MODE),
                 "matchable_thresholds": OP["matchable_thresholds"], "transforms": OP["transforms"],
                 "uuid_matching_first": OP["uuid_matching_first"]},
                RESULTS, facts=facts,
                asserts=("isinstance(ground_truth_objects[0], type(estimated_objects[0]))",),
                calls={"DynamicObjectWithPerceptionResult": NEW_RESULT,
                       "_get_matching_module": Call([("matching_mode", MODE)], "Gen__get_matching_module.f {matching_mode}", tup(MODE, BOOL),
                                                    eff=True, sig=(RESULT_PY, None, "_get_matching_module", [("matching_mode", None)])),
                       "_get_fp_object_results": Call([("estimated_objects", ESTS)], "Gen__get_fp_object_results.f {estimated_objects}", RESULTS,
                                                      eff=True, sig=(RESULT_PY, None, "_get_fp_object_results", [("estimated_objects", None)])),
                       "_get_score_table":
                       Call([("estimated_objects", ESTS), ("ground_truth_objects", GTS), ("matching_label_policy", opaque("matching_label_policy")),
                             ("matching_method_module", MODE), ("target_labels", opaque("target_labels")),
                             ("matchable_thresholds", opaque("matchable_thresholds")), ("transforms", opaque("transforms"))],
                            "Gen__get_score_table.f " + FACT_ARGS + " {estimated_objects} {ground_truth_objects} {matching_method_module}",
                            TBL2, eff=True,
                            sig=(RESULT_PY, None, "_get_score_table",
                                 [(n, None) for n in ("estimated_objects", "ground_truth_objects", "matching_label_policy",
                                                      "matching_method_module", "target_labels", "matchable_thresholds", "transforms")]))},
                loops=[("range+break", ("tbl2", "tbl", "list(result)", "list(est)", "list(gt)")),
                       ("range+break", ("list(result)", "list(est)", "list(gt)", "tbl"))],
                needs=("_get_matching_module", "_get_fp_object_results", "_get_score_table")))
    return S


HEADER = """(* GENERATED by translator/loops_matcher.py from the Python source of /repo on every run -- do not edit.
   Part 1 (fixed text): exceptions, the error monad, the numpy / list vocabulary over `tbl A` = list of rows (NaN = None).
   Part 2: one module per function, `f` = its body.  Props/GenTieMatcher.v proves each `f` equal to the hand model (Model/Matching.v). *)
From Coq Require Import List Bool Arith QArith.
From PE Require Import Base.QUtil.
From PE Require Model.Matching.
Import ListNotations.
Open Scope Q_scope.

(* ---- results: a value, or the class of the exception.  ShapeError is not a Python exception: it marks the one thing this rendering
   cannot represent (the column count of a table that has no rows); the equations prove that it is never reached *)
Inductive exn := IndexError | ValueError | ShapeError.
Inductive res (A : Type) : Type := Ok (a : A) | Err (e : exn).
Arguments Ok {A} a.
Arguments Err {A} e.
Definition bind {A B} (r : res A) (f : A -> res B) : res B := match r with Ok a => f a | Err e => Err e end.

(* ---- lists *)
Definition list_is_empty {A} (l : list A) : bool := match l with [] => true | _ => false end.      (* `not xs` *)
Fixpoint remove_nth {A} (l : list A) (i : nat) : option (list A) :=                                 (* None: index out of range *)
  match l, i with
  | [], _ => None
  | _ :: t, O => Some t
  | x :: t, S k => match remove_nth t k with Some t' => Some (x :: t') | None => None end
  end.
Fixpoint list_set {A} (l : list A) (i : nat) (v : A) : option (list A) :=
  match l, i with
  | [], _ => None
  | _ :: t, O => Some (v :: t)
  | x :: t, S k => match list_set t k v with Some t' => Some (x :: t') | None => None end
  end.
Definition list_pop {A} (l : list A) (i : nat) : res (A * list A) :=                                (* x = xs.pop(i), i >= 0 *)
  match nth_error l i, remove_nth l i with
  | Some x, Some l' => Ok (x, l')
  | _, _ => Err IndexError
  end.

(* ---- numpy: a 2-D array is the list of its rows; a float cell is `option Q` with NaN = None *)
Definition tbl (A : Type) : Type := list (list A).
Definition np_full2 {A} (n m : nat) (c : A) : tbl A := repeat (repeat c m) n.                      (* np.full((n, m, ..), c) *)
Definition np_setitem2 {A} (t : tbl A) (i j : nat) (c : A) : res (tbl A) :=                        (* t[i, j] = c, i, j >= 0 *)
  match nth_error t i with
  | None => Err IndexError
  | Some row =>
      match list_set row j c with
      | None => Err IndexError
      | Some row' => match list_set t i row' with Some t' => Ok t' | None => Err IndexError end
      end
  end.
Definition np_last0 {A B} (t : tbl (A * B)) : tbl A := map (map fst) t.                             (* t[..., 0] *)
Definition np_last1 {A B} (t : tbl (A * B)) : tbl B := map (map snd) t.                             (* t[..., 1] *)
(* np.where(mask, t, np.nan) for arrays of the same shape (the flag is stored as the float 0.0 / 1.0: non-zero = True) *)
Definition np_where_nan (mask : tbl bool) (t : tbl (option Q)) : tbl (option Q) :=
  map (fun mr : list bool * list (option Q) =>
         map (fun bc : bool * option Q => if fst bc then snd bc else None) (combine (fst mr) (snd mr))) (combine mask t).
Definition is_nan (c : option Q) : bool := match c with None => true | Some _ => false end.
Definition np_isnan_all (t : tbl (option Q)) : bool := forallb (forallb is_nan) t.                  (* np.isnan(t).all(); True when empty *)
Definition np_isnan_any (t : tbl (option Q)) : bool := existsb (existsb is_nan) t.                  (* np.isnan(t).any() *)
(* np.nanargmin / np.nanargmax: index, in the flattened (row-major) array, of the FIRST occurrence of the smallest / largest
   non-NaN value; ValueError("All-NaN slice encountered") when there is none *)
Fixpoint nanarg_from (lt : Q -> Q -> bool) (l : list (option Q)) (pos : nat) (best : option (Q * nat)) : option (Q * nat) :=
  match l with
  | [] => best
  | None :: r => nanarg_from lt r (S pos) best
  | Some s :: r =>
      nanarg_from lt r (S pos)
        (match best with
         | None => Some (s, pos)
         | Some (sb, _) => if lt s sb then Some (s, pos) else best
         end)
  end.
Definition np_nanarg (lt : Q -> Q -> bool) (t : tbl (option Q)) : res nat :=
  match nanarg_from lt (concat t) 0 None with Some (_, k) => Ok k | None => Err ValueError end.
Definition np_nanargmin (t : tbl (option Q)) : res nat := np_nanarg (fun a b => Qltb a b) t.
Definition np_nanargmax (t : tbl (option Q)) : res nat := np_nanarg (fun a b => Qltb b a) t.
Definition np_shape2 {A} (t : tbl A) : res (nat * nat) :=                                           (* t.shape of a table WITH rows *)
  match t with [] => Err ShapeError | r :: _ => Ok (length t, length r) end.
Definition np_unravel_index (k : nat) (sh : nat * nat) : res (nat * nat) :=
  if Nat.ltb k (fst sh * snd sh) then Ok (Nat.div k (snd sh), Nat.modulo k (snd sh)) else Err ValueError.
Definition np_delete0 {A} (t : tbl A) (i : nat) : res (tbl A) :=                                    (* np.delete(t, i, axis=0), i >= 0 *)
  match remove_nth t i with Some t' => Ok t' | None => Err IndexError end.
Fixpoint np_delete1 {A} (t : tbl A) (j : nat) : res (tbl A) :=                                      (* np.delete(t, j, axis=1), j >= 0 *)
  match t with
  | [] => Ok []
  | r :: rest =>
      match remove_nth r j with
      | None => Err IndexError
      | Some r' => bind (np_delete1 rest j) (fun rest' => Ok (r' :: rest'))
      end
  end.

(* ---- facts: the matching-method object <Mode>Matching(est, gt) is (mode, est, gt); `.value` is the fact `value` (None: the value
   is None / NaN); `.is_better_than(t)` is Matching.better in the direction of the class, False for a value of None
   (Props/GenTie.v: GenTie_*_is_better_than, GenTie_is_better_than_other_models) *)
Definition meth_value (value : Matching.Mode -> nat -> nat -> option Q) (m : Matching.Mode * nat * nat) : option Q :=
  value (fst (fst m)) (snd (fst m)) (snd m).
Definition meth_better (value : Matching.Mode -> nat -> nat -> option Q) (m : Matching.Mode * nat * nat) (t : Q) : bool :=
  match meth_value value m with
  | None => false
  | Some s => Matching.better (Matching.maximize_of (fst (fst m))) s t
  end.
Definition mode_eqb (a b : Matching.Mode) : bool :=
  match a, b with
  | Matching.CENTERDISTANCE, Matching.CENTERDISTANCE | Matching.PLANEDISTANCE, Matching.PLANEDISTANCE
  | Matching.IOU2D, Matching.IOU2D | Matching.IOU3D, Matching.IOU3D => true
  | _, _ => false
  end.
"""


def generate(repo):
    """-> (text, {function: why-not-translated})"""
    trees, out, bad, done = {}, [HEADER], {}, []
    for fn in specs():
        try:
            missing = [n for n in fn.needs if n not in done]
            if missing:
                fail("depends on " + ", ".join(missing) + " (not translated)")
            txt = translate_function(fn, repo, trees)
        except (TranslatorError, SyntaxError, OSError, RecursionError) as e:
            bad[fn.name] = f"{type(e).__name__}: {e}" if not isinstance(e, TranslatorError) else str(e)
            out.append(f"(* {fn.name}: not translated: {bad[fn.name].replace('*)', '* )').replace('(*', '( *')} *)\n")
            continue
        except Exception as e:  # noqa: BLE001  -- a defect of the translator itself must not look like a translation
            bad[fn.name] = f"internal error {type(e).__name__}: {e}"
            out.append(f"(* {fn.name}: not translated: {bad[fn.name].replace('*)', '* )').replace('(*', '( *')} *)\n")
            continue
        done.append(fn.name)
        out.append(txt + "\n")
    out.append("From Coq Require Import String.\nOpen Scope string_scope.")
    out.append("Definition translated : list string := [" + "; ".join(coq_str(n) for n in done) + "].")
    return "\n".join(out) + "\n", bad


def regenerate(repo, outdir):
    """Write <outdir>/loops_matcher.v (only when the content changes).  {"loops_matcher.v": None} when every function was translated,
    else {"loops_matcher.v": "partial: f1: not translated: why; ..."}."""
    os.makedirs(outdir, exist_ok=True)
    txt, bad = generate(repo)
    fname = MODNAME + ".v"
    path = os.path.join(outdir, fname)
    old = None
    if os.path.exists(path):
        with open(path) as fh:
            old = fh.read()
    if old != txt:
        with open(path, "w") as fh:
            fh.write(txt)
    if not bad:
        return {fname: None}
    return {fname: "partial: " + "; ".join(f"{k}: not translated: {v}" for k, v in bad.items())}


if __name__ == "__main__":
    repo_ = sys.argv[1] if len(sys.argv) > 1 else "/repo"
    outdir_ = sys.argv[2] if len(sys.argv) > 2 else os.path.join(HERE, "..", "coq", "theories", "Gen")
    try:
        st = regenerate(repo_, outdir_)
    except OSError as e_:
        print(f"{MODNAME}.v: could not be written: {e_}")
        sys.exit(1)
    for k_, v_ in st.items():
        print(f"{k_}: {'ok' if v_ is None else v_}")
    sys.exit(0)
