#!/usr/bin/env python3
"""Translator: Python source of perception_eval -> Coq (Gen/*.v).

Fail-closed: every construct outside the recognised shapes raises TranslatorError, which the
check treats as a broken tie (never as a pass).  Only `ast` is used; the code is never imported.

Generated files
  Gen/Enums.v        members + parser shapes of the six configuration enums (C20, C18)
  Gen/LabelTables.v  label enums, name tables and the shape of the two lookup loops (C14)
  Gen/ConfigTables.v supported-task lists, is_3d / is_fp_validation member sets (C15)
"""
import ast
import os
import sys

PKG = "perception_eval/perception_eval"


class TranslatorError(Exception):
    pass


def fail(msg, node=None):
    loc = f" (line {node.lineno})" if node is not None and hasattr(node, "lineno") else ""
    raise TranslatorError(msg + loc)


def coq_str(s):
    if not isinstance(s, str):
        fail(f"not a string literal: {s!r}")
    if any(ord(c) > 126 or ord(c) < 32 for c in s):
        fail(f"non printable-ASCII string literal {s!r}")
    return '"' + s.replace('"', '""') + '"'


def coq_list(items, indent="  "):
    if not items:
        return "[]"
    return "[\n" + ";\n".join(indent + "  " + i for i in items) + "\n" + indent + "]"


class _DropNoOps(ast.NodeTransformer):
    """Statements that cannot influence a value are dropped before the shapes are matched, so that a log line, a `print`, a
    `warnings.warn`, a stray docstring-like string, a `pass` or an `assert isinstance(...)` added to the source is not mistaken for a
    change of the translated logic (the translator stays fail-closed for everything else)."""

    @staticmethod
    def _noop(stmt):
        if isinstance(stmt, ast.Pass):
            return True
        if isinstance(stmt, ast.Expr):
            v = stmt.value
            if isinstance(v, ast.Constant) and isinstance(v.value, str):
                return False          # docstrings are handled by strip_doc (position matters there)
            if isinstance(v, ast.Call):
                # only calls whose arguments cannot have an effect of their own (no nested call, no walrus)
                for a in list(v.args) + [k.value for k in v.keywords]:
                    if any(isinstance(n, (ast.Call, ast.NamedExpr, ast.Await, ast.Yield, ast.YieldFrom)) for n in ast.walk(a)):
                        return False
                f = v.func
                if isinstance(f, ast.Name) and f.id == "print":
                    return True
                if isinstance(f, ast.Attribute) and isinstance(f.value, ast.Name) and f.value.id in ("logging", "logger", "warnings", "LOGGER", "log"):
                    return True
        if isinstance(stmt, ast.Assert):
            t = stmt.test
            if isinstance(t, ast.Call) and isinstance(t.func, ast.Name) and t.func.id == "isinstance":
                return True
        return False

    def _clean(self, body):
        out = [s for s in body if not self._noop(s)]
        return out if out or not body else [ast.Pass()]

    def generic_visit(self, node):
        super().generic_visit(node)
        for fld in ("body", "orelse", "finalbody"):
            b = getattr(node, fld, None)
            if isinstance(b, list) and b and all(isinstance(x, ast.stmt) for x in b):
                nb = self._clean(b)
                if fld != "body" and nb and all(isinstance(x, ast.Pass) for x in nb):
                    nb = []
                setattr(node, fld, nb)
        return node


def parse(repo, rel):
    path = os.path.join(repo, PKG, rel)
    with open(path) as f:
        src = f.read()
    return _DropNoOps().visit(ast.parse(src, filename=path))


def find_class(tree, name):
    for n in tree.body:
        if isinstance(n, ast.ClassDef) and n.name == name:
            return n
    fail(f"class {name} not found")


def find_func(body, name):
    for n in body:
        if isinstance(n, ast.FunctionDef) and n.name == name:
            return n
    return None


def strip_doc(body):
    body = list(body)
    if body and isinstance(body[0], ast.Expr) and isinstance(body[0].value, ast.Constant) and isinstance(body[0].value.value, str):
        body = body[1:]
    return body


def is_logging(stmt):
    return (
        isinstance(stmt, ast.Expr)
        and isinstance(stmt.value, ast.Call)
        and isinstance(stmt.value.func, ast.Attribute)
        and isinstance(stmt.value.func.value, ast.Name)
        and stmt.value.func.value.id == "logging"
    )


def d(node):
    # contexts (Load/Store) are irrelevant for shape matching
    return ast.dump(node).replace("ctx=Store()", "ctx=Load()")


def dump_eq(node, src):
    """node's dump equals the dump of expression `src`."""
    return d(node) == d(ast.parse(src, mode="eval").body)


# ---------------------------------------------------------------------------------------------
# enums
# ---------------------------------------------------------------------------------------------
def enum_members(cls):
    if not any(isinstance(b, ast.Name) and b.id == "Enum" for b in cls.bases):
        fail(f"{cls.name} is not an Enum", cls)
    out = []
    for n in cls.body:
        if isinstance(n, ast.Assign):
            if len(n.targets) != 1 or not isinstance(n.targets[0], ast.Name):
                fail("unrecognised assignment in enum body", n)
            if not (isinstance(n.value, ast.Constant) and isinstance(n.value.value, str)):
                fail(f"enum member {n.targets[0].id} is not a string constant", n)
            out.append((n.targets[0].id, n.value.value))
        elif isinstance(n, (ast.FunctionDef, ast.Expr)):
            continue
        else:
            fail("unrecognised statement in enum body", n)
    if not out:
        fail(f"{cls.name} has no members", cls)
    return out


def has_str_eq(cls):
    """True iff the enum overrides __eq__ so that `member == "text"` compares the value."""
    f = find_func(cls.body, "__eq__")
    if f is None:
        return False
    if len(f.args.args) != 2:
        fail("__eq__ arity", f)
    o = f.args.args[1].arg
    body = strip_doc(f.body)
    form1 = ast.parse(
        f"if isinstance({o}, str):\n    return self.value == {o}\nreturn super().__eq__({o})"
    ).body
    form2 = ast.parse(f"return self.value == {o} if isinstance({o}, str) else super().__eq__({o})").body
    if [d(s) for s in body] == [d(s) for s in form1] or [d(s) for s in body] == [d(s) for s in form2]:
        return True
    fail(f"unrecognised __eq__ in {cls.name}", f)


def parser_shape(func, clsname, str_eq, arg_index=1, self_enum=None):
    """Recognise a string->member parser; returns (pre, cmp, ret, miss)."""
    args = [a.arg for a in func.args.args]
    if len(args) != arg_index + 1:
        fail(f"{func.name}: unexpected arity", func)
    name = args[arg_index]
    body = [s for s in strip_doc(func.body) if not is_logging(s)]
    pre = "PreNone"
    if body and isinstance(body[0], ast.Assign):
        s = body[0]
        if d(s) == d(ast.parse(f"{name} = {name}.lower()").body[0]):
            pre = "PreLower"
        elif d(s) == d(ast.parse(f"{name} = {name}.upper()").body[0]):
            pre = "PreUpper"
        else:
            fail(f"{func.name}: unrecognised pre-processing", s)
        body = body[1:]
    if not body:
        fail(f"{func.name}: empty body", func)
    # Form B: assert name in cls.__members__ ; return cls.__members__[name]
    if isinstance(body[0], ast.Assert):
        if not dump_eq(body[0].test, f"{name} in cls.__members__"):
            fail(f"{func.name}: unrecognised assert", body[0])
        if len(body) != 2 or d(body[1]) != d(ast.parse(f"return cls.__members__[{name}]").body[0]):
            fail(f"{func.name}: unrecognised lookup", body[0])
        return (pre, "CmpKey", "RetMember", "MissRaise")
    loop = body[0]
    if not isinstance(loop, ast.For) or loop.orelse:
        fail(f"{func.name}: expected a for loop", loop)
    # iteration source
    if dump_eq(loop.iter, "cls.__members__.items()"):
        if not (isinstance(loop.target, ast.Tuple) and len(loop.target.elts) == 2 and all(isinstance(e, ast.Name) for e in loop.target.elts)):
            fail(f"{func.name}: loop target", loop)
        k, v = loop.target.elts[0].id, loop.target.elts[1].id
    elif self_enum is not None and dump_eq(loop.iter, self_enum):
        if not isinstance(loop.target, ast.Name):
            fail(f"{func.name}: loop target", loop)
        k, v = None, loop.target.id
    else:
        fail(f"{func.name}: unrecognised iteration", loop)
    if len(loop.body) != 1 or not isinstance(loop.body[0], ast.If) or loop.body[0].orelse:
        fail(f"{func.name}: loop body must be a single if", loop)
    iff = loop.body[0]
    t = iff.test
    cmpk = None
    cands = {
        "CmpEq": [f"{v} == {name}", f"{name} == {v}"],
        "CmpValue": [f"{v}.value == {name}", f"{name} == {v}.value"],
        "CmpValueLower": [f"{v}.value.lower() == {name}", f"{name} == {v}.value.lower()"],
    }
    if k is not None:
        cands["CmpKey"] = [f"{k} == {name}", f"{name} == {k}"]
    for ck, srcs in cands.items():
        if any(dump_eq(t, s) for s in srcs):
            cmpk = ck
    if cmpk is None:
        fail(f"{func.name}: unrecognised comparison {ast.unparse(t)}", t)
    if cmpk == "CmpEq":
        cmpk = "CmpValue" if str_eq else "CmpNever"
    if len(iff.body) != 1 or not isinstance(iff.body[0], ast.Return) or not isinstance(iff.body[0].value, ast.Name):
        fail(f"{func.name}: if body must return the loop variable", iff)
    r = iff.body[0].value.id
    if r == v:
        ret = "RetMember"
    elif k is not None and r == k:
        ret = "RetKey"
    else:
        fail(f"{func.name}: returns {r}", iff)
    tail = body[1:]
    if not tail:
        miss = "MissNone"
    elif len(tail) == 1 and isinstance(tail[0], ast.Raise):
        miss = "MissRaise"
    elif len(tail) == 1 and d(tail[0]) == d(ast.parse(f"return cls.from_alias({name})").body[0]):
        miss = "MissAlias"
    else:
        fail(f"{func.name}: unrecognised tail", tail[0])
    return (pre, cmpk, ret, miss)


def alias_table(func, clsname):
    """if name == "a": return Cls.X elif ... else: return Cls.Y"""
    args = [a.arg for a in func.args.args]
    if len(args) != 1:
        fail("from_alias arity", func)
    name = args[0]
    body = [s for s in strip_doc(func.body) if not is_logging(s)]
    if len(body) != 1 or not isinstance(body[0], ast.If):
        fail("from_alias: expected an if chain", func)
    table = []
    node = body[0]

    def member_of(stmts):
        stmts = [s for s in stmts if not is_logging(s)]
        if len(stmts) != 1 or not isinstance(stmts[0], ast.Return):
            fail("from_alias: branch must return a member", stmts[0] if stmts else func)
        v = stmts[0].value
        if not (isinstance(v, ast.Attribute) and isinstance(v.value, ast.Name) and v.value.id == clsname):
            fail("from_alias: branch must return a member", stmts[0])
        return v.attr

    while True:
        t = node.test
        if not (isinstance(t, ast.Compare) and len(t.ops) == 1 and isinstance(t.ops[0], ast.Eq)
                and isinstance(t.left, ast.Name) and t.left.id == name
                and isinstance(t.comparators[0], ast.Constant) and isinstance(t.comparators[0].value, str)):
            fail("from_alias: unrecognised test", t)
        table.append((t.comparators[0].value, member_of(node.body)))
        if len(node.orelse) == 1 and isinstance(node.orelse[0], ast.If):
            node = node.orelse[0]
            continue
        if not node.orelse:
            default = None
        else:
            default = member_of(node.orelse)
        break
    return table, default


def emit_enum(name, members, aliases=(), default=None):
    ms = coq_list([f"({coq_str(k)}, {coq_str(v)})" for k, v in members])
    al = coq_list([f"({coq_str(a)}, {coq_str(k)})" for a, k in aliases])
    df = f"Some {coq_str(default)}" if default is not None else "None"
    return f"Definition {name}_enum : enum := {{|\n  members := {ms};\n  aliases := {al};\n  alias_default := {df} |}}.\n"


def emit_parser(name, shape):
    pre, cmpk, ret, miss = shape
    return f"Definition {name} : parser := {{| p_pre := {pre}; p_cmp := {cmpk}; p_ret := {ret}; p_miss := {miss} |}}.\n"


def gen_enums(repo):
    out = [
        "(* GENERATED by translator/py_to_coq.py from /repo -- do not edit. *)",
        "From Coq Require Import String List.",
        "From PE Require Import Model.EnumParse.",
        "Import ListNotations.",
        "Open Scope string_scope.",
        "",
    ]
    # EvaluationTask
    t = parse(repo, "common/evaluation_task.py")
    c = find_class(t, "EvaluationTask")
    ms = enum_members(c)
    se = has_str_eq(c)
    out.append(emit_enum("EvaluationTask", ms))
    f = find_func(c.body, "from_value") or fail("EvaluationTask.from_value missing")
    out.append(emit_parser("EvaluationTask_from_value", parser_shape(f, "EvaluationTask", se)))
    f = find_func(t.body, "set_task") or fail("set_task missing")
    out.append(emit_parser("set_task", parser_shape(f, "EvaluationTask", se, arg_index=0, self_enum="EvaluationTask")))
    # member sets used by configuration code
    for meth in ("is_3d", "is_fp_validation"):
        f = find_func(c.body, meth) or fail(f"{meth} missing")
        body = strip_doc(f.body)
        if len(body) != 1 or not isinstance(body[0], ast.Return):
            fail(f"{meth}: unrecognised body", f)
        v = body[0].value
        if not (isinstance(v, ast.Compare) and len(v.ops) == 1 and isinstance(v.ops[0], ast.In)
                and dump_eq(v.left, "self") and isinstance(v.comparators[0], ast.Tuple)):
            fail(f"{meth}: unrecognised body", f)
        keys = []
        for e in v.comparators[0].elts:
            if not (isinstance(e, ast.Attribute) and isinstance(e.value, ast.Name) and e.value.id == "EvaluationTask"):
                fail(f"{meth}: element", e)
            keys.append(e.attr)
        out.append(f"Definition EvaluationTask_{meth} : list string := {coq_list([coq_str(k) for k in keys])}.\n")
    f = find_func(c.body, "is_2d") or fail("is_2d missing")
    if [d(s) for s in strip_doc(f.body)] != [d(ast.parse("return not self.is_3d()").body[0])]:
        fail("is_2d: unrecognised body", f)

    # schema enums
    t = parse(repo, "common/schema.py")
    c = find_class(t, "FrameID")
    out.append(emit_enum("FrameID", enum_members(c)))
    f = find_func(c.body, "from_value") or fail("FrameID.from_value missing")
    out.append(emit_parser("FrameID_from_value", parser_shape(f, "FrameID", has_str_eq(c))))
    out.append(f"Definition FrameID_str_eq : bool := {'true' if has_str_eq(c) else 'false'}.\n")

    c = find_class(t, "Visibility")
    f = find_func(c.body, "from_alias") or fail("Visibility.from_alias missing")
    al, df = alias_table(f, "Visibility")
    vm = enum_members(c)
    keys = [k for k, _ in vm]
    for _, k in al:
        if k not in keys:
            fail(f"alias target {k} is not a Visibility member")
    if df is not None and df not in keys:
        fail(f"alias default {df} is not a Visibility member")
    out.append(emit_enum("Visibility", vm, al, df))
    f = find_func(c.body, "from_value") or fail("Visibility.from_value missing")
    out.append(emit_parser("Visibility_from_value", parser_shape(f, "Visibility", has_str_eq(c))))

    c = find_class(t, "SensorModality")
    out.append(emit_enum("SensorModality", enum_members(c)))
    f = find_func(c.body, "from_value") or fail("SensorModality.from_value missing")
    out.append(emit_parser("SensorModality_from_value", parser_shape(f, "SensorModality", has_str_eq(c))))

    # shape
    t = parse(repo, "common/shape.py")
    c = find_class(t, "ShapeType")
    out.append(emit_enum("ShapeType", enum_members(c)))
    f = find_func(c.body, "from_value") or fail("ShapeType.from_value missing")
    out.append(emit_parser("ShapeType_from_value", parser_shape(f, "ShapeType", has_str_eq(c))))
    c = find_class(t, "Shape")
    f = find_func(c.body, "__init__") or fail("Shape.__init__ missing")
    body = strip_doc(f.body)
    want = ast.parse("if isinstance(shape_type, str):\n    shape_type = ShapeType.from_value(shape_type)").body[0]
    str_branch = any(d(s) == d(want) for s in body)
    assigns = [s for s in body if isinstance(s, ast.AnnAssign) and dump_eq(s.target, "self.type")]
    if len(assigns) != 1 or not dump_eq(assigns[0].value, "shape_type"):
        fail("Shape.__init__: self.type assignment not recognised", f)
    # nothing else may touch shape_type before the assignment
    for s in body:
        if s is assigns[0]:
            break
        if d(s) == d(want):
            continue
        for n in ast.walk(s):
            if isinstance(n, ast.Name) and n.id == "shape_type" and isinstance(n.ctx, ast.Store):
                fail("Shape.__init__: shape_type reassigned in an unrecognised way", s)
    out.append(f"Definition Shape_init_str_branch : bool := {'true' if str_branch else 'false'}.\n")

    # matching label policy
    t = parse(repo, "evaluation/matching/object_matching.py")
    c = find_class(t, "MatchingLabelPolicy")
    out.append(emit_enum("MatchingLabelPolicy", enum_members(c)))
    f = find_func(c.body, "from_str") or fail("MatchingLabelPolicy.from_str missing")
    out.append(emit_parser("MatchingLabelPolicy_from_str", parser_shape(f, "MatchingLabelPolicy", has_str_eq(c))))

    # transform key
    t = parse(repo, "common/transform.py")
    c = find_class(t, "TransformKey")
    f = find_func(c.body, "__init__") or fail("TransformKey.__init__ missing")
    body = strip_doc(f.body)
    got = {}
    for s in body:
        for fld in ("src", "dst"):
            tgt = s.target if isinstance(s, ast.AnnAssign) else (s.targets[0] if isinstance(s, ast.Assign) and len(s.targets) == 1 else None)
            if tgt is not None and dump_eq(tgt, f"self.{fld}"):
                if dump_eq(s.value, f"FrameID.from_value({fld}) if isinstance({fld}, str) else {fld}"):
                    got[fld] = True
                elif dump_eq(s.value, fld):
                    got[fld] = False
                else:
                    fail(f"TransformKey.__init__: unrecognised {fld}", s)
    if set(got) != {"src", "dst"}:
        fail("TransformKey.__init__: src/dst assignments not found", f)
    out.append(f"Definition TransformKey_init_str_branch : bool := {'true' if got['src'] and got['dst'] else 'false'}.\n")
    return "\n".join(out)


# ---------------------------------------------------------------------------------------------
# label tables
# ---------------------------------------------------------------------------------------------
def pair_list_literal(node, enum_name):
    if not isinstance(node, ast.List):
        fail("pair list is not a list literal", node)
    out = []
    for e in node.elts:
        if not (isinstance(e, ast.Tuple) and len(e.elts) == 2):
            fail("pair is not a 2-tuple", e)
        lab, nm = e.elts
        if not (isinstance(lab, ast.Attribute) and isinstance(lab.value, ast.Name) and lab.value.id == enum_name):
            fail("pair label is not a member of " + enum_name, e)
        if not (isinstance(nm, ast.Constant) and isinstance(nm.value, str)):
            fail("pair name is not a string literal", e)
        out.append((lab.attr, nm.value))
    return out


def eval_pairs(stmts, enum_name, cond_recogniser, cond_value, acc=None):
    """Symbolically run the table-building function for one value of its condition."""
    for s in stmts:
        if isinstance(s, ast.AnnAssign) and isinstance(s.target, ast.Name) and s.target.id == "pair_list":
            acc = pair_list_literal(s.value, enum_name)
        elif isinstance(s, ast.Assign) and len(s.targets) == 1 and isinstance(s.targets[0], ast.Name) and s.targets[0].id == "pair_list":
            acc = pair_list_literal(s.value, enum_name)
        elif isinstance(s, ast.AugAssign) and isinstance(s.target, ast.Name) and s.target.id == "pair_list" and isinstance(s.op, ast.Add):
            if acc is None:
                fail("pair_list += before assignment", s)
            acc = acc + pair_list_literal(s.value, enum_name)
        elif isinstance(s, ast.If):
            if not cond_recogniser(s.test):
                fail("unrecognised condition " + ast.unparse(s.test), s)
            acc = eval_pairs(s.body if cond_value else s.orelse, enum_name, cond_recogniser, cond_value, acc)
        elif isinstance(s, ast.Return):
            if not dump_eq(s.value, "pair_list"):
                fail("unrecognised return", s)
            if acc is None:
                fail("return before assignment", s)
            return ("ret", acc)
        else:
            fail("unrecognised statement in table function", s)
        if isinstance(acc, tuple) and acc and acc[0] == "ret":
            return acc
    return acc


def lookup_loop_shape(func, what):
    """Shape of convert_label / convert_name: (uses_lower, first_match, fallback_unknown)."""
    body = [s for s in strip_doc(func.body) if not is_logging(s)]
    name = func.args.args[1].arg
    if len(body) != 4:
        fail(f"{func.name}: unexpected number of statements", func)
    init, loop, fb, ret = body
    if not (isinstance(init, ast.AnnAssign) and dump_eq(init.target, "return_label") and dump_eq(init.value, "None")):
        fail(f"{func.name}: init", init)
    if not (isinstance(loop, ast.For) and dump_eq(loop.iter, "self.label_infos") and isinstance(loop.target, ast.Name) and not loop.orelse):
        fail(f"{func.name}: loop", loop)
    li = loop.target.id
    if len(loop.body) != 1 or not isinstance(loop.body[0], ast.If) or loop.body[0].orelse:
        fail(f"{func.name}: loop body", loop)
    iff = loop.body[0]
    if dump_eq(iff.test, f"{name}.lower() == {li}.name"):
        uses_lower = True
    elif dump_eq(iff.test, f"{name} == {li}.name"):
        uses_lower = False
    else:
        fail(f"{func.name}: comparison {ast.unparse(iff.test)}", iff)
    first_match = False
    assigned = False
    for s in iff.body:
        if is_logging(s):
            continue
        if isinstance(s, ast.If) and dump_eq(s.test, "self.count_label_number"):
            # counting / logging only: must not assign return_label or break
            for n in ast.walk(s):
                if isinstance(n, (ast.Break, ast.Return, ast.Continue)):
                    fail(f"{func.name}: control flow inside counting block", n)
                if isinstance(n, ast.Name) and n.id == "return_label" and isinstance(n.ctx, ast.Store):
                    fail(f"{func.name}: return_label assigned inside counting block", n)
            continue
        if isinstance(s, ast.Assign) and len(s.targets) == 1 and dump_eq(s.targets[0], "return_label"):
            if what == "label" and dump_eq(s.value, f"Label({li}.label, {name}, attributes)"):
                assigned = True
            elif what == "name" and dump_eq(s.value, f"{li}.label"):
                assigned = True
            else:
                fail(f"{func.name}: assignment", s)
            continue
        if isinstance(s, ast.Break):
            if not assigned:
                fail(f"{func.name}: break before assignment", s)
            first_match = True
            continue
        fail(f"{func.name}: unrecognised statement in match branch", s)
    if not assigned:
        fail(f"{func.name}: no assignment in match branch", iff)
    if not (isinstance(fb, ast.If) and dump_eq(fb.test, "return_label is None") and not fb.orelse):
        fail(f"{func.name}: fallback", fb)
    fbb = [s for s in fb.body if not is_logging(s)]
    if len(fbb) != 1 or not isinstance(fbb[0], ast.Assign) or not dump_eq(fbb[0].targets[0], "return_label"):
        fail(f"{func.name}: fallback body", fb)
    v = fbb[0].value
    if what == "label" and dump_eq(v, f"Label(self.label_type.UNKNOWN, {name}, attributes)"):
        pass
    elif what == "name" and dump_eq(v, "self.label_type.UNKNOWN"):
        pass
    else:
        fail(f"{func.name}: fallback value {ast.unparse(v)}", fb)
    if not (isinstance(ret, ast.Return) and dump_eq(ret.value, "return_label")):
        fail(f"{func.name}: return", ret)
    return uses_lower, first_match


def gen_labels(repo):
    t = parse(repo, "common/label.py")
    out = [
        "(* GENERATED by translator/py_to_coq.py from /repo -- do not edit. *)",
        "From Coq Require Import String List.",
        "Import ListNotations.",
        "Open Scope string_scope.",
        "",
    ]
    for en in ("AutowareLabel", "TrafficLightLabel"):
        ms = enum_members(find_class(t, en))
        out.append(f"Definition {en}_members : list (string * string) := {coq_list([f'({coq_str(k)}, {coq_str(v)})' for k, v in ms])}.\n")
        if "UNKNOWN" not in [k for k, _ in ms]:
            fail(f"{en} has no UNKNOWN member")

    f = find_func(t.body, "_get_autoware_pairs") or fail("_get_autoware_pairs missing")
    arg = f.args.args[0].arg
    rec = lambda test: isinstance(test, ast.Name) and test.id == arg
    for val, nm in ((True, "autoware_pairs_merge"), (False, "autoware_pairs_nomerge")):
        r = eval_pairs(strip_doc(f.body), "AutowareLabel", rec, val)
        if not (isinstance(r, tuple) and r[0] == "ret"):
            fail("_get_autoware_pairs does not return")
        out.append(f"Definition {nm} : list (string * string) := {coq_list([f'({coq_str(k)}, {coq_str(v)})' for k, v in r[1]])}.\n")

    f = find_func(t.body, "_get_traffic_light_paris") or fail("_get_traffic_light_paris missing")
    arg = f.args.args[0].arg
    cond_tasks = []

    def rec2(test):
        if (isinstance(test, ast.Compare) and len(test.ops) == 1 and isinstance(test.ops[0], ast.Eq)
                and isinstance(test.left, ast.Name) and test.left.id == arg):
            c = test.comparators[0]
            if isinstance(c, ast.Attribute) and isinstance(c.value, ast.Name) and c.value.id == "EvaluationTask":
                cond_tasks.append(c.attr)
                return True
        return False

    for val, nm in ((True, "traffic_light_pairs_classification"), (False, "traffic_light_pairs_other")):
        r = eval_pairs(strip_doc(f.body), "TrafficLightLabel", rec2, val)
        if not (isinstance(r, tuple) and r[0] == "ret"):
            fail("_get_traffic_light_paris does not return")
        out.append(f"Definition {nm} : list (string * string) := {coq_list([f'({coq_str(k)}, {coq_str(v)})' for k, v in r[1]])}.\n")
    if len(set(cond_tasks)) != 1:
        fail("_get_traffic_light_paris: expected exactly one task condition")
    out.append(f"Definition traffic_light_classification_task : string := {coq_str(cond_tasks[0])}.\n")

    # LabelConverter.__init__: prefix dispatch
    c = find_class(t, "LabelConverter")
    init = find_func(c.body, "__init__") or fail("LabelConverter.__init__ missing")
    chain = [s for s in strip_doc(init.body) if isinstance(s, ast.If)]
    if len(chain) != 1:
        fail("LabelConverter.__init__: expected one prefix dispatch", init)
    node = chain[0]
    prefixes = {}
    while True:
        tt = node.test
        if dump_eq(tt, 'label_prefix == "autoware"'):
            want = ast.parse("self.label_type = AutowareLabel\npair_list = _get_autoware_pairs(merge_similar_labels)").body
            if [d(s) for s in node.body] != [d(s) for s in want]:
                fail("LabelConverter.__init__: autoware branch", node)
            prefixes["autoware"] = True
        elif dump_eq(tt, 'label_prefix == "traffic_light"'):
            want = ast.parse("self.label_type = TrafficLightLabel\npair_list = _get_traffic_light_paris(evaluation_task)").body
            if [d(s) for s in node.body] != [d(s) for s in want]:
                fail("LabelConverter.__init__: traffic_light branch", node)
            prefixes["traffic_light"] = True
        else:
            if not all(isinstance(s, ast.Raise) for s in node.body):
                fail("LabelConverter.__init__: unrecognised prefix branch", node)
        if len(node.orelse) == 1 and isinstance(node.orelse[0], ast.If):
            node = node.orelse[0]
            continue
        if not all(isinstance(s, ast.Raise) for s in node.orelse):
            fail("LabelConverter.__init__: else branch must raise", node)
        break
    if set(prefixes) != {"autoware", "traffic_light"}:
        fail("LabelConverter.__init__: prefixes")
    infos = [s for s in strip_doc(init.body) if isinstance(s, ast.AnnAssign) and dump_eq(s.target, "self.label_infos")]
    if len(infos) != 1 or not dump_eq(infos[0].value, "[LabelInfo(label, name) for label, name in pair_list]"):
        fail("LabelConverter.__init__: label_infos", init)

    f = find_func(c.body, "convert_label") or fail("convert_label missing")
    lo, fm = lookup_loop_shape(f, "label")
    out.append(f"Definition convert_label_lower : bool := {'true' if lo else 'false'}.")
    out.append(f"Definition convert_label_first_match : bool := {'true' if fm else 'false'}.")
    f = find_func(c.body, "convert_name") or fail("convert_name missing")
    lo, fm = lookup_loop_shape(f, "name")
    out.append(f"Definition convert_name_lower : bool := {'true' if lo else 'false'}.")
    out.append(f"Definition convert_name_first_match : bool := {'true' if fm else 'false'}.\n")

    # set_target_lists
    f = find_func(t.body, "set_target_lists") or fail("set_target_lists missing")
    body = strip_doc(f.body)
    want = ast.parse(
        "if target_labels is None or len(target_labels) == 0:\n"
        "    return [label for label in label_converter.label_type]\n"
        "return [label_converter.convert_name(name) for name in target_labels]"
    ).body
    if [d(s) for s in body] != [d(s) for s in want]:
        fail("set_target_lists: unrecognised body", f)
    out.append("Definition set_target_lists_uses_convert_name : bool := true.\n")
    return "\n".join(out)


# ---------------------------------------------------------------------------------------------
# configuration tables
# ---------------------------------------------------------------------------------------------
def support_tasks(repo, rel, clsname):
    t = parse(repo, rel)
    c = find_class(t, clsname)
    for n in c.body:
        tgt = None
        if isinstance(n, ast.AnnAssign):
            tgt, val = n.target, n.value
        elif isinstance(n, ast.Assign) and len(n.targets) == 1:
            tgt, val = n.targets[0], n.value
        if tgt is not None and isinstance(tgt, ast.Name) and tgt.id == "_support_tasks":
            if not isinstance(val, ast.List) or not all(isinstance(e, ast.Constant) and isinstance(e.value, str) for e in val.elts):
                fail(f"{clsname}._support_tasks is not a list of string literals", n)
            return [e.value for e in val.elts]
    fail(f"{clsname}._support_tasks not found")


def gen_config(repo):
    out = [
        "(* GENERATED by translator/py_to_coq.py from /repo -- do not edit. *)",
        "From Coq Require Import String List.",
        "Import ListNotations.",
        "Open Scope string_scope.",
        "",
    ]
    p = support_tasks(repo, "config/perception_evaluation_config.py", "PerceptionEvaluationConfig")
    s = support_tasks(repo, "config/sensing_evaluation_config.py", "SensingEvaluationConfig")
    out.append(f"Definition perception_support_tasks : list string := {coq_list([coq_str(x) for x in p])}.\n")
    out.append(f"Definition sensing_support_tasks : list string := {coq_list([coq_str(x) for x in s])}.\n")
    # _check_tasks: membership test then set_task
    t = parse(repo, "config/_evaluation_config_base.py")
    c = find_class(t, "_EvaluationConfigBase")
    f = find_func(c.body, "_check_tasks") or fail("_check_tasks missing")
    body = [x for x in strip_doc(f.body)]
    want = ast.parse(
        'task: str = evaluation_config_dict["evaluation_task"]\n'
        "if task not in self.support_tasks:\n"
        '    raise ValueError(f"Unsupported task: {task}\\nSupported tasks: {self.support_tasks}")\n'
        "evaluation_task: EvaluationTask = set_task(task)\n"
        "return evaluation_task"
    ).body
    if [d(x) for x in body] != [d(x) for x in want]:
        fail("_check_tasks: unrecognised body", f)
    out.append("Definition check_tasks_rejects_unsupported : bool := true.\n")
    return "\n".join(out)


GENERATORS = {"Enums.v": gen_enums, "LabelTables.v": gen_labels, "ConfigTables.v": gen_config}


# ---------------------------------------------------------------------------------------------
# fallback: tables and parser behaviour read from the RUNNING code (translator/probe.py) when a shape is not recognised
# ---------------------------------------------------------------------------------------------
def _alower(s):
    return "".join(chr(ord(c) + 32) if "A" <= c <= "Z" else c for c in s)


def _aupper(s):
    return "".join(chr(ord(c) - 32) if "a" <= c <= "z" else c for c in s)


def _run_parser(members, aliases, default, shape, s):
    """Python mirror of Model/EnumParse.v run_parser; results as probe.py classifies them."""
    pre, cmpk, ret, miss = shape
    name = {"PreNone": s, "PreLower": _alower(s), "PreUpper": _aupper(s)}[pre]
    hit = None
    for k, v in members:
        key = {"CmpValue": v, "CmpValueLower": _alower(v), "CmpKey": k, "CmpNever": None}[cmpk]
        if key is not None and key == name:
            hit = k
            break
    if hit is not None:
        return ["member", hit] if ret == "RetMember" else ["str", hit]
    if miss == "MissRaise":
        return ["raises"]
    if miss == "MissNone":
        return ["none"]
    for a, k in aliases:
        if a == name:
            return ["member", k]
    return ["member", default] if default is not None else ["raises"]


def _infer_shape(pname, members, aliases, default, probes):
    for pre in ("PreNone", "PreLower", "PreUpper"):
        for cmpk in ("CmpValue", "CmpValueLower", "CmpKey", "CmpNever"):
            for ret in ("RetMember", "RetKey"):
                for miss in ("MissRaise", "MissNone", "MissAlias"):
                    shape = (pre, cmpk, ret, miss)
                    ok = True
                    for sp, got in probes:
                        if any(ord(c) > 126 or ord(c) < 32 for c in sp):
                            continue
                        want = _run_parser(members, aliases, default, shape, sp)
                        g = ["raises"] if got[0] == "raises" else got
                        if want != g:
                            ok = False
                            break
                    if ok:
                        return shape
    fail(f"{pname}: no parser shape of Model/EnumParse.v reproduces the probed behaviour")


def _probe(repo):
    import json
    import subprocess

    py = "/venv/bin/python" if os.path.exists("/venv/bin/python") else sys.executable
    env = dict(os.environ, PYTHONPATH=os.path.join(repo, "perception_eval"), PYTHONHASHSEED="0", MPLBACKEND="Agg")
    p = subprocess.run([py, "-W", "ignore", os.path.join(os.path.dirname(os.path.abspath(__file__)), "probe.py"), repo],
                       capture_output=True, text=True, env=env, timeout=300)
    if p.returncode != 0:
        fail("probe of the running code failed: " + (p.stderr or p.stdout)[-300:])
    return json.loads(p.stdout)


def _pairs(rows):
    return coq_list([f"({coq_str(a)}, {coq_str(b)})" for a, b in rows])


def infer_enums(P, why):
    out = [f"(* INFERRED by translator/py_to_coq.py from the RUNNING code of /repo (probe.py): {why.replace('*)', '* )')} *)",
           "From Coq Require Import String List.", "From PE Require Import Model.EnumParse.", "Import ListNotations.", "Open Scope string_scope.", ""]
    M = {k: [tuple(x) for x in v] for k, v in P["members"].items()}
    default = P["alias_default"][1] if P["alias_default"][0] == "member" else None
    aliases = [(a, r[1]) for a, r in sorted(P["alias_table"].items()) if r[0] == "member" and r[1] != default]
    if not P.get("is_2d_is_not_3d"):
        fail("is_2d is not the negation of is_3d")

    def parser(name, enum, al=(), df=None):
        return emit_parser(name, _infer_shape(name, M[enum], list(al), df, P["probes"][name]))
    out.append(emit_enum("EvaluationTask", M["EvaluationTask"]))
    out.append(parser("EvaluationTask_from_value", "EvaluationTask"))
    out.append(parser("set_task", "EvaluationTask"))
    for meth in ("is_3d", "is_fp_validation"):
        out.append(f"Definition EvaluationTask_{meth} : list string := {coq_list([coq_str(k) for k in P[meth]])}.\n")
    out.append(emit_enum("FrameID", M["FrameID"]))
    out.append(parser("FrameID_from_value", "FrameID"))
    out.append(f"Definition FrameID_str_eq : bool := {'true' if P['FrameID_str_eq'] else 'false'}.\n")
    out.append(emit_enum("Visibility", M["Visibility"], aliases, default))
    out.append(parser("Visibility_from_value", "Visibility", aliases, default))
    out.append(emit_enum("SensorModality", M["SensorModality"]))
    out.append(parser("SensorModality_from_value", "SensorModality"))
    out.append(emit_enum("ShapeType", M["ShapeType"]))
    out.append(parser("ShapeType_from_value", "ShapeType"))
    sb = all(r[0] == "member" and r[1] == k for (k, v) in M["ShapeType"] for r in [P["Shape_init"].get(v, ["?"])])
    out.append(f"Definition Shape_init_str_branch : bool := {'true' if sb else 'false'}.\n")
    out.append(emit_enum("MatchingLabelPolicy", M["MatchingLabelPolicy"]))
    out.append(parser("MatchingLabelPolicy_from_str", "MatchingLabelPolicy"))
    val2key = {v: k for k, v in M["FrameID"]}
    tb = all(isinstance(r, list) and len(r) == 2 and r[0] == val2key.get(a) and r[1] == val2key.get(b) for a, b, r in P["TransformKey_init"])
    out.append(f"Definition TransformKey_init_str_branch : bool := {'true' if tb else 'false'}.\n")
    return "\n".join(out)


def infer_labels(P, why):
    out = [f"(* INFERRED by translator/py_to_coq.py from the RUNNING code of /repo (probe.py): {why.replace('*)', '* )')} *)",
           "From Coq Require Import String List.", "Import ListNotations.", "Open Scope string_scope.", ""]
    for en in ("AutowareLabel", "TrafficLightLabel"):
        ms = [tuple(x) for x in P["label_members"][en]]
        if "UNKNOWN" not in [k for k, _ in ms]:
            fail(f"{en} has no UNKNOWN member")
        out.append(f"Definition {en}_members : list (string * string) := {_pairs(ms)}.\n")
    out.append(f"Definition autoware_pairs_merge : list (string * string) := {_pairs(P['autoware_pairs']['True'])}.\n")
    out.append(f"Definition autoware_pairs_nomerge : list (string * string) := {_pairs(P['autoware_pairs']['False'])}.\n")
    tl = P["traffic_light_pairs"]
    groups = {}
    for task, rows in tl.items():
        groups.setdefault(json_key(rows), []).append(task)
    singles = [ts[0] for ts in groups.values() if len(ts) == 1]
    if len(groups) != 2 or len(singles) != 1:
        fail("traffic-light tables: expected one task with a table of its own")
    ctask = singles[0]
    other = next(t for t in tl if t != ctask)
    out.append(f"Definition traffic_light_pairs_classification : list (string * string) := {_pairs(tl[ctask])}.\n")
    out.append(f"Definition traffic_light_pairs_other : list (string * string) := {_pairs(tl[other])}.\n")
    out.append(f"Definition traffic_light_classification_task : string := {coq_str(ctask)}.\n")
    # the lookup loops, from the converters' behaviour
    lower_l = lower_n = True
    first_l, first_n = None, None
    uses_name = True
    for key, cv in P["converter"].items():
        infos = [tuple(x) for x in cv["infos"]]
        table = {}
        for lab, nm in infos:
            table.setdefault(nm, []).append(lab)
        for sp, gl, gn, tgt in cv["rows"]:
            labs = table.get(_alower(sp))
            exact = table.get(sp)
            if labs and not exact:
                lower_l = lower_l and gl in labs
                lower_n = lower_n and gn in labs
            cand = exact or labs
            if cand and len(set(cand)) > 1:
                fl = True if gl == cand[0] else (False if gl == cand[-1] else None)
                fn_ = True if gn == cand[0] else (False if gn == cand[-1] else None)
                if fl is None or fn_ is None or (first_l not in (None, fl)) or (first_n not in (None, fn_)):
                    fail("label lookup is neither first-match nor last-match")
                first_l, first_n = fl, fn_
            uses_name = uses_name and tgt == [gn]
    out.append(f"Definition convert_label_lower : bool := {'true' if lower_l else 'false'}.")
    out.append(f"Definition convert_label_first_match : bool := {'true' if first_l in (None, True) else 'false'}.")
    out.append(f"Definition convert_name_lower : bool := {'true' if lower_n else 'false'}.")
    out.append(f"Definition convert_name_first_match : bool := {'true' if first_n is True else 'false'}.\n")
    out.append(f"Definition set_target_lists_uses_convert_name : bool := {'true' if uses_name else 'false'}.\n")
    return "\n".join(out)


def json_key(rows):
    import json

    return json.dumps(rows)


def infer_config(P, why):
    out = [f"(* INFERRED by translator/py_to_coq.py from the RUNNING code of /repo (probe.py): {why.replace('*)', '* )')} *)",
           "From Coq Require Import String List.", "Import ListNotations.", "Open Scope string_scope.", ""]
    out.append(f"Definition perception_support_tasks : list string := {coq_list([coq_str(x) for x in P['perception_support_tasks']])}.\n")
    out.append(f"Definition sensing_support_tasks : list string := {coq_list([coq_str(x) for x in P['sensing_support_tasks']])}.\n")
    out.append(f"Definition check_tasks_rejects_unsupported : bool := {'true' if P['check_tasks_rejects_unsupported'] is True else 'false'}.\n")
    return "\n".join(out)


INFERRERS = {"Enums.v": infer_enums, "LabelTables.v": infer_labels, "ConfigTables.v": infer_config}


def regenerate(repo, outdir):
    """Write Gen/*.v (only when content changes).  Returns {file: error or None}."""
    os.makedirs(outdir, exist_ok=True)
    status = {}
    probe_cache = {}
    for fn, g in GENERATORS.items():
        path = os.path.join(outdir, fn)
        try:
            txt = g(repo) + "\n"
        except Exception as e:  # noqa: BLE001 -- TranslatorError / SyntaxError / OSError, and anything an unforeseen AST shape raises inside the translator
            why = f"{type(e).__name__}: {e}"
            try:
                # the SHAPE is not recognised (e.g. a refactoring): read tables and parser behaviour from the running code instead
                if probe_cache.get("data") is None:
                    probe_cache["data"] = _probe(repo)
                txt = INFERRERS[fn](probe_cache["data"], "source shape not recognised -- " + why) + "\n"
                status[fn] = "inferred: " + why
            except Exception as e2:  # noqa: BLE001
                status[fn] = why + f" (and the fallback failed: {type(e2).__name__}: {e2})"
                # leave a file that cannot compile so that nothing downstream silently uses stale tables
                txt = f"(* translator failed: {why.replace('*)', '* )')} *)\nDefinition translator_failed : False := I.\n"
        else:
            status[fn] = None
        old = None
        if os.path.exists(path):
            with open(path) as fh:
                old = fh.read()
        if old != txt:
            with open(path, "w") as fh:
                fh.write(txt)
    return status


if __name__ == "__main__":
    repo = sys.argv[1] if len(sys.argv) > 1 else "/repo"
    outdir = sys.argv[2] if len(sys.argv) > 2 else os.path.join(os.path.dirname(os.path.abspath(__file__)), "..", "coq", "theories", "Gen")
    st = regenerate(repo, outdir)
    bad = {k: v for k, v in st.items() if v and not v.startswith("inferred:")}
    for k, v in st.items():
        print(f"{k}: {'ok' if v is None else v}")
    sys.exit(1 if bad else 0)
