#!/usr/bin/env python3
"""Self-test of translator/decisions_config.py + coq/theories/Props/GenTieConfig.v (scheme of test_decisions_threshold.py).

  (1) unchanged /repo: translate, build the generated file, the lemma file, every theorem (closed under the global context) and the
      non-vacuity examples;
  (2) MUTANTS: one-token changes of the translated functions in a scratch copy (/tmp/gen_config_scratch/<id>/): the translation
      still succeeds (or fails closed) and an equation stops checking -- unless the mutant is semantically equivalent, in which case
      it should still check;
  (3) REFACTORINGS: behaviour-preserving rewrites: translation + proofs should survive (or the translator fails closed).

Each theorem is compiled on its own (header + block); only theorems that mention a module whose generated text changed are
re-compiled.  usage: python3 translator/test_decisions_config.py [--jobs N] [--only base|mutants|refactorings] [--keep] [ids..]
"""
import ast
import concurrent.futures as cf
import os
import re
import shutil
import subprocess
import sys
import textwrap
import time

HERE = os.path.dirname(os.path.abspath(__file__))
VERIF = os.path.dirname(HERE)
sys.path.insert(0, HERE)
import decisions_config as dc  # noqa: E402

REPO = "/repo"
PKGDIR = os.path.join(REPO, "perception_eval", "perception_eval")
SCRATCH = "/tmp/gen_config_scratch"
THEORIES = os.path.join(VERIF, "coq", "theories")
COQ_TIMEOUT = 900
FILES = sorted({f.file for f in dc.specs()} | {dc.EVTASK, "common/threshold.py"})

EP = (dc.PCFG, "PerceptionEvaluationConfig", "_extract_params")
LP = (dc.PCFG, "PerceptionEvaluationConfig", "_extract_label_params")
CT = (dc.BASE, "_EvaluationConfigBase", "_check_tasks")
TL = (dc.LABEL_PY, None, "set_target_lists")
CR = (dc.FRAME, "CriticalObjectFilterConfig", "__init__")
PF = (dc.FRAME, "PerceptionPassFailConfig", "__init__")
SE = (dc.SCFG, "SensingEvaluationConfig", "_extract_params")
SL = (dc.SCFG, "SensingEvaluationConfig", "_extract_label_params")

# (id, function, old, new, expected)      expected: "caught" | "equivalent"
MUTANTS = [
    ("M01", EP, "if None not in (max_x_position, max_y_position, max_distance, min_distance):", "if all((max_x_position, max_y_position, max_distance, min_distance)):", "caught"),   # 0 / 0.0 is a valid bound
    ("M02", EP, "if None not in (max_x_position, max_y_position):", "if all((max_x_position, max_y_position)):", "caught"),
    ("M03", EP, 'e_cfg.get("max_x_position")', 'e_cfg.get("max_x_positions")', "caught"),
    ("M04", EP, "set_thresholds(max_y_position, num_elements, False)", "set_thresholds(max_x_position, num_elements, False)", "caught"),
    ("M05", EP, "min_distance_list: List[float] = set_thresholds(min_distance, num_elements, False)", "min_distance_list: List[float] = min_distance", "caught"),
    ("M06", EP, "num_elements: int = len(target_labels)", "num_elements: int = len(target_labels) + 1", "caught"),
    ("M07", EP, "set_thresholds(max_matchable_radii, num_elements, False)", "set_thresholds(max_matchable_radii, num_elements, True)", "caught"),
    ("M08", EP, "if max_matchable_radii is not None:", "if max_matchable_radii:", "caught"),
    ("M09", EP, "if min_point_numbers is not None:", "if min_point_numbers is None:", "caught"),
    ("M10", EP, "== EvaluationTask.DETECTION and min_point_numbers is None", "== EvaluationTask.DETECTION or min_point_numbers is None", "caught"),
    ("M11", EP, "== EvaluationTask.DETECTION and", "== EvaluationTask.TRACKING and", "caught"),
    ("M12", EP, "elif self.evaluation_task.is_2d():", "elif self.evaluation_task.is_3d():", "caught"),
    ("M13", EP, "elif None not in (max_distance, min_distance):", "elif None not in (max_distance, max_distance):", "caught"),
    ("M14", EP, 'raise RuntimeError("Either max x/y position or max/min distance should be specified")\n        if None', "pass\n        if None", "caught"),     # F7 again
    ("M15", EP, 'e_cfg.get("uuid_matching_first", False)', 'e_cfg.get("uuid_matching_first", True)', "caught"),
    ("M16", EP, '"confidence_threshold_list": confidence_threshold_list', '"confidence_threshold": confidence_threshold_list', "caught"),
    ("M17", EP, "if conf_thresh is not None:", "if conf_thresh is None:", "caught"),
    ("M18", EP, 'raise RuntimeError("In detection task', 'raise ValueError("In detection task', "caught"),
    ("M19", EP, 'e_cfg.get("target_labels")', 'e_cfg["target_labels"]', "caught"),
    ("M20", EP, '"iou_3d_thresholds": e_cfg.get("iou_3d_thresholds")', '"iou_3d_thresholds": e_cfg.get("iou_2d_thresholds")', "caught"),
    ("M21", EP, "if None not in (max_x_position, max_y_position):", "if None not in (max_y_position, max_x_position):", "equivalent"),   # the test is symmetric
    ("M22", EP, "e_cfg = evaluation_config_dict.copy()", "e_cfg = evaluation_config_dict", "equivalent"),     # nothing mutates the dict
    ("M23", CT, "if task not in self.support_tasks:", "if task in self.support_tasks:", "caught"),
    ("M24", CT, 'evaluation_config_dict["evaluation_task"]', 'evaluation_config_dict.get("evaluation_task")', "caught"),       # KeyError -> ValueError
    ("M25", CT, 'raise ValueError(f"Unsupported', 'raise KeyError(f"Unsupported', "caught"),
    ("M26", LP, 'e_cfg.get("allow_matching_unknown", False)', 'e_cfg.get("allow_matching_unknown", True)', "caught"),
    ("M27", LP, "MatchingLabelPolicy.ALLOW_UNKNOWN if allow_matching_unknown", "MatchingLabelPolicy.ALLOW_ANY if allow_matching_unknown", "caught"),
    ("M28", LP, '"label_prefix": e_cfg["label_prefix"]', '"label_prefix": e_cfg.get("label_prefix")', "caught"),
    ("M29", LP, 'e_cfg.get("count_label_number", True)', 'e_cfg.get("count_label_number", False)', "caught"),
    ("M30", LP, 'if e_cfg.get("matching_label_policy"):', 'if e_cfg.get("matching_label_policy") is not None:', "caught"),      # "" is falsy
    ("M31", TL, "if target_labels is None or len(target_labels) == 0:", "if target_labels is None and len(target_labels) == 0:", "caught"),
    ("M32", TL, "len(target_labels) == 0", "len(target_labels) != 0", "caught"),
    ("M33", CR, "if max_x_position_list and max_y_position_list:", "if max_x_position_list or max_y_position_list:", "caught"),
    ("M34", CR, "self.max_y_position_list: List[float] = check_thresholds(max_y_position_list, num_elements)", "self.max_y_position_list: List[float] = check_thresholds(max_x_position_list, num_elements)", "caught"),
    ("M35", CR, "self.min_point_numbers: List[int] = check_thresholds(min_point_numbers, num_elements)", "self.min_point_numbers: List[int] = min_point_numbers", "caught"),   # length check dropped
    ("M36", CR, "if min_point_numbers is None:", "if min_point_numbers is not None:", "caught"),
    ("M37", CR, "num_elements: int = len(self.target_labels)", "num_elements: int = len(self.target_labels) + 1", "caught"),
    ("M38", CR, "target_labels: List[str],", "target_labels: List[str] = None,", "caught"),           # target_labels becomes optional
    ("M39", CR, "elif max_distance_list and min_distance_list:", "elif max_distance_list and max_distance_list:", "caught"),
    ("M40", CR, "elif evaluator_config.evaluation_task.is_2d():", "elif evaluator_config.evaluation_task.is_3d():", "caught"),
    ("M41", PF, "if matching_threshold_list is None:", "if not matching_threshold_list:", "caught"),       # [] would be accepted
    ("M42", PF, "self.confidence_threshold_list: List[float] = check_thresholds(confidence_threshold_list, num_elements)", "self.confidence_threshold_list: List[float] = check_thresholds(matching_threshold_list, num_elements)", "caught"),
    ("M43", PF, "matching_threshold_list: Optional[List[float]] = None,", "matching_threshold_list: Optional[List[float]],", "caught"),   # becomes required
    ("M44", SE, 'e_cfg.get("box_scale_0m", 1.0)', 'e_cfg.get("box_scale_0m", 2.0)', "caught"),
    ("M45", SL, 'e_cfg.get("label_prefix", "autoware")', 'e_cfg.get("label_prefix", "traffic_light")', "caught"),
    ("M46", SE, 'e_cfg.get("target_uuids", None)', 'e_cfg.get("target_uuids")', "equivalent"),        # the default default
]

# (id, description, function, new source of the whole function (class-level indentation is added))
REFACTORINGS = [
    ("R01", "_extract_params: `None not in (a, b)` -> `a is not None and b is not None`; is_2d branch inverted", EP, None),
    ("R02", "_extract_params: `if x is not None: x = f(x)` -> conditional expressions; a logging line", EP, None),
    ("R03", "_extract_params: no .copy(); the gets of the two dictionaries stored in locals first", EP, None),
    ("R04", "_extract_params: the per-label normalisation extracted into a module-level helper (inlined by the translator)", EP, None),
    ("R05", "_check_tasks: `not in` -> `not (.. in ..)`, no locals", CT, '''
def _check_tasks(self, evaluation_config_dict: Dict[str, Any]) -> EvaluationTask:
    if not (evaluation_config_dict["evaluation_task"] in self.support_tasks):
        raise ValueError("Unsupported task")
    return set_task(evaluation_config_dict["evaluation_task"])
'''),
    ("R06", "CriticalObjectFilterConfig.__init__: the two None tests -> conditional expressions", CR, None),
    ("R07", "set_target_lists: comprehensions -> explicit loops with append", TL, '''
def set_target_lists(target_labels, label_converter):
    if target_labels is None or len(target_labels) == 0:
        out = []
        for label in label_converter.label_type:
            out.append(label)
        return out
    labels = []
    for name in target_labels:
        labels.append(label_converter.convert_name(name))
    return labels
'''),
    ("R08", "_extract_label_params: the policy value in a local, if / else -> early assignment", LP, '''
@staticmethod
def _extract_label_params(evaluation_config_dict: Dict[str, Any]) -> Dict[str, Any]:
    policy = evaluation_config_dict.get("matching_label_policy")
    unknown = evaluation_config_dict.get("allow_matching_unknown", False)
    matching_label_policy = MatchingLabelPolicy.ALLOW_UNKNOWN if unknown else MatchingLabelPolicy.DEFAULT
    if policy:
        matching_label_policy = MatchingLabelPolicy.from_str(policy)
    return {
        "label_prefix": evaluation_config_dict["label_prefix"],
        "merge_similar_labels": evaluation_config_dict.get("merge_similar_labels", False),
        "matching_label_policy": matching_label_policy,
        "count_label_number": evaluation_config_dict.get("count_label_number", True),
    }
'''),
    ("R09", "_extract_params: the normalisation extracted into a METHOD of the class (not in the vocabulary: fails closed)", EP, None),
    ("R10", "PerceptionPassFailConfig.__init__: `x is None` branches swapped (`is not None` first)", PF, '''
def __init__(
    self,
    evaluator_config,
    target_labels: Optional[List[str]],
    matching_threshold_list: Optional[List[float]] = None,
    confidence_threshold_list: Optional[List[float]] = None,
) -> None:
    self.evaluation_task: EvaluationTask = evaluator_config.evaluation_task
    self.target_labels: List[LabelType] = set_target_lists(target_labels, evaluator_config.label_converter)
    n: int = len(self.target_labels)
    if matching_threshold_list is not None:
        self.matching_threshold_list = check_thresholds(matching_threshold_list, n)
    else:
        self.matching_threshold_list = None
    self.confidence_threshold_list = None if confidence_threshold_list is None else check_thresholds(confidence_threshold_list, n)
'''),
]


def ep_variant(kind):
    """rewrites of _extract_params derived from the current source text (so that they stay behaviour preserving)"""
    def edit(src):
        a, b, f = func_span(src, EP[1], EP[2])
        seg = src[a:b]
        if kind == "R01":
            seg = seg.replace("if None not in (max_x_position, max_y_position, max_distance, min_distance):",
                              "if max_x_position is not None and max_y_position is not None and max_distance is not None and min_distance is not None:")
            seg = seg.replace("if None not in (max_x_position, max_y_position):", "if max_x_position is not None and max_y_position is not None:")
            seg = seg.replace("elif None not in (max_distance, min_distance):", "elif not (max_distance is None or min_distance is None):")
            old = seg[seg.index("        elif self.evaluation_task.is_2d():"):seg.index("        max_matchable_radii: Optional")]
            new = ('        elif not self.evaluation_task.is_2d():\n            raise RuntimeError("Either max x/y position or max/min distance should be specified")\n'
                   "        else:\n            max_x_position_list = None\n            max_y_position_list = None\n            max_distance_list = None\n            min_distance_list = None\n\n")
            seg = seg.replace(old, new)
        elif kind == "R02":
            seg = seg.replace("        if max_matchable_radii is not None:\n            max_matchable_radii: List[float] = set_thresholds(max_matchable_radii, num_elements, False)\n",
                              '        logging.info("normalising the thresholds")\n        max_matchable_radii = set_thresholds(max_matchable_radii, num_elements, False) if max_matchable_radii is not None else None\n')
            seg = seg.replace("        if min_point_numbers is not None:\n            min_point_numbers: List[int] = set_thresholds(min_point_numbers, num_elements, False)\n",
                              "        min_point_numbers = None if min_point_numbers is None else set_thresholds(min_point_numbers, num_elements, False)\n")
            seg = seg.replace("        if conf_thresh is not None:\n            confidence_threshold_list: List[float] = set_thresholds(conf_thresh, num_elements, False)\n        else:\n            confidence_threshold_list = None\n",
                              "        confidence_threshold_list = set_thresholds(conf_thresh, num_elements, False) if conf_thresh is not None else None\n")
            assert "import logging" not in src
            src = src.replace("from typing import Any\n", "import logging\nfrom typing import Any\n", 1)
            a, b, f = func_span(src, EP[1], EP[2])
        elif kind == "R03":
            seg = seg.replace("e_cfg = evaluation_config_dict.copy()", "e_cfg = evaluation_config_dict")
            seg = seg.replace('        f_params: Dict[str, Any] = {', '        first = e_cfg.get("uuid_matching_first", False)\n        center = e_cfg.get("center_distance_thresholds")\n        f_params: Dict[str, Any] = {')
            seg = seg.replace('"uuid_matching_first": e_cfg.get("uuid_matching_first", False),', '"uuid_matching_first": first,')
            seg = seg.replace('"center_distance_thresholds": e_cfg.get("center_distance_thresholds"),', '"center_distance_thresholds": center,')
        elif kind in ("R04", "R09"):
            call = "_opt_thresholds" if kind == "R04" else "self._opt_thresholds"
            seg = seg.replace("        if max_matchable_radii is not None:\n            max_matchable_radii: List[float] = set_thresholds(max_matchable_radii, num_elements, False)\n",
                              f"        max_matchable_radii = {call}(max_matchable_radii, num_elements)\n")
            seg = seg.replace("        if min_point_numbers is not None:\n            min_point_numbers: List[int] = set_thresholds(min_point_numbers, num_elements, False)\n",
                              f"        min_point_numbers = {call}(min_point_numbers, num_elements)\n")
            if kind == "R04":
                src = src[:a] + seg + src[b:] + "\n\ndef _opt_thresholds(value, num_elements):\n    if value is None:\n        return None\n    return set_thresholds(value, num_elements, False)\n"
            else:
                src = src[:a] + seg + "\n    def _opt_thresholds(self, value, num_elements):\n        if value is None:\n            return None\n        return set_thresholds(value, num_elements, False)\n" + src[b:]
            return src
        return src[:a] + seg + src[b:]
    return edit


def cr_variant(src):
    a, b, f = func_span(src, CR[1], CR[2])
    seg = src[a:b]
    seg = seg.replace("        if min_point_numbers is None:\n            self.min_point_numbers = None\n        else:\n            self.min_point_numbers: List[int] = check_thresholds(min_point_numbers, num_elements)\n",
                      "        self.min_point_numbers = None if min_point_numbers is None else check_thresholds(min_point_numbers, num_elements)\n")
    seg = seg.replace("        if confidence_threshold_list is None:\n            self.confidence_threshold_list = None\n        else:\n            self.confidence_threshold_list: List[float] = check_thresholds(confidence_threshold_list, num_elements)\n",
                      "        self.confidence_threshold_list = check_thresholds(confidence_threshold_list, num_elements) if confidence_threshold_list is not None else None\n")
    return src[:a] + seg + src[b:]


def func_span(src, cls, func):
    tree = ast.parse(src)
    body = tree.body
    if cls is not None:
        body = [n for n in body if isinstance(n, ast.ClassDef) and n.name == cls][0].body
    fs = [n for n in body if isinstance(n, ast.FunctionDef) and n.name == func]
    assert len(fs) == 1, func
    f = fs[0]
    lines = src.splitlines(keepends=True)
    first = min([f.lineno] + [d.lineno for d in f.decorator_list])
    start = sum(len(x) for x in lines[:first - 1])
    end = sum(len(x) for x in lines[:f.end_lineno])
    return start, end, f


def strip_docstrings(src):
    tree = ast.parse(src)
    lines = src.splitlines(keepends=True)
    for n in ast.walk(tree):
        if isinstance(n, ast.FunctionDef) and n.body and isinstance(n.body[0], ast.Expr) and isinstance(n.body[0].value, ast.Constant) and isinstance(n.body[0].value.value, str):
            d = n.body[0]
            ind = " " * d.col_offset
            for i in range(d.lineno - 1, d.end_lineno):
                lines[i] = "\n"
            lines[d.lineno - 1] = ind + '"""doc."""\n'
    return "".join(lines)


def apply_edit(src, target, old, new):
    src = strip_docstrings(src)
    a, b, _ = func_span(src, target[1], target[2])
    seg = src[a:b]
    if seg.count(old) < 1:
        raise RuntimeError(f"anchor not found in {target[2]}: {old!r}")
    return src[:a] + seg.replace(old, new, 1) + src[b:]


def replace_function(src, target, new_src):
    src = strip_docstrings(src)
    a, b, _ = func_span(src, target[1], target[2])
    txt = textwrap.dedent(new_src).strip("\n") + "\n"
    if target[1] is not None:
        txt = textwrap.indent(txt, "    ")
    return src[:a] + txt + src[b:]


def make_scratch(n):
    d = os.path.join(SCRATCH, str(n))
    shutil.rmtree(d, ignore_errors=True)
    for rel in FILES:
        dst = os.path.join(d, "repo", "perception_eval", "perception_eval", rel)
        os.makedirs(os.path.dirname(dst), exist_ok=True)
        shutil.copy(os.path.join(PKGDIR, rel), dst)
    os.makedirs(os.path.join(d, "coq"))
    return d


def to_scratch(txt):
    txt = txt.replace("From PE Require Import Gen.decisions_threshold Gen.decisions_config.", "From PE Require Import Gen.decisions_threshold.\nFrom SCR Require Import decisions_config.")
    txt = txt.replace("Proofs.GenTieThresholdLemmas\n                       Proofs.GenTieConfigLemmas.", "Proofs.GenTieThresholdLemmas.\nFrom SCR Require Import GenTieConfigLemmas.")
    txt = txt.replace("From PE Require Gen.decisions_threshold Gen.decisions_config.\nImport Gen.decisions_threshold Gen.decisions_config.",
                      "From PE Require Gen.decisions_threshold.\nFrom SCR Require decisions_config.\nImport Gen.decisions_threshold decisions_config.")
    assert "SCR" in txt
    return txt


def split_gentie():
    with open(os.path.join(THEORIES, "Props", "GenTieConfig.v")) as f:
        txt = to_scratch(f.read())
    m0 = re.search(r"(?m)^\(\* ---- ", txt)
    header = txt[:m0.start()]
    blocks = {}
    for m in re.finditer(r"(?ms)^Theorem (\w+)\b.*?^Print Assumptions \1\.", txt):
        blocks[m.group(1)] = m.group(0) + "\n"
    tail = txt[txt.index("(* ---- non-vacuity"):]
    return header, blocks, tail


def modules_of(text):
    return {m.group(1): m.group(2) for m in re.finditer(r"(?s)Module (Gen_\w+)\.(.*?)End \1\.", text)}


def coqc(args, cwd):
    try:
        p = subprocess.run(["timeout", str(COQ_TIMEOUT), "coqc"] + args, cwd=cwd, capture_output=True, text=True)
        return p.returncode, p.stdout + p.stderr
    except Exception as e:  # noqa: BLE001
        return 99, str(e)


def check_theorem(d, header, name, block):
    fn = os.path.join(d, "coq", f"T_{name}.v")
    with open(fn, "w") as f:
        f.write(header + block)
    t0 = time.time()
    rc, out = coqc(["-Q", THEORIES, "PE", "-Q", os.path.join(d, "coq"), "SCR", fn], os.path.join(d, "coq"))
    el = time.time() - t0
    if rc == 0 and "Closed under the global context" in out and "Axioms:" not in out:
        return name, "ok", el
    if rc == 124:
        return name, "timeout", el
    m = re.search(r"Error:\s*(.*)", out, re.S)
    return name, "FAILS: " + (" ".join(m.group(1).split())[:90] if m else f"rc={rc}"), el


def run_variant(n, rel, edit, header, blocks, base_modules, examples=None):
    """edit: src -> src of the file rel (or None).  -> (translator status, {theorem: (result, seconds)}, dir)"""
    d = make_scratch(n)
    if edit is not None:
        path = os.path.join(d, "repo", "perception_eval", "perception_eval", rel)
        with open(path) as f:
            src = f.read()
        new = edit(src)
        ast.parse(new)
        assert new != src
        with open(path, "w") as f:
            f.write(new)
    c = os.path.join(d, "coq")
    st = dc.regenerate(os.path.join(d, "repo"), c)[dc.OUT_NAME]
    with open(os.path.join(c, dc.OUT_NAME)) as f:
        mods = modules_of(f.read())
    rc, out = coqc(["-Q", THEORIES, "PE", "-Q", c, "SCR", dc.OUT_NAME], c)
    if rc != 0:
        return st, {"<generated file>": ("FAILS to compile: " + " ".join(out.split())[:200], 0)}, d
    with open(os.path.join(THEORIES, "Proofs", "GenTieConfigLemmas.v")) as f:
        lem = to_scratch(f.read())
    with open(os.path.join(c, "GenTieConfigLemmas.v"), "w") as f:
        f.write(lem)
    rc, out = coqc(["-Q", THEORIES, "PE", "-Q", c, "SCR", "GenTieConfigLemmas.v"], c)
    if rc != 0:
        return st, {"<lemma file>": ("FAILS to compile: " + " ".join(out.split())[:200], 0)}, d
    if base_modules is None:
        todo = list(blocks)
    else:
        changed = [m for m in base_modules if mods.get(m) != base_modules[m]]
        todo = [t for t, b in blocks.items() if any(re.search(r"\b" + re.escape(m) + r"\.", b) for m in changed)]
    res = {}
    for t in todo:
        name, r, el = check_theorem(d, header, t, blocks[t])
        res[name] = (r, el)
    if examples:
        fn = os.path.join(c, "T_examples.v")
        with open(fn, "w") as f:
            f.write(header + examples + "\n")
        t0 = time.time()
        rc, out = coqc(["-Q", THEORIES, "PE", "-Q", c, "SCR", fn], c)
        res["<non-vacuity examples>"] = ("ok" if rc == 0 else "FAILS: " + " ".join(out.split())[:120], time.time() - t0)
    return st, res, d


def bad_of(res):
    return [f"{k} [{v[0]}]" for k, v in res.items() if v[0] != "ok"]


def main():
    jobs = 4
    only = None
    keep = "--keep" in sys.argv
    if "--jobs" in sys.argv:
        jobs = int(sys.argv[sys.argv.index("--jobs") + 1])
    if "--only" in sys.argv:
        only = sys.argv[sys.argv.index("--only") + 1]
    ids = [a for a in sys.argv[1:] if re.fullmatch(r"[MR]\d\d", a)]
    shutil.rmtree(SCRATCH, ignore_errors=True)
    os.makedirs(SCRATCH)
    header, blocks, examples = split_gentie()
    failures = 0
    with cf.ThreadPoolExecutor(max_workers=jobs) as pool:
        t0 = time.time()
        st, res, d0 = run_variant("base", None, None, header, blocks, None, examples)
        with open(os.path.join(d0, "coq", dc.OUT_NAME)) as f:
            base_modules = modules_of(f.read())
        print(f"(1) UNCHANGED /repo: translation: {'all translated' if st is None else st}")
        for k, (r, el) in res.items():
            print(f"    {k:42s} {r}  ({el:.1f}s)")
        bad = bad_of(res)
        print(f"    -> {len(res) - len(bad)}/{len(res)} closed, {time.time() - t0:.0f}s")
        if bad or st is not None:
            failures += 1
        if only == "base":
            if not keep:
                shutil.rmtree(SCRATCH, ignore_errors=True)
            return failures
        if only in (None, "mutants"):
            print("\n(2) MUTANTS (one token each)")
            tally = {"caught": 0, "caught (not translated)": 0, "equivalent, still proves": 0, "MISSED": 0, "equivalent but REJECTED": 0}
            todo = [m for m in MUTANTS if not ids or m[0] in ids]
            futs = [pool.submit(run_variant, m[0], m[1][0], (lambda s, f=m[1], o=m[2], n=m[3]: apply_edit(s, f, o, n)), header, blocks, base_modules) for m in todo]
            for (mid, target, old, new, expected), fut in zip(todo, futs):
                st, res, d = fut.result()
                bad = bad_of(res)
                if not res and not st:
                    verdict = ("MISSED" if expected == "caught" else "equivalent, still proves")
                    tally[verdict] += 1
                    verdict += " (generated text unchanged)"
                elif bad or st:
                    verdict = ("caught" + (" (not translated)" if st else "")) if expected == "caught" else "equivalent but REJECTED"
                    tally[verdict] += 1
                else:
                    verdict = "equivalent, still proves" if expected == "equivalent" else "MISSED"
                    tally[verdict] += 1
                tmax = max([v[1] for v in res.values()] + [0])
                print(f"  {mid} {verdict:30s} {target[2]}: {' '.join(old.split())[:50]!r} -> {' '.join(new.split())[:50]!r}  [{tmax:.0f}s]")
                if st:
                    print(f"        translator: {st[:230]}")
                for b in bad:
                    print(f"        breaks: {b[:170]}")
                if not keep:
                    shutil.rmtree(d, ignore_errors=True)
            print("  tally:", tally)
            if tally["MISSED"] or tally["equivalent but REJECTED"]:
                failures += 1
        if only in (None, "refactorings"):
            print("\n(3) REFACTORINGS (behaviour preserving)")
            allr = []
            for rid, desc, target, new in REFACTORINGS:
                if rid in ("R01", "R02", "R03", "R04", "R09"):
                    allr.append((rid, desc, target, ep_variant(rid)))
                elif rid == "R06":
                    allr.append((rid, desc, target, cr_variant))
                else:
                    allr.append((rid, desc, target, (lambda s, f=target, n=new: replace_function(s, f, n))))
            allr = [r for r in allr if not ids or r[0] in ids]
            futs = [pool.submit(run_variant, rid, target[0], edit, header, blocks, base_modules) for rid, desc, target, edit in allr]
            survived = 0
            for (rid, desc, target, edit), fut in zip(allr, futs):
                st, res, d = fut.result()
                bad = bad_of(res)
                if bad and not st:
                    verdict = "translated, proof REJECTS"
                elif st:
                    verdict = "translator FAILS CLOSED"
                else:
                    verdict = "survives" + ("" if res else " (generated text identical)")
                    survived += 1
                tmax = max([v[1] for v in res.values()] + [0])
                print(f"  {rid} {verdict:28s} {desc}  [{len(res)} theorem(s) re-checked, slowest {tmax:.0f}s]")
                if st:
                    print(f"        translator: {st[:230]}")
                for b in bad:
                    print(f"        breaks: {b[:170]}")
                if not keep:
                    shutil.rmtree(d, ignore_errors=True)
            print(f"  {survived}/{len(allr)} refactorings survive")
    if not keep:
        shutil.rmtree(SCRATCH, ignore_errors=True)
    return 1 if failures else 0


if __name__ == "__main__":
    sys.exit(main())
