#!/usr/bin/env python3
"""Self-test of translator/decisions.py + coq/theories/Props/GenTie.v.

  (1) unchanged /repo: translate, build Gen/Decisions.v and Props/GenTie.v, every theorem closed;
  (2) MUTANTS: one-token changes of the translated functions in a scratch copy of the package
      (/tmp/gen_decisions_scratch/<n>/): the translation still succeeds (or fails closed) and the equation of the mutated
      function stops checking -- unless the mutant is semantically equivalent, in which case it must still check;
  (3) REFACTORINGS: behaviour-preserving rewrites: translation + proofs should survive (or the translator fails closed).

Each theorem of GenTie.v is compiled on its own (header + that theorem), so the table names every theorem that breaks and
an untranslated function does not hide the others.  Only theorems that mention a module whose generated text changed are
re-compiled.  usage: python3 translator/test_decisions.py [--jobs N] [--only mutants|refactorings|base] [--keep]
"""
import ast
import concurrent.futures as cf
import os
import re
import shutil
import subprocess
import sys
import textwrap
import time

HERE = os.path.dirname(os.path.abspath(__file__))
VERIF = os.path.dirname(HERE)
sys.path.insert(0, HERE)
import decisions  # noqa: E402

REPO = "/repo"
PKGDIR = os.path.join(REPO, "perception_eval", "perception_eval")
SCRATCH = "/tmp/gen_decisions_scratch"
THEORIES = os.path.join(VERIF, "coq", "theories")
COQ_TIMEOUT = 200

OM = "evaluation/matching/object_matching.py"
OR = "evaluation/result/object_result.py"
OF = "evaluation/matching/objects_filter.py"
CL = "evaluation/metrics/tracking/clear.py"
TH = "common/threshold.py"

# (id, file, class-or-None, function, old, new, expected)      expected: "caught" | "equivalent"
MUTANTS = [
    ("M01", OM, "CenterDistanceMatching", "is_better_than", "self.value < threshold_value", "self.value <= threshold_value", "caught"),
    ("M02", OM, "PlaneDistanceMatching", "is_better_than", "self.value < threshold_value", "self.value > threshold_value", "caught"),
    ("M03", OM, "IOU2dMatching", "is_better_than", "self.value > threshold_value", "self.value >= threshold_value", "caught"),
    ("M04", OM, "IOU3dMatching", "is_better_than", "self.value > threshold_value", "self.value < threshold_value", "caught"),
    ("M05", OM, "CenterDistanceMatching", "is_better_than", "if self.value is None:", "if self.value is not None:", "caught"),
    ("M06", OM, "IOU2dMatching", "is_better_than", "return False", "return True", "caught"),
    ("M07", OM, "IOU3dMatching", "is_better_than", "threshold_value <= 1.0,", "threshold_value <= 2.0,", "caught"),
    ("M08", OM, "IOU2dMatching", "is_better_than", "assert 0.0 <= threshold_value", "assert 0.0 < threshold_value", "caught"),
    ("M09", OM, "MatchingLabelPolicy", "is_matchable", "is_fp() or self ==", "is_fp() and self ==", "caught"),
    ("M10", OM, "MatchingLabelPolicy", "is_matchable", "or self == MatchingLabelPolicy.ALLOW_ANY", "or self == MatchingLabelPolicy.ALLOW_UNKNOWN", "caught"),
    ("M11", OM, "MatchingLabelPolicy", "is_matchable", "ground_truth) or estimation", "ground_truth) and estimation", "caught"),
    ("M12", OM, "MatchingLabelPolicy", "is_matchable", "elif self == MatchingLabelPolicy.ALLOW_UNKNOWN", "elif self != MatchingLabelPolicy.ALLOW_UNKNOWN", "caught"),
    ("M13", OM, "MatchingLabelPolicy", "is_matchable", "return True", "return False", "caught"),
    ("M14", OR, "DynamicObjectWithPerceptionResult", "is_result_correct", "if self.ground_truth_object is None:", "if self.ground_truth_object is not None:", "caught"),
    ("M15", OR, "DynamicObjectWithPerceptionResult", "is_result_correct", "not is_matching\n", "is_matching\n", "caught"),
    ("M16", OR, "DynamicObjectWithPerceptionResult", "is_result_correct", "else is_matching and self.is_label_correct", "else is_matching or self.is_label_correct", "caught"),
    ("M17", OR, "DynamicObjectWithPerceptionResult", "is_result_correct", "if self.ground_truth_object.semantic_label.is_fp()", "if not self.ground_truth_object.semantic_label.is_fp()", "caught"),
    ("M18", OR, "DynamicObjectWithPerceptionResult", "is_result_correct", "if matching_threshold is None:", "if matching_threshold is not None:", "caught"),
    ("M19", OR, "DynamicObjectWithPerceptionResult", "is_label_correct", "return False", "return True", "caught"),
    ("M20", OR, "DynamicObjectWithPerceptionResult", "is_result_correct", "if matching is None:", "if matching is not None:", "caught"),
    ("M21", TH, None, "get_label_threshold", "if semantic_label.label in target_labels:", "if semantic_label.label not in target_labels:", "caught"),
    ("M22", TH, None, "get_label_threshold", "if target_labels is None:", "if target_labels is not None:", "caught"),
    ("M23", TH, None, "get_label_threshold", "return label_threshold", "return None", "caught"),
    ("M24", OF, None, "_is_target_object", "and is_gt is False", "and is_gt is True", "caught"),
    ("M25", OF, None, "_is_target_object", "is_unknown_estimation and not is_contained_unknown", "is_unknown_estimation and is_contained_unknown", "caught"),
    ("M26", OF, None, "_is_target_object", "dynamic_object.semantic_score > confidence_threshold", "dynamic_object.semantic_score >= confidence_threshold", "caught"),
    ("M27", OF, None, "_is_target_object", "0.0 if use_unknown_threshold", "0.5 if use_unknown_threshold", "caught"),
    ("M28", OF, None, "_is_target_object", "abs(position_[0]) < max_x_position", "abs(position_[1]) < max_x_position", "caught"),
    ("M29", OF, None, "_is_target_object", "bev_distance_ < max_distance", "bev_distance_ <= max_distance", "caught"),
    ("M30", OF, None, "_is_target_object", "bev_distance_ > min_distance", "bev_distance_ < min_distance", "caught"),
    ("M31", OF, None, "_is_target_object", "dynamic_object.pointcloud_num >= min_point_number", "dynamic_object.pointcloud_num > min_point_number", "caught"),
    ("M32", OF, None, "_is_target_object", "min_point_numbers is not None and is_gt:", "min_point_numbers is not None and not is_gt:", "caught"),
    ("M33", OF, None, "_is_target_object", "confidence_threshold_list is not None and not is_gt:", "confidence_threshold_list is not None and is_gt:", "caught"),
    ("M34", OF, None, "_is_target_object", "if transforms is None and dynamic_object.frame_id", "if transforms is None or dynamic_object.frame_id", "caught"),
    ("M35", OF, None, "_is_target_object", "is_fp():\n        return True", "is_fp():\n        return False", "caught"),
    ("M36", OF, None, "_is_target_object", "if ignore_attributes is not None:", "if ignore_attributes is None:", "caught"),
    ("M37", OF, None, "_is_target_object", "else is_target and not dynamic_object.semantic_label.contains_any", "else is_target and dynamic_object.semantic_label.contains_any", "caught"),
    ("M38", OF, None, "_is_target_object", "np.mean(max_y_position_list)", "np.mean(max_x_position_list)", "caught"),
    ("M39", OF, None, "_is_target_object", "is_target and True\n            if use_unknown_threshold\n            else is_target and dynamic_object.semantic_label.label", "is_target and False\n            if use_unknown_threshold\n            else is_target and dynamic_object.semantic_label.label", "caught"),
    ("M40", OF, None, "_is_target_object", "is_target and dynamic_object.uuid in target_uuids", "is_target or dynamic_object.uuid in target_uuids", "caught"),   # is_target is True there: `True or x`
    ("M41", OF, None, "_is_target_object", "is_target = is_target and abs(position_[0])", "is_target = True and abs(position_[0])", "equivalent"),
    ("M42", OF, None, "_is_target_object", "abs(position_[0]) < max_x_position", "not abs(position_[0]) >= max_x_position", "caught"),
    ("M43", OF, None, "_is_target_object", "elif dynamic_object.state.position is not None and transforms is not None:", "elif dynamic_object.state.position is not None or transforms is not None:", "caught"),
    ("M44", OF, None, "_is_target_object", "if bev_distance_ is not None:", "if bev_distance_ is None:", "caught"),
    ("M45", OF, None, "_is_target_object", "dynamic_object.uuid in target_uuids", "dynamic_object.uuid not in target_uuids", "caught"),
    ("M46", CL, "CLEAR", "_is_id_switched", "ground_truth_object is None or prev_object_result", "ground_truth_object is None and prev_object_result", "caught"),
    ("M47", CL, "CLEAR", "_is_id_switched", "return not has_same_ground_truth_id", "return has_same_ground_truth_id", "caught"),
    ("M48", CL, "CLEAR", "_is_id_switched", "return not (has_same_estimated_id", "return (has_same_estimated_id", "caught"),
    ("M49", CL, "CLEAR", "_is_id_switched", "return not (has_same_estimated_id * has_same_estimated_label)", "return True", "equivalent"),
    ("M50", CL, "CLEAR", "_is_id_switched", "elif has_same_ground_truth_id:", "if has_same_ground_truth_id:", "equivalent"),
    ("M51", CL, "CLEAR", "_is_id_switched", "\n        return False\n\n    @staticmethod", "\n        return True\n\n    @staticmethod", "caught"),
    ("M52", CL, "CLEAR", "_is_same_match", "cur_object_result.estimated_object.uuid == prev_object_result.estimated_object.uuid", "cur_object_result.estimated_object.uuid != prev_object_result.estimated_object.uuid", "caught"),
    ("M53", CL, "CLEAR", "_is_same_match", "has_same_estimated_label * has_same_ground_truth_id", "has_same_estimated_label + has_same_ground_truth_id", "caught"),
    ("M54", CL, "CLEAR", "_is_id_switched", "cur_object_result.ground_truth_object.uuid == prev_object_result.ground_truth_object.uuid", "cur_object_result.estimated_object.uuid == prev_object_result.ground_truth_object.uuid", "caught"),
    ("M55", CL, "CLEAR", "_is_same_match", "ground_truth_object is None:\n            return False", "ground_truth_object is None:\n            return True", "caught"),
    ("M56", CL, "CLEAR", "_is_same_match", "return False regardless", "return True regardless", "equivalent"),   # inside the docstring
]
# (id, description, file, class, function, new source of the whole function (dedented; re-indented on insertion))
REFACTORINGS = [
    ("R01", "is_better_than (CenterDistance): if/else folded into one `and`", OM, "CenterDistanceMatching", "is_better_than", '''
def is_better_than(self, threshold_value: float) -> bool:
    """Folded."""
    return self.value is not None and self.value < threshold_value
'''),
    ("R02", "is_better_than (IOU3d): `a > b` as `b < a`, else removed, logging added", OM, "IOU3dMatching", "is_better_than", '''
def is_better_than(self, threshold_value: float) -> bool:
    assert 0.0 <= threshold_value <= 1.0, f"threshold must be [0.0, 1.0], but got {threshold_value}"
    logging.debug("comparing")
    if self.value is None:
        return False
    return threshold_value < self.value
'''),
    ("R03", "is_better_than (PlaneDistance): extracted locals, result variable", OM, "PlaneDistanceMatching", "is_better_than", '''
def is_better_than(self, threshold_value: float) -> bool:
    value: Optional[float] = self.value
    if value is None:
        return False
    better: bool = value < threshold_value
    return better
'''),
    ("R04", "is_matchable: reordered disjuncts, elif/else -> early returns", OM, "MatchingLabelPolicy", "is_matchable", '''
def is_matchable(self, estimation: ObjectType, ground_truth: ObjectType) -> bool:
    if self == MatchingLabelPolicy.ALLOW_ANY or ground_truth.semantic_label.is_fp():
        return True
    if self == MatchingLabelPolicy.ALLOW_UNKNOWN:
        return estimation.semantic_label.is_unknown() or is_same_label(estimation, ground_truth)
    return is_same_label(estimation, ground_truth)
'''),
    ("R05", "is_result_correct: extracted local for is_fp(), IfExp -> if/return, merged None tests, `not ... is not None`", OR, "DynamicObjectWithPerceptionResult", "is_result_correct", '''
def is_result_correct(self, matching_mode: MatchingMode, matching_threshold: Optional[float]) -> bool:
    """Rewritten."""
    if not self.ground_truth_object is not None:
        return False
    if matching_threshold is None:
        return self.is_label_correct
    matching: Optional[MatchingMethod] = self.get_matching(matching_mode)
    if matching is None:
        return self.is_label_correct
    gt_is_fp: bool = self.ground_truth_object.semantic_label.is_fp()
    ok = matching.is_better_than(matching_threshold)
    logging.info("judged")
    if gt_is_fp:
        return not ok
    return self.is_label_correct and ok
'''),
    ("R06", "is_label_correct: `is not None and` instead of if/else", OR, "DynamicObjectWithPerceptionResult", "is_label_correct", '''
def is_label_correct(self) -> bool:
    return self.ground_truth_object is not None and self.matching_label_policy.is_matchable(
        self.estimated_object, self.ground_truth_object
    )
'''),
    ("R07", "get_label_threshold: early returns instead of the accumulator, merged None tests, `not in`, inlined index", TH, None, "get_label_threshold", '''
def get_label_threshold(semantic_label: Label, target_labels: Optional[List[LabelType]], threshold_list: Optional[List[float]]) -> Optional[float]:
    if target_labels is None or threshold_list is None:
        return None
    if semantic_label.label not in target_labels:
        return None
    return threshold_list[target_labels.index(semantic_label.label)]
'''),
    ("R08", "_is_id_switched: De Morgan on the None test, `and` instead of `*`, renamed locals, elif -> if", CL, "CLEAR", "_is_id_switched", '''
def _is_id_switched(cur_object_result, prev_object_result) -> bool:
    if not (cur_object_result.ground_truth_object is not None and prev_object_result.ground_truth_object is not None):
        return False
    same_id: bool = cur_object_result.estimated_object.uuid == prev_object_result.estimated_object.uuid
    same_label: bool = cur_object_result.estimated_object.semantic_label == prev_object_result.estimated_object.semantic_label
    same_est = same_id and same_label
    same_gt = cur_object_result.ground_truth_object.uuid == prev_object_result.ground_truth_object.uuid
    if same_est:
        return not same_gt
    if same_gt:
        return not same_est
    return False
'''),
    ("R09", "_is_same_match: early returns instead of the product", CL, "CLEAR", "_is_same_match", '''
def _is_same_match(cur_object_result, prev_object_result) -> bool:
    if cur_object_result.ground_truth_object is None:
        return False
    if prev_object_result.ground_truth_object is None:
        return False
    if cur_object_result.estimated_object.uuid != prev_object_result.estimated_object.uuid:
        return False
    if not cur_object_result.estimated_object.semantic_label == prev_object_result.estimated_object.semantic_label:
        return False
    return prev_object_result.ground_truth_object.uuid == cur_object_result.ground_truth_object.uuid
'''),
]

# _is_target_object refactorings are textual edits of the real function (it is long): list of (old, new) applied in order
TARGET_REFACTORINGS = [
    ("R10", "_is_target_object: `not a <= b` for `a > b`, `not is_gt` for `is_gt is False`, reordered guard conjuncts, logging, annotation", [
        ("dynamic_object.semantic_score > confidence_threshold", "not dynamic_object.semantic_score <= confidence_threshold"),
        ("and is_gt is False", "and not is_gt"),
        ("if is_target and confidence_threshold_list is not None and not is_gt:", "if confidence_threshold_list is not None and not is_gt and is_target:"),
        ("    is_target: bool = True\n", "    is_target: bool = True\n    logging.debug('filtering')\n    checked: int\n"),
        ("bev_distance_ > min_distance", "min_distance < bev_distance_"),
    ]),
    ("R11", "_is_target_object: accumulator renamed (is_target -> keep)", [("is_target", "keep")]),
    ("R12", "_is_target_object: label / attribute steps as early returns instead of the accumulator", [
        ("""    if target_labels:
        is_target = (
            is_target and True
            if use_unknown_threshold
            else is_target and dynamic_object.semantic_label.label in target_labels
        )

    if ignore_attributes is not None:
        is_target = (
            is_target and True
            if use_unknown_threshold
            else is_target and not dynamic_object.semantic_label.contains_any(ignore_attributes)
        )
""", """    if target_labels and not use_unknown_threshold:
        if dynamic_object.semantic_label.label not in target_labels:
            return False

    if ignore_attributes is not None and not use_unknown_threshold:
        if dynamic_object.semantic_label.contains_any(ignore_attributes):
            return False
"""),
    ]),
    ("R13", "_is_target_object: the two position blocks merged under one `position_ is not None`, elif -> nested if", [
        ("""    if transforms is None and dynamic_object.frame_id == FrameID.BASE_LINK:
        position_ = dynamic_object.state.position
        bev_distance_ = dynamic_object.get_distance_bev()
    elif dynamic_object.state.position is not None and transforms is not None:
        position_ = transforms.transform((dynamic_object.frame_id, FrameID.BASE_LINK), dynamic_object.state.position)
        bev_distance_ = dynamic_object.get_distance_bev(transforms)
    else:
        position_ = bev_distance_ = None
""", """    position_ = None
    bev_distance_ = None
    if transforms is None:
        if dynamic_object.frame_id == FrameID.BASE_LINK:
            position_ = dynamic_object.state.position
            bev_distance_ = dynamic_object.get_distance_bev()
    else:
        if dynamic_object.state.position is not None:
            position_ = transforms.transform((dynamic_object.frame_id, FrameID.BASE_LINK), dynamic_object.state.position)
            bev_distance_ = dynamic_object.get_distance_bev(transforms)
"""),
        ("    if bev_distance_ is not None:\n        if is_target and max_distance_list is not None:", "    if bev_distance_ is not None and position_ is not None:\n        if is_target and max_distance_list is not None:"),
    ]),
    ("R14", "_is_target_object: confidence step with an extracted comparison variable and an explicit if", [
        ("        is_target = is_target and dynamic_object.semantic_score > confidence_threshold\n",
         "        is_confident: bool = dynamic_object.semantic_score > confidence_threshold\n        if not is_confident:\n            is_target = False\n"),
    ]),
]


# ---------------------------------------------------------------------------------------------------------------------
def func_span(src, cls, func):
    tree = ast.parse(src)
    body = tree.body
    if cls is not None:
        body = [n for n in body if isinstance(n, ast.ClassDef) and n.name == cls][0].body
    f = [n for n in body if isinstance(n, ast.FunctionDef) and n.name == func][0]
    lines = src.splitlines(keepends=True)
    first = min([f.lineno] + [d.lineno for d in f.decorator_list])
    start = sum(len(l) for l in lines[:first - 1])
    end = sum(len(l) for l in lines[:f.end_lineno])
    return start, end, f


def apply_edit(src, cls, func, old, new):
    a, b, _ = func_span(src, cls, func)
    b2 = min(len(src), b + 40)          # a little context after the function (for anchors that include the next decorator)
    seg = src[a:b2]
    if seg.count(old) < 1:
        raise RuntimeError(f"anchor not found in {func}: {old!r}")
    seg = seg.replace(old, new, 1)
    return src[:a] + seg + src[b2:]


def replace_function(src, cls, func, new_src):
    a, b, f = func_span(src, cls, func)
    indent = " " * f.col_offset
    new = textwrap.dedent(new_src).strip("\n") + "\n"
    decos = "".join(indent + "@" + ast.unparse(d) + "\n" for d in f.decorator_list)
    new = decos + "".join(indent + l if l.strip() else l for l in new.splitlines(keepends=True))
    return src[:a] + new + src[b:]


def make_scratch(n):
    d = os.path.join(SCRATCH, str(n))
    shutil.rmtree(d, ignore_errors=True)
    dst = os.path.join(d, "repo", "perception_eval", "perception_eval")
    shutil.copytree(PKGDIR, dst, ignore=shutil.ignore_patterns("__pycache__", "*.pyc"))
    os.makedirs(os.path.join(d, "coq"))
    return d


def split_gentie():
    with open(os.path.join(THEORIES, "Props", "GenTie.v")) as f:
        txt = f.read()
    txt = txt.replace("From PE Require Gen.Decisions.\nImport Gen.Decisions.", "From SCR Require Decisions.\nImport Decisions.")
    assert "SCR" in txt
    parts = re.split(r"(?m)^(?=Theorem )", txt)
    header, blocks = parts[0], {}
    for p in parts[1:]:
        name = re.match(r"Theorem (\w+)", p).group(1)
        end = p.index(f"Print Assumptions {name}.") + len(f"Print Assumptions {name}.")
        blocks[name] = p[:end] + "\n"
    return header, blocks


def modules_of(text):
    out = {}
    for m in re.finditer(r"(?s)Module (Gen_\w+)\.(.*?)End \1\.", text):
        out[m.group(1)] = m.group(2)
    return out


def coqc(args, cwd):
    try:
        p = subprocess.run(["timeout", str(COQ_TIMEOUT), "coqc"] + args, cwd=cwd, capture_output=True, text=True)
        return p.returncode, p.stdout + p.stderr
    except Exception as e:  # noqa: BLE001
        return 99, str(e)


def check_theorem(d, header, name, block):
    fn = os.path.join(d, "coq", f"T_{name}.v")
    with open(fn, "w") as f:
        f.write(header + block)
    t0 = time.time()
    rc, out = coqc(["-Q", THEORIES, "PE", "-Q", os.path.join(d, "coq"), "SCR", fn], os.path.join(d, "coq"))
    dt = time.time() - t0
    if rc == 0 and "Closed under the global context" in out:
        return name, "ok", dt
    if rc == 124:
        return name, "timeout", dt
    m = re.search(r"Error:\s*(.*)", out, re.S)
    return name, "FAILS: " + (" ".join(m.group(1).split())[:90] if m else f"rc={rc}"), dt


def run_variant(n, edits, header, blocks, base_modules, pool):
    """edits: list of callables src->src keyed by file.  -> (status string, {theorem: result})"""
    d = make_scratch(n)
    for rel, fn in edits:
        path = os.path.join(d, "repo", "perception_eval", "perception_eval", rel)
        with open(path) as f:
            src = f.read()
        new = fn(src)
        ast.parse(new)
        with open(path, "w") as f:
            f.write(new)
    st = decisions.regenerate(os.path.join(d, "repo"), os.path.join(d, "coq"))["Decisions.v"]
    with open(os.path.join(d, "coq", "Decisions.v")) as f:
        mods = modules_of(f.read()) if base_modules is not None else None
    rc, out = coqc(["-Q", THEORIES, "PE", "-Q", os.path.join(d, "coq"), "SCR", "Decisions.v"], os.path.join(d, "coq"))
    if rc != 0:
        return st, {"<Decisions.v>": "FAILS to compile: " + " ".join(out.split())[:200]}, d
    if base_modules is None:
        todo = list(blocks)
    else:
        changed = [m for m in base_modules if mods.get(m) != base_modules[m]]
        todo = [t for t, b in blocks.items() if any(re.search(r"\b" + re.escape(m) + r"\.", b) for m in changed)]
    res = {}
    for t in todo:
        name, r, dt = check_theorem(d, header, t, blocks[t])
        res[name] = (r, dt)
    return st, res, d


def summarize(res):
    bad = [f"{k} [{v[0]}]" for k, v in res.items() if v[0] != "ok"] if res and isinstance(next(iter(res.values())), tuple) else [f"{k} [{v}]" for k, v in res.items()]
    return bad


def main():
    jobs = 8
    only = None
    keep = "--keep" in sys.argv
    if "--jobs" in sys.argv:
        jobs = int(sys.argv[sys.argv.index("--jobs") + 1])
    if "--only" in sys.argv:
        only = sys.argv[sys.argv.index("--only") + 1]
    ids = [a for a in sys.argv[1:] if re.fullmatch(r"[MR]\d\d", a)]
    shutil.rmtree(SCRATCH, ignore_errors=True)
    os.makedirs(SCRATCH)
    rc, out = coqc(["-Q", THEORIES, "PE", os.path.join(THEORIES, "Proofs", "GenTieLemmas.v")], THEORIES)
    if rc != 0:
        print("Proofs/GenTieLemmas.v does not compile:", out)
        return 1
    header, blocks = split_gentie()
    failures = 0
    with cf.ThreadPoolExecutor(max_workers=jobs) as pool:
        # ---- (1) unchanged repo
        t0 = time.time()
        st, res, d0 = run_variant("base", [], header, blocks, None, pool)
        with open(os.path.join(d0, "coq", "Decisions.v")) as f:
            base_modules = modules_of(f.read())
        print(f"(1) UNCHANGED /repo: translation: {'all translated' if st is None else st}")
        print(f"    vocabulary: {sum(decisions.vocabulary_size().values())} entries over {len(decisions.vocabulary_size())} functions {decisions.vocabulary_size()}")
        for k, (r, dt) in res.items():
            print(f"    {k:50s} {r}  ({dt:.1f}s)")
        bad = summarize(res)
        print(f"    -> {len(res) - len(bad)}/{len(res)} theorems closed, {time.time() - t0:.0f}s")
        if bad or st is not None:
            failures += 1
        if only == "base":
            return failures
        # ---- (2) mutants
        if only in (None, "mutants"):
            print("\n(2) MUTANTS (one token each)")
            tally = {"caught": 0, "caught (not translated)": 0, "equivalent, still proves": 0, "MISSED": 0, "equivalent but REJECTED": 0}
            todo = [m for m in MUTANTS if not ids or m[0] in ids]
            futs = [pool.submit(run_variant, m[0], [(m[1], lambda s, c=m[2], f=m[3], o=m[4], n=m[5]: apply_edit(s, c, f, o, n))], header, blocks, base_modules, None) for m in todo]
            for (mid, rel, cls, func, old, new, expected), fut in zip(todo, futs):
                st, res, d = fut.result()
                bad = summarize(res)
                if not res:
                    verdict = "NO EFFECT on the generated text"
                    if expected == "caught":
                        verdict = "MISSED (generated text unchanged)"
                        tally["MISSED"] += 1
                    else:
                        tally["equivalent, still proves"] += 1
                elif bad:
                    if expected == "caught":
                        verdict = "caught" + (" (not translated)" if st else "")
                        tally[verdict] += 1
                    else:
                        verdict = "equivalent but REJECTED"
                        tally[verdict] += 1
                else:
                    if expected == "equivalent":
                        verdict = "equivalent, still proves"
                        tally[verdict] += 1
                    else:
                        verdict = "MISSED"
                        tally["MISSED"] += 1
                tmax = max([v[1] for v in res.values()] + [0])
                desc = f"{(cls + '.') if cls else ''}{func}: {' '.join(old.split())[:48]!r} -> {' '.join(new.split())[:48]!r}"
                print(f"  {mid} {verdict:28s} {desc}")
                if st:
                    print(f"        translator: {st[:200]}")
                for b in bad:
                    print(f"        breaks: {b[:170]}")
                if tmax > 60:
                    print(f"        (slowest theorem {tmax:.0f}s)")
                if not keep:
                    shutil.rmtree(d, ignore_errors=True)
            print("  tally:", tally)
            if tally["MISSED"]:
                failures += 1
        # ---- (3) refactorings
        if only in (None, "refactorings"):
            print("\n(3) REFACTORINGS (behaviour preserving)")
            survived = 0
            total = 0
            allr = [(rid, desc, [(rel, lambda s, c=cls, f=func, n=new: replace_function(s, c, f, n))]) for (rid, desc, rel, cls, func, new) in REFACTORINGS]
            for rid, desc, edits in TARGET_REFACTORINGS:
                def fn(s, edits=edits):
                    for o, n in edits:
                        if o == "is_target":
                            a, b, _ = func_span(s, None, "_is_target_object")
                            s = s[:a] + re.sub(r"\bis_target\b", n, s[a:b]) + s[b:]
                        else:
                            s = apply_edit(s, None, "_is_target_object", o, n)
                    return s
                allr.append((rid, desc, [(OF, fn)]))
            allr = [r for r in allr if not ids or r[0] in ids]
            futs = [pool.submit(run_variant, rid, edits, header, blocks, base_modules, None) for rid, desc, edits in allr]
            for (rid, desc, edits), fut in zip(allr, futs):
                total += 1
                st, res, d = fut.result()
                bad = summarize(res)
                if st:
                    verdict = "translator FAILS CLOSED"
                elif bad:
                    verdict = "translated, proof REJECTS"
                else:
                    verdict = "survives" + ("" if res else " (generated text identical)")
                    survived += 1
                tmax = max([v[1] for v in res.values()] + [0])
                print(f"  {rid} {verdict:28s} {desc}  [{len(res)} theorem(s) re-checked, slowest {tmax:.0f}s]")
                if st:
                    print(f"        translator: {st[:220]}")
                for b in bad:
                    print(f"        breaks: {b[:170]}")
                if not keep:
                    shutil.rmtree(d, ignore_errors=True)
            print(f"  {survived}/{total} refactorings survive")
    if not keep:
        shutil.rmtree(SCRATCH, ignore_errors=True)
    return 1 if failures else 0


if __name__ == "__main__":
    sys.exit(main())
