#!/usr/bin/env python3
"""Translator for the HEADING and BOX-SCORE arithmetic of perception_eval (properties C09, C06): Python `ast` -> Gallina
(Gen/decisions_geom.v).

Layer of the redundant tie for C09 / C06: the loop-free arithmetic functions

  common/object.py                                DynamicObject.get_heading_bev, get_heading_error (+ its inner _clip),
                                                  get_position_error, get_distance, get_distance_bev
  evaluation/metrics/detection/tp_metrics.py      TPMetricsAp.get_value, TPMetricsAph.get_value
  evaluation/matching/object_matching.py          _get_height_intersection, _get_volume_intersection,
                                                  IOU3dMatching / IOU2dMatching / CenterDistanceMatching._calculate_matching_score
  common/__init__.py                              distance_objects

are re-translated from the source on every run and Props/GenTieGeom.v proves each generated definition equal, for all inputs, to
the hand model (Model/Heading.v, Model/Geom2.v).  The statement / expression translator is self-contained (the decision translator of
decisions.py has no arithmetic, no `raise`, no re-assigned parameters); only `fail`, `paren`, `qlit`, `parse`, `find_function` of
decisions.py are imported.

ANGLES.  `math.pi` / `np.pi` / `pi` is the UNIT: every rational expression carries a DIMENSION k (the value is  v * pi^k  and v is what
is rendered), so an angle a is rendered as the rational a/pi (k = 1), `2 * pi` is the angle 2, `pi / 2` the angle 1 # 2, and
`diff / pi` is the plain number with the same rendering as diff (k = 0).  `+`, `-`, comparisons, `min`, `max`, `np.where` need equal
dimensions on both sides (the literal 0 has every dimension); `1.0 - diff` with an angle diff, or `diff > 3.14`, is not a rational
multiple of a power of pi and FAILS CLOSED.  Yaw extraction (`orientation.yaw_pitch_roll`) is a leaf: `Heading.yaw_of`.

What is generic:
  expressions  + - * / on Q (float literals read as the decimal they spell; `/` by a non-constant raises ZeroDivisionError when the
               divisor is 0, as Python floats do), unary minus, abs / min / max (Python's argument order: max(a, b) is a unless b > a =
               QUtil.qmax, min(a, b) is a unless b < a = QUtil.qmin), float(x), np.where(c, a, b) and `a if c else b` on scalars,
               comparisons (chains), and / or / not, tuples, calls of other translated functions (error monad);
  statements   (annotated) assignment, re-assignment (also of a parameter), `x op= e`, `a, _, _ = leaf` (as `a = leaf[0]`), if / elif /
               else with early `return` and `raise` (the statements after an `if` are translated once per branch), `x is None` /
               `x is not None` as the test of an `if` NARROWS x in the branches, a nested `def` that is itself translated.
What is per function (the VOCABULARY): the leaves (attribute chains, getter calls, shapely / numpy primitives) mapped to the model's
facts.  Anything else: TranslatorError for THAT function (reported as "<function>: not translated: <why>").
Only `ast` is used; the library is never imported.
"""
import ast
import copy
import os
import sys
from fractions import Fraction

HERE = os.path.dirname(os.path.abspath(__file__))
sys.path.insert(0, HERE)
from py_to_coq import TranslatorError, coq_str  # noqa: E402
from decisions import fail, paren, qlit, parse, find_function  # noqa: E402

MODNAME = "decisions_geom"          # harness/lib/core.py regenerate_gen: translator/<modname>.py writes Gen/<modname>.v

# =============================================================================================
# types:  ("Q", k) | ("bool",) | ("none",) | ("opt", t) | ("tup", (t, ...)) | ("coq", name) | ("obj",)
# =============================================================================================
NUMBER, ANGLE, BOOL, NONE, OBJ = ("Q", 0), ("Q", 1), ("bool",), ("none",), ("obj",)


def opt(t):
    return ("opt", t)


def tup(*ts):
    return ("tup", tuple(ts))


def coqt(name):
    return ("coq", name)


def show(t):
    if t[0] == "Q":
        return {0: "number", 1: "angle"}.get(t[1], f"number * pi^{t[1]}")
    if t[0] == "opt":
        return "Optional[" + show(t[1]) + "]"
    if t[0] == "tup":
        return "(" + ", ".join(show(x) for x in t[1]) + ")"
    if t[0] == "coq":
        return t[1]
    return t[0]


def cty(t):
    if t[0] == "Q":
        return "Q"
    if t[0] == "bool":
        return "bool"
    if t[0] == "opt":
        return f"option {paren(cty(t[1]))}"
    if t[0] == "tup":
        return "(" + " * ".join(paren(cty(x)) for x in t[1]) + ")"
    if t[0] == "coq":
        return t[1]
    fail(f"a {show(t)} has no Coq rendering")


class X:
    """a translated PURE expression: Coq term, type; num: the value of a constant (Fraction); const: True / False of a constant bool"""

    def __init__(self, term, ty, num=None, const=None):
        self.term, self.ty, self.num, self.const = term, ty, num, const


def number(v, dim=0):
    return X(qlit(v), ("Q", dim), num=Fraction(v))


class V:
    """vocabulary entry: Coq template, `{key}` = the NARROWED (known not None) value of the local / leaf `key`"""

    def __init__(self, term, ty, num=None, const=None):
        self.term, self.ty, self.num, self.const = term, ty, num, const


class CallSpec:
    """a call rendered by a template over its arguments: params = [(python name, type, default-or-None)]"""

    def __init__(self, template, params, ret, eff=False, sig=None):
        self.template, self.params, self.ret, self.eff, self.sig = template, params, ret, eff, sig


class Fn:
    def __init__(self, name, file, func, params, penv, ret, vocab=None, calls=None, cls=None, inside=None, pdefaults=None,
                 local_defs=(), needs=(), doc=""):
        self.name, self.file, self.cls, self.func, self.inside = name, file, cls, func, inside
        self.params, self.penv, self.ret = params, penv, ret
        self.vocab, self.calls = dict(PI_VOCAB, **(vocab or {})), calls or {}
        self.pdefaults, self.local_defs, self.needs, self.doc = pdefaults or {}, tuple(local_defs), tuple(needs), doc
        self.counter = 0
        self.stores = {}

    def fresh(self, hint):
        self.counter += 1
        return f"{hint}{self.counter}"


class Env:
    def __init__(self, fn):
        self.fn = fn
        self.vars = {}      # python local -> X
        self.narrow = {}    # key (local name or leaf key) -> X of the payload
        self.alias = {}     # single-assignment local that merely names a leaf -> its AST

    def copy(self):
        e = Env(self.fn)
        e.vars, e.narrow, e.alias = dict(self.vars), dict(self.narrow), dict(self.alias)
        return e


PI_VOCAB = {k: V("1", ANGLE, num=Fraction(1)) for k in ("math.pi", "np.pi", "numpy.pi", "pi")}
EXCEPTIONS = ("ValueError", "ZeroDivisionError", "TypeError")


def lname(n):
    return "l_" + n


class _Subst(ast.NodeTransformer):
    def __init__(self, alias):
        self.alias = alias

    def visit_Name(self, node):
        if isinstance(node.ctx, ast.Load) and node.id in self.alias:
            return copy.deepcopy(self.alias[node.id])
        return node


def norm(node, env):
    return _Subst(env.alias).visit(copy.deepcopy(node)) if env.alias else node


def key_of(node, env):
    return ast.unparse(norm(node, env))


# =============================================================================================
# expressions (continuation-passing: k receives a pure X and returns a Coq term of type `res _`)
# =============================================================================================
def fill(template, env, node):
    out, i = "", 0
    while i < len(template):
        if template[i] == "{":
            j = template.index("}", i)
            key = template[i + 1:j]
            if key not in env.narrow:
                fail(f"`{key}` is used where it may be None", node)
            out += paren(env.narrow[key].term)
            i = j + 1
        else:
            out += template[i]
            i += 1
    return out


def lookup(node, env):
    """a local or a vocabulary leaf -> X, else None"""
    if isinstance(node, ast.Name):
        if node.id in env.narrow:
            return env.narrow[node.id]
        if node.id in env.vars:
            return env.vars[node.id]
    key = key_of(node, env)
    if key in env.narrow:
        return env.narrow[key]
    v = env.fn.vocab.get(key)
    if v is None:
        return None
    if v.ty == OBJ:
        fail(f"the opaque value `{key}` is used as a value", node)
    if v.num is not None:
        return X(qlit(v.num), v.ty, num=v.num)
    return X(fill(v.term, env, node), v.ty, const=v.const)


def same_dim(a, b, node, what):
    """the common type of two rationals (the literal 0 has every dimension)"""
    if a.ty[0] != "Q" or b.ty[0] != "Q":
        fail(f"{what} on a {show(a.ty)} and a {show(b.ty)}", node)
    if a.ty == b.ty:
        return a.ty
    if a.num == 0:
        return b.ty
    if b.num == 0:
        return a.ty
    fail(f"{what} mixes a {show(a.ty)} and a {show(b.ty)}: not a rational multiple of a power of pi", node)


def pure(node, env, what):
    box = []
    out = tr(node, env, lambda x: (box.append(x), "<<pure>>")[1])
    if out != "<<pure>>" or len(box) != 1:
        fail(f"{what} can raise", node)
    return box[0]


def arith(op, a, b, node, k):
    if a.ty[0] != "Q" or b.ty[0] != "Q":
        fail(f"arithmetic on a {show(a.ty)} and a {show(b.ty)}", node)
    if isinstance(op, (ast.Add, ast.Sub)):
        ty = same_dim(a, b, node, "`+` / `-`")
        if a.num is not None and b.num is not None:
            return k(number(a.num + b.num if isinstance(op, ast.Add) else a.num - b.num, ty[1]))
        return k(X(f"{paren(a.term)} {'+' if isinstance(op, ast.Add) else '-'} {paren(b.term)}", ty))
    if isinstance(op, ast.Mult):
        ty = ("Q", a.ty[1] + b.ty[1])
        if a.num is not None and b.num is not None:
            return k(number(a.num * b.num, ty[1]))
        if a.num == 1:                      # 1.0 * x, pi * x: the same rational, another dimension
            return k(X(b.term, ty))
        if b.num == 1:
            return k(X(a.term, ty))
        return k(X(f"{paren(a.term)} * {paren(b.term)}", ty))
    if isinstance(op, ast.Div):
        ty = ("Q", a.ty[1] - b.ty[1])
        if b.num is not None:
            if b.num == 0:
                fail("division by the constant 0", node)
            if a.num is not None:
                return k(number(a.num / b.num, ty[1]))
            if b.num == 1:                  # x / 1.0, x / pi
                return k(X(a.term, ty))
            return k(X(f"{paren(a.term)} / {paren(b.term)}", ty))
        # float division: ZeroDivisionError when the divisor is 0
        return f"(if Qeqb {paren(b.term)} 0 then Err ZeroDivisionError else\n  {k(X(f'{paren(a.term)} / {paren(b.term)}', ty))})"
    fail(f"operator {type(op).__name__}", node)


def compare_atom(op, a, b, node):
    if isinstance(op, (ast.Lt, ast.LtE, ast.Gt, ast.GtE)):
        same_dim(a, b, node, "a comparison")
        f = "Qltb" if isinstance(op, (ast.Lt, ast.Gt)) else "Qleb"
        x, y = (b, a) if isinstance(op, (ast.Gt, ast.GtE)) else (a, b)
        return X(f"{f} {paren(x.term)} {paren(y.term)}", BOOL)
    if isinstance(op, (ast.Eq, ast.NotEq)):
        if a.ty == BOOL and b.ty == BOOL:
            t = f"Bool.eqb {paren(a.term)} {paren(b.term)}"
        else:
            same_dim(a, b, node, "`==`")
            t = f"Qeqb {paren(a.term)} {paren(b.term)}"
        return X(f"negb ({t})" if isinstance(op, ast.NotEq) else t, BOOL)
    fail(f"comparison operator {type(op).__name__}", node)


def cond(node, env):
    """a boolean expression without effects -> X of type bool"""
    leaf = lookup(node, env)
    if leaf is not None:
        if leaf.ty != BOOL:
            fail(f"a {show(leaf.ty)} used as a condition", node)
        return leaf
    if isinstance(node, ast.Constant) and node.value in (True, False) and isinstance(node.value, bool):
        return X("true" if node.value else "false", BOOL, const=node.value)
    if isinstance(node, ast.BoolOp):
        is_and = isinstance(node.op, ast.And)
        terms = []
        for x in (cond(v, env) for v in node.values):
            if x.const is not None and x.const == is_and:
                continue                            # the neutral element
            terms.append(x)
            if x.const is not None:
                break                               # the absorbing element: nothing after it is evaluated
        if not terms:
            return X("true" if is_and else "false", BOOL, const=is_and)
        if len(terms) == 1:
            return terms[0]
        return X((" && " if is_and else " || ").join(paren(y.term) for y in terms), BOOL)
    if isinstance(node, ast.UnaryOp) and isinstance(node.op, ast.Not):
        x = cond(node.operand, env)
        if x.const is not None:
            return X("false" if x.const else "true", BOOL, const=not x.const)
        return X(f"negb {paren(x.term)}", BOOL)
    if isinstance(node, ast.Compare):
        parts, left = [], node.left
        for op, right in zip(node.ops, node.comparators):
            if isinstance(op, (ast.Is, ast.IsNot)):
                fail("`is` is only supported as the whole test of an `if`", node)
            parts.append(compare_atom(op, pure(left, env, "an operand of a comparison"), pure(right, env, "an operand of a comparison"), node))
            left = right
        return parts[0] if len(parts) == 1 else X(" && ".join(paren(p.term) for p in parts), BOOL)
    if isinstance(node, ast.Call) and isinstance(node.func, ast.Name) and node.func.id == "bool" and len(node.args) == 1 and not node.keywords:
        return cond(node.args[0], env)
    fail(f"condition `{key_of(node, env)}` is not in the vocabulary", node)


def coerce(x, to, node):
    """pure term of type `to`"""
    if x.ty == to:
        return x.term
    if to[0] == "Q" and x.ty[0] == "Q":
        if x.num == 0:
            return x.term
        fail(f"a {show(x.ty)} where a {show(to)} is needed", node)
    if to[0] == "opt":
        if x.ty == NONE:
            return "None"
        if x.ty[0] == "opt":
            fail(f"a {show(x.ty)} where a {show(to)} is needed", node)
        return f"Some {paren(coerce(x, to[1], node))}"
    fail(f"a {show(x.ty)} where a {show(to)} is needed", node)


def tr_args(call, spec, env, k, node):
    """bind the arguments of a call to the parameters of its spec (positional, keyword, defaults), left to right"""
    names = [p[0] for p in spec.params]
    given = {}
    if len(call.args) > len(names):
        fail(f"too many arguments for {ast.unparse(call.func)}", node)
    for n, a in zip(names, call.args):
        if isinstance(a, ast.Starred):
            fail("starred argument", node)
        given[n] = a
    for kw in call.keywords:
        if kw.arg is None or kw.arg not in names or kw.arg in given:
            fail(f"keyword argument `{kw.arg}` of {ast.unparse(call.func)}", node)
        given[kw.arg] = kw.value
    order = [n for n in names if n in given]
    vals = {}

    def go(i):
        if i == len(order):
            terms = {}
            for n, ty, default in spec.params:
                if n in vals:
                    terms[n] = paren(coerce(vals[n], ty, node))
                elif default is not None:
                    terms[n] = default
                else:
                    fail(f"argument `{n}` of {ast.unparse(call.func)} is missing", node)
            t = spec.template
            for n in names:
                t = t.replace("{" + n + "}", terms[n])
            t = fill(t, env, node)
            if not spec.eff:
                return k(X(t, spec.ret))
            v = env.fn.fresh("r")
            return f"bind ({t}) (fun {v} =>\n  {k(X(v, spec.ret))})"
        return tr(given[order[i]], env, lambda x: (vals.__setitem__(order[i], x), go(i + 1))[1])
    return go(0)


def tr(node, env, k):
    fn = env.fn
    leaf = lookup(node, env)
    if leaf is not None:
        return k(leaf)
    if isinstance(node, ast.Name) and node.id in env.alias:
        return tr(env.alias[node.id], env, k)
    if isinstance(node, ast.Constant):
        v = node.value
        if v is True or v is False:
            return k(X("true" if v else "false", BOOL, const=v))
        if v is None:
            return k(X("None", NONE))
        if isinstance(v, (int, float)):
            if isinstance(v, float) and (v != v or v in (float("inf"), float("-inf"))):
                fail("non-finite constant", node)
            return k(number(Fraction(repr(v)) if isinstance(v, float) else Fraction(v)))          # the decimal the literal spells
        fail(f"constant {v!r}", node)
    if isinstance(node, ast.UnaryOp) and isinstance(node.op, (ast.USub, ast.UAdd)):
        def with_a(a):
            if a.ty[0] != "Q":
                fail(f"unary minus on a {show(a.ty)}", node)
            if isinstance(node.op, ast.UAdd):
                return k(a)
            if a.num is not None:
                return k(number(-a.num, a.ty[1]))
            return k(X(f"- {paren(a.term)}", a.ty))
        return tr(node.operand, env, with_a)
    if isinstance(node, ast.BinOp):
        return tr(node.left, env, lambda a: tr(node.right, env, lambda b: arith(node.op, a, b, node, k)))
    if isinstance(node, (ast.BoolOp, ast.Compare)) or (isinstance(node, ast.UnaryOp) and isinstance(node.op, ast.Not)):
        return k(cond(node, env))
    if isinstance(node, ast.IfExp):
        c = cond(node.test, env)
        a, b = pure(node.body, env, "a branch of a conditional expression"), pure(node.orelse, env, "a branch of a conditional expression")
        if c.const is not None:
            return k(a if c.const else b)
        ty = same_dim(a, b, node, "a conditional expression")
        return k(X(f"(if {c.term} then {a.term} else {b.term})", ty))
    if isinstance(node, ast.Tuple):
        if len(node.elts) < 2:
            fail("tuple form", node)
        xs = []

        def go(i):
            if i == len(node.elts):
                if any(x.ty[0] != "Q" for x in xs):
                    fail("a tuple of something else than numbers", node)
                return k(X("(" + ", ".join(x.term for x in xs) + ")", tup(*(x.ty for x in xs))))
            return tr(node.elts[i], env, lambda x: (xs.append(x), go(i + 1))[1])
        return go(0)
    if isinstance(node, ast.Call):
        fkey = key_of(node.func, env)
        local = isinstance(node.func, ast.Name) and node.func.id in env.vars
        if fkey in fn.calls and not local:
            return tr_args(node, fn.calls[fkey], env, k, node)
        if fkey in ("abs", "float") and not local and len(node.args) == 1 and not node.keywords:
            def with_x(x):
                if x.ty[0] != "Q":
                    fail(f"{fkey}() of a {show(x.ty)}", node)
                if fkey == "float":
                    return k(x)
                if x.num is not None:
                    return k(number(abs(x.num), x.ty[1]))
                return k(X(f"qabs {paren(x.term)}", x.ty))
            return tr(node.args[0], env, with_x)
        if fkey in ("max", "min") and not local and len(node.args) == 2 and not node.keywords:
            def with_ab(a, b):
                ty = same_dim(a, b, node, f"{fkey}()")
                return k(X(f"q{fkey} {paren(a.term)} {paren(b.term)}", ty))
            return tr(node.args[0], env, lambda a: tr(node.args[1], env, lambda b: with_ab(a, b)))
        if fkey in ("np.where", "numpy.where") and len(node.args) == 3 and not node.keywords:
            # np.where(c, a, b) on scalars: both alternatives are evaluated, the result is a 0-d array of the selected one
            c = cond(node.args[0], env)
            a, b = pure(node.args[1], env, "an alternative of np.where"), pure(node.args[2], env, "an alternative of np.where")
            ty = same_dim(a, b, node, "np.where")
            if c.const is not None:
                return k(a if c.const else b)
            return k(X(f"(if {c.term} then {a.term} else {b.term})", ty))
    if isinstance(node, ast.Subscript) and isinstance(node.slice, ast.Constant) and node.slice.value in (0, 1, 2) \
            and not isinstance(node.slice.value, bool) and lookup(node.value, env) is not None and lookup(node.value, env).ty == PT3:
        p = lookup(node.value, env)                 # position[i] of a position triple
        return k(X(("fst (fst {})", "snd (fst {})", "snd {}")[node.slice.value].format(paren(p.term)), NUMBER))
    fail(f"leaf not in the vocabulary: `{key_of(node, env)}`", node)


# =============================================================================================
# statements
# =============================================================================================
def stores(stmts):
    out = {}
    for s in stmts:
        for n in ast.walk(s):
            if isinstance(n, ast.Name) and isinstance(n.ctx, ast.Store):
                out[n.id] = out.get(n.id, 0) + 1
            elif isinstance(n, ast.AugAssign) and isinstance(n.target, ast.Name):
                out[n.target.id] = out.get(n.target.id, 0) + 1
    return out


def bind_local(env, name, x):
    e1 = env.copy()
    e1.narrow.pop(name, None)
    e1.alias.pop(name, None)
    for key in [key for key in e1.narrow if name in {n.id for n in ast.walk(ast.parse(key)) if isinstance(n, ast.Name)}]:
        e1.narrow.pop(key)
    if x.num is not None or x.ty == NONE or x.const is not None:
        e1.vars[name] = x                   # a constant: no binder
        return e1, None
    e1.vars[name] = X(lname(name), x.ty)
    return e1, f"let {lname(name)} := {x.term} in\n"


def narrow_target(test, env):
    """`x is None` / `x is not None` / `not (...)` of these -> (node of x, positive: True when the test holds for None)"""
    neg = False
    while isinstance(test, ast.UnaryOp) and isinstance(test.op, ast.Not):
        test, neg = test.operand, not neg
    if isinstance(test, ast.Compare) and len(test.ops) == 1 and isinstance(test.ops[0], (ast.Is, ast.IsNot)) \
            and isinstance(test.comparators[0], ast.Constant) and test.comparators[0].value is None:
        return test.left, isinstance(test.ops[0], ast.Is) != neg
    return None


def tr_block(ss, env, k):
    """-> Coq term of type `res <ret>`; k(env) continues after the block (None: the end of the function)"""
    fn = env.fn
    if not ss:
        if k is None:
            fail(f"{fn.func}: control can reach the end of the function without a return")
        return k(env)
    s, rest = ss[0], list(ss[1:])
    if isinstance(s, ast.Pass) or (isinstance(s, ast.Expr) and isinstance(s.value, ast.Constant) and isinstance(s.value.value, str)):
        return tr_block(rest, env, k)
    if isinstance(s, ast.FunctionDef):
        if s.name not in fn.local_defs:
            fail(f"nested function `{s.name}`", s)
        return tr_block(rest, env, k)
    if isinstance(s, ast.Return):
        if s.value is None:
            fail("bare return", s)
        return tr(s.value, env, lambda x: f"Ok {paren(coerce(x, fn.ret, s))}")
    if isinstance(s, ast.Raise):
        e = s.exc
        nm = e.func.id if isinstance(e, ast.Call) and isinstance(e.func, ast.Name) else (e.id if isinstance(e, ast.Name) else None)
        if nm not in EXCEPTIONS or s.cause is not None:
            fail("raise form", s)
        return f"Err {nm}"
    if isinstance(s, ast.AugAssign):
        if not isinstance(s.target, ast.Name):
            fail("augmented assignment to something that is not a plain name", s)
        new = ast.Assign(targets=[ast.Name(id=s.target.id, ctx=ast.Store())],
                         value=ast.BinOp(left=ast.Name(id=s.target.id, ctx=ast.Load()), op=s.op, right=s.value))
        ast.copy_location(new, s)
        ast.fix_missing_locations(new)
        return tr_block([new] + rest, env, k)
    if isinstance(s, ast.AnnAssign) and s.value is None:
        return tr_block(rest, env, k)
    if isinstance(s, (ast.Assign, ast.AnnAssign)):
        targets = s.targets if isinstance(s, ast.Assign) else [s.target]
        if len(targets) != 1:
            fail("chained assignment", s)
        tg = targets[0]
        if isinstance(tg, ast.Tuple):
            # a, _, c = leaf   ==   a = leaf[0]; c = leaf[2]      (the right-hand side must be a leaf: looked up per component)
            if not all(isinstance(t, ast.Name) for t in tg.elts):
                fail("unpacking form", s)
            if any(isinstance(n, ast.Name) and n.id in {t.id for t in tg.elts} for n in ast.walk(s.value)):
                fail("unpacking onto a name the right-hand side reads", s)
            if key_of(s.value, env) not in fn.vocab:
                fail(f"unpacking of `{key_of(s.value, env)}`: not an (opaque) leaf of the vocabulary", s)
            parts = []
            for i, t in enumerate(tg.elts):
                if t.id == "_":
                    continue
                a = ast.Assign(targets=[ast.Name(id=t.id, ctx=ast.Store())],
                               value=ast.Subscript(value=copy.deepcopy(s.value), slice=ast.Constant(value=i), ctx=ast.Load()))
                ast.copy_location(a, s)
                ast.fix_missing_locations(a)
                parts.append(a)
            return tr_block(parts + rest, env, k)
        if not isinstance(tg, ast.Name):
            fail("assignment to something that is not a plain name", s)
        name = tg.id
        if fn.stores.get(name) == 1 and name not in env.vars:
            key = key_of(s.value, env)
            if key in fn.vocab:                         # a single-assignment local that merely NAMES a leaf: substituted
                e1 = env.copy()
                e1.alias[name] = norm(s.value, env)
                return tr_block(rest, e1, k)

        def bound(x):
            e1, let = bind_local(env, name, x)
            body = tr_block(rest, e1, k)
            return body if let is None else let + body
        return tr(s.value, env, bound)
    if isinstance(s, ast.If):
        kk = (lambda e: tr_block(rest, e, k)) if (rest or k is not None) else None
        nt = narrow_target(s.test, env)
        if nt is not None:
            x_node, then_is_none = nt
            if isinstance(x_node, ast.Name) and x_node.id in env.vars:
                key = x_node.id
            else:
                key = key_of(x_node, env)
                if key not in fn.vocab:
                    fail(f"`{key}` compared with None is not a vocabulary leaf / local", s)
            b_none, b_some = (s.body, s.orelse) if then_is_none else (s.orelse, s.body)
            if key in env.narrow:
                return tr_block(list(b_some), env, kk)
            x = lookup(x_node, env)
            if x.ty == NONE:
                return tr_block(list(b_none), env, kk)
            if x.ty[0] != "opt":
                fail(f"`{key}` (a {show(x.ty)}) is compared with None but is never None in the model", s)
            v = fn.fresh("v")
            e1 = env.copy()
            e1.narrow[key] = X(v, x.ty[1])
            return f"match {x.term} with\n| Some {v} => {tr_block(list(b_some), e1, kk)}\n| None => {tr_block(list(b_none), env, kk)}\nend"
        c = cond(s.test, env)
        if c.const is True:
            return tr_block(list(s.body), env, kk)
        if c.const is False:
            return tr_block(list(s.orelse), env, kk)
        return f"(if {c.term}\n then {tr_block(list(s.body), env, kk)}\n else {tr_block(list(s.orelse), env, kk)})"
    fail(f"unsupported statement {type(s).__name__}", s)


# =============================================================================================
# one function
# =============================================================================================
def check_signature(tree, cls, func, expected, inside=None):
    f = find_function(tree, cls, func)
    a = f.args
    if a.kwonlyargs or a.posonlyargs or a.vararg or a.kwarg:
        fail(f"parameter list form of {func}")
    names = [x.arg for x in a.args if x.arg != "self"]
    defaults = [None] * (len(a.args) - len(a.defaults)) + [ast.unparse(d) for d in a.defaults]
    got = [(x.arg, d) for x, d in zip(a.args, defaults) if x.arg != "self"]
    if got != list(expected):
        fail(f"the signature of {func} changed: {got} (the callers' vocabulary was written for {list(expected)})")
    return names


def translate_function(fn, repo, trees):
    def tree_of(rel):
        if rel not in trees:
            trees[rel] = parse(repo, rel)
        return trees[rel]

    if fn.inside is None:
        f = find_function(tree_of(fn.file), fn.cls, fn.func)
    else:
        outer = find_function(tree_of(fn.file), fn.cls, fn.inside)
        fs = [n for n in ast.walk(outer) if isinstance(n, ast.FunctionDef) and n.name == fn.func and n is not outer]
        if len(fs) != 1:
            fail(f"nested function {fn.func} not found in {fn.inside}")
        f = fs[0]
    for spec in fn.calls.values():
        if spec.sig is not None:
            rel, cls, func, expected = spec.sig
            check_signature(tree_of(rel), cls, func, expected)
    fn.counter = 0
    body = list(f.body)
    if body and isinstance(body[0], ast.Expr) and isinstance(body[0].value, ast.Constant) and isinstance(body[0].value.value, str):
        body = body[1:]
    for st in body:
        for n in ast.walk(st):
            if isinstance(n, (ast.For, ast.While, ast.Try, ast.With, ast.NamedExpr, ast.Global, ast.Nonlocal, ast.Delete, ast.Assert, ast.Lambda,
                              ast.Yield, ast.YieldFrom, ast.Await, ast.ClassDef, ast.Starred, ast.ListComp, ast.GeneratorExp)):
                fail(f"unsupported construct {type(n).__name__}", n)
            if isinstance(n, ast.FunctionDef) and n.name not in fn.local_defs:
                fail(f"nested function `{n.name}`", n)
    a = f.args
    if a.kwonlyargs or a.posonlyargs or a.vararg or a.kwarg:
        fail("parameter list form")
    pynames = [x.arg for x in a.args]
    if sorted(pynames) != sorted(fn.penv):
        fail(f"parameters changed: {pynames} (expected {sorted(fn.penv)})")
    defaults = [None] * (len(a.args) - len(a.defaults)) + [ast.unparse(d) for d in a.defaults]
    for x, d in zip(a.args, defaults):
        if fn.pdefaults.get(x.arg) != d:
            fail(f"the default of `{x.arg}` changed: {d} (the callers' vocabulary was written for {fn.pdefaults.get(x.arg)})")
    body = [ast.parse(ast.unparse(s)).body[0] for s in body if not (isinstance(s, ast.FunctionDef) and s.name in fn.local_defs)]
    fn.stores = stores(body)
    env = Env(fn)
    for p in pynames:
        if fn.penv[p] is not None:
            term, ty = fn.penv[p]
            env.vars[p] = X(term, ty)
    term = tr_block(body, env, None)
    out = [f"Module Gen_{fn.name}.", f"(* {fn.file}: {(fn.cls + '.') if fn.cls else ''}{(fn.inside + '.') if fn.inside else ''}{fn.func}"
           + (f" -- {fn.doc}" if fn.doc else "") + " *)",
           f"Definition f {fn.params} : res {paren(cty(fn.ret))} :=\n{term}.", f"End Gen_{fn.name}."]
    return "\n".join(out)


# =============================================================================================
# the functions and their vocabularies
# =============================================================================================
OBJECT_PY = "common/object.py"
TP_PY = "evaluation/metrics/detection/tp_metrics.py"
MATCH_PY = "evaluation/matching/object_matching.py"
COMMON_PY = "common/__init__.py"

ORI, BOX, ROI, PT3 = coqt("Heading.orientation"), coqt("Geom2.box"), coqt("Geom2.roi"), coqt("Geom2.pt3")
TO_BASE = "(self.frame_id, FrameID.BASE_LINK)"
YPR = "self.state.orientation.yaw_pitch_roll"
ROTATED = f"transforms.transform({TO_BASE}, self.state.position, self.state.orientation)"
MOVED = f"transforms.transform({TO_BASE}, self.state.position)"
EST_FRAME = "object_result.estimated_object.frame_id"
IDENTITY = f"HomogeneousMatrix.from_matrix(np.eye(4), {EST_FRAME}, FrameID.BASE_LINK)"
HEADING_SIG = (OBJECT_PY, "DynamicObject", "get_heading_bev", [("transforms", "None")])
OBJ_PAIR = [("estimated_object", None), ("ground_truth_object", None)]
SCORE_PENV = {"self": None, "transforms": None}
SCORE_DEFAULTS = {"transforms": "None"}


def specs():
    S = []
    # ---- C09: headings ------------------------------------------------------------------------------------------------------------------
    S.append(Fn("get_heading_error__clip", OBJECT_PY, "_clip", "(err : Q)", {"err": ("err", ANGLE)}, ANGLE,
                cls="DynamicObject", inside="get_heading_error", doc="err: an angle in pi-units"))
    S.append(Fn("get_heading_error", OBJECT_PY, "get_heading_error",
                "(est : Heading.orientation) (pitch1 roll1 : Q) (other : option Heading.orientation) (pitch2 roll2 : Q)",
                {"self": None, "other": ("other", opt(ORI))}, opt(tup(ANGLE, ANGLE, ANGLE)),
                {YPR: V(None, OBJ), YPR + "[0]": V("Heading.yaw_of est", ANGLE), YPR + "[1]": V("pitch1", ANGLE), YPR + "[2]": V("roll1", ANGLE),
                 "other.state.orientation.yaw_pitch_roll": V(None, OBJ),
                 "other.state.orientation.yaw_pitch_roll[0]": V("Heading.yaw_of {other}", ANGLE),
                 # pitch2 / roll2 are facts of `other`: mentioning the narrowed value makes a read before the None test fail closed
                 "other.state.orientation.yaw_pitch_roll[1]": V("(fun _ : Heading.orientation => pitch2) {other}", ANGLE),
                 "other.state.orientation.yaw_pitch_roll[2]": V("(fun _ : Heading.orientation => roll2) {other}", ANGLE)},
                {"_clip": CallSpec("Gen_get_heading_error__clip.f {err}", [("err", ANGLE, None)], ANGLE, eff=True)},
                cls="DynamicObject", local_defs=("_clip",), needs=("get_heading_error__clip",),
                doc="angles in pi-units; the result is (roll error, pitch error, yaw error)"))
    S.append(Fn("get_heading_bev", OBJECT_PY, "get_heading_bev", "(is_base : bool) (o : Heading.orientation) (transforms : option Q)",
                {"self": None, "transforms": ("transforms", opt(ANGLE))}, ANGLE,
                {"self.frame_id == FrameID.BASE_LINK": V("is_base", BOOL), "FrameID.BASE_LINK == self.frame_id": V("is_base", BOOL),
                 "self.frame_id != FrameID.BASE_LINK": V("negb is_base", BOOL), "FrameID.BASE_LINK != self.frame_id": V("negb is_base", BOOL),
                 YPR: V(None, OBJ), YPR + "[0]": V("Heading.yaw_of o", ANGLE),
                 # a TransformDict is named by the yaw (pi-units) of its frame -> BASE_LINK rotation; composing it with the object's yaw
                 # rotation and reading the yaw back is the model's leaf wrap_yaw
                 ROTATED: V(None, OBJ), ROTATED + "[1]": V(None, OBJ), ROTATED + "[1].yaw_pitch_roll": V(None, OBJ),
                 ROTATED + "[1].yaw_pitch_roll[0]": V("Heading.wrap_yaw (Heading.yaw_of o + {transforms})", ANGLE)},
                cls="DynamicObject", pdefaults={"transforms": "None"},
                doc="transforms: None or the yaw (pi-units) of the registered frame -> BASE_LINK rotation; the result is in pi-units"))
    S.append(Fn("TPMetricsAp_get_value", TP_PY, "get_value", "", {"self": None, "object_result": None}, NUMBER, cls="TPMetricsAp"))
    heading = {}
    for who, flag, o in (("object_result.estimated_object", "est_base", "est"), ("object_result.ground_truth_object", "gt_base", "{object_result.ground_truth_object}")):
        heading[who + ".get_heading_bev"] = CallSpec(f"Gen_get_heading_bev.f {flag} {o} {{transforms}}", [("transforms", opt(ANGLE), "None")], ANGLE,
                                                     eff=True, sig=HEADING_SIG)
    S.append(Fn("TPMetricsAph_get_value", TP_PY, "get_value", "(est_base gt_base : bool) (est : Heading.orientation) (gt : option Heading.orientation)",
                {"self": None, "object_result": None}, NUMBER,
                {"object_result.ground_truth_object": V("gt", opt(ORI)),
                 EST_FRAME: V(None, OBJ),
                 EST_FRAME + " != FrameID.BASE_LINK": V("negb est_base", BOOL), "FrameID.BASE_LINK != " + EST_FRAME: V("negb est_base", BOOL),
                 EST_FRAME + " == FrameID.BASE_LINK": V("est_base", BOOL), "FrameID.BASE_LINK == " + EST_FRAME: V("est_base", BOOL),
                 # the identity matrix registered as frame -> BASE_LINK: a rotation by the yaw 0
                 IDENTITY: V(None, OBJ), f"TransformDict([{IDENTITY}])": V("0", ANGLE, num=Fraction(0)),
                 f"TransformDict({IDENTITY})": V("0", ANGLE, num=Fraction(0))},
                heading, cls="TPMetricsAph", needs=("get_heading_bev",),
                doc="est_base / gt_base: the object's frame_id is BASE_LINK; the weight is a plain number"))
    # ---- C06: box scores ------------------------------------------------------------------------------------------------------------------
    hv = {}
    for py, b in (("estimated_object", "e"), ("ground_truth_object", "g")):
        hv[f"{py}.state.position[2]"] = V(f"Geom2.bz {b}", NUMBER)
        hv[f"{py}.state.size[2]"] = V(f"Geom2.bh {b}", NUMBER)
    S.append(Fn("_get_height_intersection", MATCH_PY, "_get_height_intersection", "(e g : Geom2.box)",
                {"estimated_object": ("e", BOX), "ground_truth_object": ("g", BOX)}, NUMBER, hv))
    inter = CallSpec("inter {estimated_object} {ground_truth_object}", [("estimated_object", BOX, None), ("ground_truth_object", BOX, None)], NUMBER,
                     sig=(MATCH_PY, None, "_get_area_intersection", OBJ_PAIR))
    height = CallSpec("Gen__get_height_intersection.f {estimated_object} {ground_truth_object}",
                      [("estimated_object", BOX, None), ("ground_truth_object", BOX, None)], NUMBER, eff=True,
                      sig=(MATCH_PY, None, "_get_height_intersection", OBJ_PAIR))
    S.append(Fn("_get_volume_intersection", MATCH_PY, "_get_volume_intersection", "(inter : Geom2.box -> Geom2.box -> Q) (e g : Geom2.box)",
                {"estimated_object": ("e", BOX), "ground_truth_object": ("g", BOX)}, NUMBER,
                calls={"_get_area_intersection": inter, "_get_height_intersection": height}, needs=("_get_height_intersection",),
                doc="inter: the leaf _get_area_intersection (shapely)"))
    volume_i = CallSpec("Gen__get_volume_intersection.f inter {estimated_object} {ground_truth_object}",
                        [("estimated_object", BOX, None), ("ground_truth_object", BOX, None)], NUMBER, eff=True,
                        sig=(MATCH_PY, None, "_get_volume_intersection", OBJ_PAIR))
    S.append(Fn("IOU3dMatching__calculate_matching_score", MATCH_PY, "_calculate_matching_score",
                "(inter : Geom2.box -> Geom2.box -> Q) (e : Geom2.box) (g : option Geom2.box)",
                dict(SCORE_PENV, estimated_object=("e", BOX), ground_truth_object=("g", opt(BOX))), NUMBER,
                {"estimated_object.get_volume()": V("Geom2.volume e", NUMBER),
                 "ground_truth_object.get_volume()": V("Geom2.volume {ground_truth_object}", NUMBER)},
                {"_get_volume_intersection": volume_i}, cls="IOU3dMatching", pdefaults=SCORE_DEFAULTS,
                needs=("_get_volume_intersection",)))
    S.append(Fn("IOU2dMatching__calculate_matching_score", MATCH_PY, "_calculate_matching_score",
                "(inter : Geom2.box -> Geom2.box -> Q) (e : Geom2.box) (g : option Geom2.box)",
                dict(SCORE_PENV, estimated_object=("e", BOX), ground_truth_object=("g", opt(BOX))), NUMBER,
                {"isinstance(estimated_object, DynamicObject)": V("true", BOOL, const=True),
                 "estimated_object.get_area_bev()": V("Geom2.area_rect e", NUMBER),
                 "ground_truth_object.get_area_bev()": V("Geom2.area_rect {ground_truth_object}", NUMBER)},
                {"_get_area_intersection": inter}, cls="IOU2dMatching", pdefaults=SCORE_DEFAULTS, doc="on 3D objects (DynamicObject)"))
    inter_roi = CallSpec("Geom2.inter_aa (Geom2.rect_of_roi {estimated_object}) (Geom2.rect_of_roi {ground_truth_object})",
                         [("estimated_object", ROI, None), ("ground_truth_object", ROI, None)], NUMBER,
                         sig=(MATCH_PY, None, "_get_area_intersection", OBJ_PAIR))
    S.append(Fn("IOU2dMatching__calculate_matching_score_roi", MATCH_PY, "_calculate_matching_score",
                "(e : Geom2.roi) (g : option Geom2.roi)",
                dict(SCORE_PENV, estimated_object=("e", ROI), ground_truth_object=("g", opt(ROI))), NUMBER,
                {"isinstance(estimated_object, DynamicObject)": V("false", BOOL, const=False),
                 "estimated_object.get_area()": V("inject_Z (Geom2.roi_area e)", NUMBER),
                 "ground_truth_object.get_area()": V("inject_Z (Geom2.roi_area {ground_truth_object})", NUMBER)},
                {"_get_area_intersection": inter_roi}, cls="IOU2dMatching", pdefaults=SCORE_DEFAULTS,
                doc="on 2D objects (DynamicObject2D with a ROI); the intersection of two ROI polygons is the leaf Geom2.inter_aa"))
    S.append(Fn("CenterDistanceMatching__calculate_matching_score", MATCH_PY, "_calculate_matching_score",
                "(dist : Geom2.box -> Geom2.box -> Q) (e : Geom2.box) (g : option Geom2.box)",
                dict(SCORE_PENV, estimated_object=("e", BOX), ground_truth_object=("g", opt(BOX))), opt(NUMBER),
                calls={"distance_objects": CallSpec("dist {object_1} {object_2}", [("object_1", BOX, None), ("object_2", BOX, None)], NUMBER,
                                                    sig=(COMMON_PY, None, "distance_objects", [("object_1", None), ("object_2", None)]))},
                cls="CenterDistanceMatching", pdefaults=SCORE_DEFAULTS, doc="dist: the leaf distance_objects (a square root)"))
    S.append(Fn("distance_objects", COMMON_PY, "distance_objects", "(same_type is_3d : bool) (d3 d2 : Q)",
                {"object_1": None, "object_2": None}, NUMBER,
                {"type(object_1) != type(object_2)": V("negb same_type", BOOL), "type(object_1) == type(object_2)": V("same_type", BOOL),
                 "isinstance(object_1, DynamicObject)": V("is_3d", BOOL),
                 "distance_points(object_1.state.position, object_2.state.position)": V("d3", NUMBER),
                 "np.linalg.norm(np.array(object_1.roi.center) - np.array(object_2.roi.center))": V("d2", NUMBER)},
                doc="d3 / d2: the leaves distance_points(position, position) and the norm of the ROI-centre difference"))
    # ---- positions ----------------------------------------------------------------------------------------------------------------------
    pv = {}
    for i, proj in enumerate(("fst (fst {})", "snd (fst {})", "snd {}")):
        pv[f"self.state.position[{i}]"] = V(proj.format("p"), NUMBER)
        pv[f"other.state.position[{i}]"] = V(proj.format("{other}"), NUMBER)
    S.append(Fn("get_position_error", OBJECT_PY, "get_position_error", "(p : Geom2.pt3) (other : option Geom2.pt3)",
                {"self": None, "other": ("other", opt(PT3))}, opt(tup(NUMBER, NUMBER, NUMBER)), pv, cls="DynamicObject"))
    for nm, leaf, args in (("get_distance", "np.linalg.norm", [("x", PT3, None)]),):
        S.append(Fn(nm, OBJECT_PY, nm, "(norm : Geom2.pt3 -> Q) (is_base : bool) (p : Geom2.pt3) (transforms : option (Geom2.pt3 -> Geom2.pt3))",
                    {"self": None, "transforms": ("transforms", opt(coqt("(Geom2.pt3 -> Geom2.pt3)")))}, NUMBER,
                    {"self.frame_id == FrameID.BASE_LINK": V("is_base", BOOL), "self.frame_id != FrameID.BASE_LINK": V("negb is_base", BOOL),
                     "self.state.position": V("p", PT3), MOVED: V("{transforms} p", PT3)},
                    {leaf: CallSpec("norm {x}", args, NUMBER)}, cls="DynamicObject", pdefaults={"transforms": "None"},
                    doc="norm: the leaf np.linalg.norm; transforms: None or the frame -> BASE_LINK map on positions"))
    S.append(Fn("get_distance_bev", OBJECT_PY, "get_distance_bev",
                "(hypot : Q -> Q -> Q) (is_base : bool) (p : Geom2.pt3) (transforms : option (Geom2.pt3 -> Geom2.pt3))",
                {"self": None, "transforms": ("transforms", opt(coqt("(Geom2.pt3 -> Geom2.pt3)")))}, NUMBER,
                {"self.frame_id == FrameID.BASE_LINK": V("is_base", BOOL), "self.frame_id != FrameID.BASE_LINK": V("negb is_base", BOOL),
                 "self.state.position": V("p", PT3), MOVED: V("{transforms} p", PT3)},
                {"math.hypot": CallSpec("hypot {x} {y}", [("x", NUMBER, None), ("y", NUMBER, None)], NUMBER)}, cls="DynamicObject", pdefaults={"transforms": "None"},
                doc="hypot: the leaf math.hypot; transforms: None or the frame -> BASE_LINK map on positions"))
    return S


HEADER = """(* GENERATED by translator/decisions_geom.py from the Python source of /repo on every run -- do not edit.
   Part 1 (fixed text): exceptions and the error monad.
   Part 2: one module per function, `f` = its body.  Props/GenTieGeom.v proves each `f` equal to the hand model (Model/Heading.v,
   Model/Geom2.v).  ANGLES are in pi-units (math.pi is the unit: an angle a is the rational a/pi, `2 * pi` is 2, `pi / 2` is 1 # 2);
   float literals are the decimals they spell; `/` by a non-constant raises ZeroDivisionError on 0 as Python floats do. *)
From Coq Require Import String.
From Coq Require Import List Bool ZArith QArith.
From PE Require Import Base.QUtil.
From PE Require Model.Heading Model.Geom2.
Import ListNotations.
Open Scope Q_scope.

(* ---- results: a value, or the class of the exception *)
Inductive exn := ValueError | ZeroDivisionError | TypeError.
Inductive res (A : Type) : Type := Ok (a : A) | Err (e : exn).
Arguments Ok {A} a.
Arguments Err {A} e.
Definition bind {A B} (r : res A) (f : A -> res B) : res B := match r with Ok a => f a | Err e => Err e end.
"""


def _cmt(s):
    """text that is safe inside a Coq comment"""
    return s.replace("*)", "* )").replace("(*", "( *").replace('"', "'")


def generate(repo):
    """-> (text, {function: why-not-translated})"""
    trees, out, bad, done = {}, [HEADER], {}, []
    for fn in specs():
        try:
            missing = [n for n in fn.needs if n not in done]
            if missing:
                fail("depends on " + ", ".join(missing) + " (not translated)")
            txt = translate_function(fn, repo, trees)
        except (TranslatorError, SyntaxError, OSError, RecursionError) as e:
            bad[fn.name] = f"{type(e).__name__}: {e}" if not isinstance(e, TranslatorError) else str(e)
            out.append(f"(* {fn.name}: not translated: {_cmt(bad[fn.name])} *)\n")
            continue
        except Exception as e:  # noqa: BLE001  -- a defect of the translator itself must not look like a translation
            bad[fn.name] = f"internal error {type(e).__name__}: {e}"
            out.append(f"(* {fn.name}: not translated: {_cmt(bad[fn.name])} *)\n")
            continue
        done.append(fn.name)
        out.append(txt + "\n")
    out.append("Open Scope string_scope.")
    out.append("Definition translated : list string := [" + "; ".join(coq_str(n) for n in done) + "].")
    return "\n".join(out) + "\n", bad


def regenerate(repo, outdir):
    """Write <outdir>/decisions_geom.v (only when the content changes).  {"decisions_geom.v": None} when every function was translated,
    else {"decisions_geom.v": "partial: f1: not translated: why; ..."}."""
    os.makedirs(outdir, exist_ok=True)
    txt, bad = generate(repo)
    fname = MODNAME + ".v"
    path = os.path.join(outdir, fname)
    old = None
    if os.path.exists(path):
        with open(path) as fh:
            old = fh.read()
    if old != txt:
        with open(path, "w") as fh:
            fh.write(txt)
    if not bad:
        return {fname: None}
    return {fname: "partial: " + "; ".join(f"{k}: not translated: {v}" for k, v in bad.items())}


if __name__ == "__main__":
    repo_ = sys.argv[1] if len(sys.argv) > 1 else "/repo"
    outdir_ = sys.argv[2] if len(sys.argv) > 2 else os.path.join(HERE, "..", "coq", "theories", "Gen")
    try:
        st = regenerate(repo_, outdir_)
    except OSError as e_:
        print(f"{MODNAME}.v: could not be written: {e_}")
        sys.exit(1)
    for k_, v_ in st.items():
        print(f"{k_}: {'ok' if v_ is None else v_}")
    sys.exit(0)
