"""./check entry point."""
import importlib
import os
import sys

import logging

logging.disable(logging.CRITICAL)

from harness.lib import core  # noqa: E402


def main(argv):
    if len(argv) < 2:
        print("usage: ./check Cxx quick|thorough | ./check Cxx --replay <file>")
        return 2
    pid = argv[0]
    try:
        mod = importlib.import_module(f"harness.props.{pid}")
    except ModuleNotFoundError as e:
        print(f"no check for {pid}: {e}")
        return 2
    prop = mod.PROP
    if argv[1] == "--replay":
        return core.run_replay(prop, argv[2])
    tier = os.environ.get("VERIF_TIER") or argv[1]
    if tier not in ("quick", "thorough"):
        tier = argv[1]
    seed = int(os.environ.get("VERIF_SEED", "0"))
    prop.tier = tier
    return core.run_check(prop, tier, seed)


if __name__ == "__main__":
    sys.exit(main(sys.argv[1:]))
