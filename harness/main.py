"""./check entry point."""
import importlib
import os
import sys

import logging

logging.disable(logging.CRITICAL)

from harness.lib import core  # noqa: E402


def main(argv):
    if len(argv) < 2:
        print("usage: ./check Cxx quick|thorough | ./check Cxx --replay <file>")
        return 2
    pid = argv[0]
    try:
        mod = importlib.import_module(f"harness.props.{pid}")
    except ModuleNotFoundError as e:
        print(f"no check for {pid}: {e}")
        return 2
    prop = mod.PROP
    if argv[1] == "--replay":
        return core.run_replay(prop, argv[2])
    tier = os.environ.get("VERIF_TIER") or argv[1]
    if tier not in ("quick", "thorough"):
        tier = argv[1]
    seed = int(os.environ.get("VERIF_SEED", "0"))
    prop.tier = tier
    try:
        return core.run_check(prop, tier, seed)
    except Exception as e:  # noqa: BLE001
        # the check itself failed (never seen on the unchanged tree): the property is not shown to hold by this run -- reported in the
        # protocol's terms instead of a bare traceback
        import traceback

        tb = traceback.format_exc()
        print(tb[-3000:])
        path = core.write_replay(pid, {"property": pid, "no_failing_input_found": True, "seed": seed, "tier": tier,
                                       "broken": [{"kind": "harness", "error": f"{type(e).__name__}: {e}", "trace": tb[-3000:]}],
                                       "note": "the check raised before reaching a verdict; no obligation was discharged by this run"})
        print(f"VIOLATION property={pid} replay={path} no-failing-input-found")
        return 1


if __name__ == "__main__":
    sys.exit(main(sys.argv[1:]))
