"""C18 -- coordinate transforms compose and invert consistently (HomogeneousMatrix, TransformDict)."""
import glob
import json
import os
from fractions import Fraction

from harness.lib.core import ROOT, Corr, Prop, llit, qlit, slit

TOL = 1e-9

HEADER = ("From Coq Require Import QArith List String Bool.\n"
          "From PE Require Import Base.CaseUtil Model.EnumParse Gen.Enums Model.Transform.\n"
          "Import ListNotations.\nOpen Scope string_scope.\nOpen Scope list_scope.\nOpen Scope Q_scope.\n")
REQUIRES = ["Model/Transform.vo", "Base/CaseUtil.vo"]

# documented frame ids (member name -> value); the oracle's own notion of "which frame a key names":
# the value in any letter case, or the member
FRAMES = {
    "BASE_LINK": "base_link", "MAP": "map", "LIDAR_CONCAT": "lidar_concat", "LIDAR_TOP": "lidar_top",
    "RADAR_FRONT": "radar_front", "RADAR_FRONT_RIGHT": "radar_front_right", "RADAR_FRONT_LEFT": "radar_front_left",
    "RADAR_BACK": "RADAR_BACK", "RADAR_BACK_RIGHT": "radar_back_right", "RADAR_BACK_LEFT": "radar_back_left",
    "CAM_FRONT": "cam_front", "CAM_FRONT_RIGHT": "cam_front_right", "CAM_FRONT_LEFT": "cam_front_left",
    "CAM_FRONT_LOWER": "cam_front_lower", "CAM_BACK": "cam_back", "CAM_BACK_LEFT": "cam_back_left",
    "CAM_BACK_RIGHT": "cam_back_right", "CAM_TRAFFIC_LIGHT_NEAR": "cam_traffic_light_near",
    "CAM_TRAFFIC_LIGHT_FAR": "cam_traffic_light_far", "CAM_TRAFFIC_LIGHT": "cam_traffic_light",
}
FRAME_KEYS = list(FRAMES)
BAD_NAMES = ["zzz", "", "base link", "maps", "base_link ", "world"]

# integer 4-vectors with integer norm: the rational points of S^3 they give are exact unit quaternions
S3 = [((1, 0, 0, 0), 1), ((0, 0, 0, 1), 1), ((1, 1, 1, 1), 2), ((1, 2, 2, 4), 5), ((2, 3, 6, 0), 7), ((3, 4, 0, 0), 5),
      ((0, 3, 0, 4), 5), ((1, 2, 2, 0), 3), ((1, 4, 8, 0), 9), ((2, 4, 5, 6), 9), ((1, 1, 3, 5), 6), ((1, 3, 3, 9), 10),
      ((1, 1, 7, 7), 10), ((1, 5, 5, 7), 10), ((1, 2, 4, 10), 11), ((2, 6, 9, 0), 11), ((2, 10, 11, 0), 15),
      ((4, 0, 0, 3), 5), ((12, 0, 0, 5), 13), ((0, 0, 3, 4), 5)]


# frame pairs (short, long) where the value of one is a prefix / substring of the other's: cam_traffic_light vs cam_traffic_light_near,
# cam_front vs cam_front_left, radar_back vs radar_back_right ... -- never the same frame, in any position of a key
PREFIX_PAIRS = [(a, b) for a in FRAMES for b in FRAMES if a != b and FRAMES[a].lower() in FRAMES[b].lower()]


def edge_quats():
    """exact unit quaternions (w, axis component) about the x-, y- and z-axis with angles next to 0 (0.23 deg, 0.00023 deg), next to pi
    (the same distances from the half turn), next to pi/2 (90.5 deg / 89.5 deg) and beyond 120 deg about a dominated axis (w = 1/5, 2/7);
    either sign"""
    out = []
    pairs = []
    for m in (1000, 10 ** 6):
        pairs += [(Fraction(m * m - 1, m * m + 1), Fraction(2 * m, m * m + 1)), (Fraction(2 * m, m * m + 1), Fraction(m * m - 1, m * m + 1))]
    pairs += [(Fraction(119, 169), Fraction(120, 169)), (Fraction(120, 169), Fraction(119, 169))]
    for w, a in pairs:
        for ax in (1, 2, 3):
            for sg in ((1, 1), (1, -1), (-1, 1)):
                q = [Fraction(0)] * 4
                q[0], q[ax] = sg[0] * w, sg[1] * a
                out.append(tuple(q))
    for v, n in (((1, 4, 2, 2), 5), ((1, 2, 4, 2), 5), ((1, 2, 2, 4), 5), ((2, 6, 3, 0), 7), ((2, 0, 6, 3), 7), ((2, 3, 0, 6), 7)):
        out.append(tuple(Fraction(x, n) for x in v))
        out.append(tuple(Fraction(-x, n) for x in v))
    return out


# ------------------------------------------------------------------------------------------------
# exact quaternion arithmetic for generators and the oracle (Fractions; independent of the Coq model:
# a rotation is the sandwich product q (0,v) q^*)
# ------------------------------------------------------------------------------------------------
def qmul(a, b):
    aw, ax, ay, az = a
    bw, bx, by, bz = b
    return (aw * bw - ax * bx - ay * by - az * bz,
            aw * bx + ax * bw + ay * bz - az * by,
            aw * by - ax * bz + ay * bw + az * bx,
            aw * bz + ax * by - ay * bx + az * bw)


def qconj(a):
    return (a[0], -a[1], -a[2], -a[3])


def rotate(q, v):
    r = qmul(qmul(q, (Fraction(0),) + tuple(v)), qconj(q))
    return r[1:]


def apply_exact(q, t, p):
    r = rotate(q, p)
    return tuple(r[i] + t[i] for i in range(3))


def rotmat_exact(q):
    cols = [rotate(q, e) for e in ((1, 0, 0), (0, 1, 0), (0, 0, 1))]
    return [[cols[j][i] for j in range(3)] for i in range(3)]


def fr_quat(qj):
    return tuple(Fraction(n, d) for n, d in qj)


def fr_vec(v):
    return tuple(Fraction(x) for x in v)


def quat_json(q):
    return [[x.numerator, x.denominator] for x in q]


def rand_quat(rng, products=True):
    (v, n) = rng.choice(S3)
    v = list(v)
    rng.shuffle(v)
    q = tuple(Fraction(x * rng.choice((1, -1)), n) for x in v)
    if products and rng.random() < 0.35:
        q = qmul(q, rand_quat(rng, False))
    if rng.random() < 0.3:
        q = tuple(-x for x in q)     # the other sign of the same rotation
    assert sum(x * x for x in q) == 1
    return q


def rand_vec(rng, big=False):
    m = 2048 if big else 160
    return [rng.randint(-m, m) / 8.0 for _ in range(3)]


def rand_spelling(rng, key):
    v = FRAMES[key]
    k = rng.randrange(5)
    if k == 0:
        return {"member": key}
    if k == 1:
        return {"str": v.lower()}
    if k == 2:
        return {"str": v.upper()}
    if k == 3:
        return {"str": v}
    return {"str": "".join(c.upper() if rng.random() < 0.5 else c.lower() for c in v)}


def all_spellings(key):
    v = FRAMES[key]
    out = [{"member": key}, {"str": v.lower()}, {"str": v.upper()}, {"str": v.title()}]
    return out


def doc_frame(sp):
    """The frame a key element names according to the documentation (None: names no frame)."""
    if "member" in sp:
        return sp["member"]
    for k, v in FRAMES.items():
        if v.lower() == sp["str"].lower():
            return k
    return None


def rand_rigid(rng, src, dst, forms=("tuple", "Quaternion", "array", "matrix3", "matrix4", "rot4x4"), big=False):
    q = rand_quat(rng)
    t = rand_vec(rng, big)
    if rng.random() < 0.08:
        t = [0.0, 0.0, 0.0]
    if rng.random() < 0.06:
        q = (Fraction(1), Fraction(0), Fraction(0), Fraction(0))
    return {"q": quat_json(q), "t": t, "src": rand_spelling(rng, src), "dst": rand_spelling(rng, dst), "form": rng.choice(forms)}


# ------------------------------------------------------------------------------------------------
# driving the implementation
# ------------------------------------------------------------------------------------------------
def _frame_arg(sp):
    from perception_eval.common.schema import FrameID

    return FrameID[sp["member"]] if "member" in sp else sp["str"]


def _rot_arg(qj, form):
    import numpy as np
    from pyquaternion import Quaternion

    q = fr_quat(qj)
    fl = tuple(float(x) for x in q)
    if form == "tuple":
        return fl
    if form == "Quaternion":
        return Quaternion(fl)
    if form == "array":
        return np.array(fl)
    if form in ("matrix3", "matrix4"):
        return np.array([[float(x) for x in row] for row in rotmat_exact(q)])
    if form == "rot4x4":
        m = np.eye(4)
        m[:3, :3] = [[float(x) for x in row] for row in rotmat_exact(q)]
        return m
    raise ValueError(form)


def build(spec):
    import numpy as np
    from perception_eval.common.transform import HomogeneousMatrix

    src, dst = _frame_arg(spec["src"]), _frame_arg(spec["dst"])
    if spec["form"] == "matrix4":
        m = np.eye(4)
        m[:3, :3] = _rot_arg(spec["q"], "matrix3")
        m[:3, 3] = spec["t"]
        return HomogeneousMatrix.from_matrix(m, src, dst)
    return HomogeneousMatrix(tuple(spec["t"]), _rot_arg(spec["q"], spec["form"]), src, dst)


def fl(a):
    return [float(x) for x in a]


def qfl(q):
    return [float(x) for x in q.elements]


def obs_matrix(h):
    return {"matrix": [float(x) for x in h.matrix.reshape(-1)], "position": fl(h.position), "rotation": qfl(h.rotation),
            "src": getattr(h.src, "name", repr(h.src)), "dst": getattr(h.dst, "name", repr(h.dst))}


# ------------------------------------------------------------------------------------------------
# Coq literals
# ------------------------------------------------------------------------------------------------
def c_quat_exact(qj):
    return "(mkQuat " + " ".join(qlit(Fraction(n, d)) for n, d in qj) + ")"


def c_quat_f(q):
    return "(mkQuat " + " ".join(qlit(x) for x in q) + ")"


def c_vec(v):
    return "(mkVec " + " ".join(qlit(x) for x in v) + ")"


def c_ql(v):
    return llit([qlit(x) for x in v])


def c_sp(sp):
    return f'(inr {slit(sp["member"])})' if "member" in sp else f'(inl {slit(sp["str"])})'


def c_mk_rigid(spec):
    return f'(mk_rigid {c_quat_exact(spec["q"])} {c_vec(spec["t"])} {c_sp(spec["src"])} {c_sp(spec["dst"])})'


def with_rigids(specs, body, names=None):
    """match mk_rigid ... with Some T0 => match ... => body | None => false end"""
    names = names or [f"T{i}" for i in range(len(specs))]
    out = body
    for name, spec in reversed(list(zip(names, specs))):
        out = f"(match {c_mk_rigid(spec)} with Some {name} => {out} | None => false end)"
    return out


def c_rigid_close(name, o):
    return f'(rigid_close {name} {c_ql(o["matrix"])} {c_ql(o["position"])} {c_ql(o["rotation"])} {slit(o["src"])} {slit(o["dst"])})'


def close(a, b, tol=TOL):
    return len(a) == len(b) and all(abs(float(x) - float(y)) <= tol for x, y in zip(a, b))


def close_pm(a, b, tol=TOL):
    return close(a, b, tol) or close([-x for x in a], b, tol)


def matmul4(a, b):
    return [sum(a[4 * i + k] * b[4 * k + j] for k in range(4)) for i in range(4) for j in range(4)]


def hm_exact(q, t):
    r = rotmat_exact(q)
    return [r[0][0], r[0][1], r[0][2], t[0], r[1][0], r[1][1], r[1][2], t[1], r[2][0], r[2][1], r[2][2], t[2], 0, 0, 0, 1]


def load_corpus(name):
    out = []
    for p in sorted(glob.glob(os.path.join(ROOT, "corpus", "C18", "*.json"))):
        d = json.load(open(p))
        for e in d.get("cases", []):
            if e.get("correspondence") == name:
                out.append(e["case"])
    return out


# ------------------------------------------------------------------------------------------------
# correspondence 1: HomogeneousMatrix -- transform / inv / dot / matrix, chains
# ------------------------------------------------------------------------------------------------
class RigidCorr(Corr):
    name = "rigid"
    header = HEADER
    requires = REQUIRES
    shard = 40

    def cases(self, tier, rng):
        out = load_corpus(self.name)
        n_single = 120 if tier == "quick" else 2000
        n_chain = 110 if tier == "quick" else 1800
        n_bad = 20 if tier == "quick" else 120
        rforms = ("tuple", "Quaternion", "matrix3", "array")
        # boundary: identity rotation / zero translation / half turns / both signs of one quaternion
        one = [[1, 1], [0, 1], [0, 1], [0, 1]]
        for q in (one, [[-1, 1], [0, 1], [0, 1], [0, 1]], [[0, 1], [0, 1], [0, 1], [1, 1]], [[0, 1], [1, 1], [0, 1], [0, 1]],
                  [[1, 5], [2, 5], [2, 5], [4, 5]], [[-1, 5], [-2, 5], [-2, 5], [-4, 5]]):
            for t in ([0.0, 0.0, 0.0], [1.0, 2.0, 3.0]):
                for form in ("tuple", "matrix3", "matrix4"):
                    out.append({"kind": "single", "T": {"q": q, "t": t, "src": {"member": "BASE_LINK"}, "dst": {"str": "map"}, "form": form},
                                "p": [1.0, 0.0, 0.0], "r": [[2, 7], [3, 7], [6, 7], [0, 1]], "rform": "tuple"})
        # numeric edges of the rotation: every form (quaternion in, matrix in), inv() and the pose route extract a quaternion from a matrix
        eq = edge_quats()
        if tier == "quick":
            eq = [q for i, q in enumerate(eq) if i % 3 == rng.randrange(3) or i >= len(eq) - 12]
        for i, q in enumerate(eq):
            s, d = rng.sample(FRAME_KEYS, 2)
            out.append({"kind": "single", "stream": "edge_angle",
                        "T": {"q": quat_json(q), "t": rand_vec(rng, big=(i % 5 == 0)), "src": rand_spelling(rng, s), "dst": rand_spelling(rng, d),
                              "form": ("tuple", "matrix3", "matrix4", "Quaternion", "rot4x4")[i % 5]},
                        "p": rand_vec(rng, big=(i % 4 == 0)), "r": quat_json(eq[(7 * i + 3) % len(eq)] if i % 2 else rand_quat(rng)),
                        "rform": rforms[i % 4]})
        # composition across frames whose names contain one another: X->short then long->Y (and the reverse) must be rejected, X->short then
        # short->Y accepted
        for k, (sh, lo) in enumerate(PREFIX_PAIRS):
            x, y = rng.sample([f for f in FRAME_KEYS if f not in (sh, lo)], 2)
            for first_dst, second_src in ((sh, lo), (lo, sh), (sh, sh), (lo, lo)):
                if tier == "quick" and (first_dst == second_src) and k % 3:
                    continue
                chain = [rand_rigid(rng, x, first_dst), rand_rigid(rng, second_src, y)]
                out.append({"kind": "chain", "stream": "prefix_frames", "chain": chain, "p": rand_vec(rng), "r": quat_json(rand_quat(rng)),
                            "via": [("dot", "transform", "transform_kw")[k % 3]]})
        for i in range(n_single):
            s, d = rng.sample(FRAME_KEYS, 2) if rng.random() < 0.9 else [rng.choice(FRAME_KEYS)] * 2
            out.append({"kind": "single", "T": rand_rigid(rng, s, d, big=(i % 7 == 0)), "p": rand_vec(rng, big=(i % 11 == 0)),
                        "r": quat_json(rand_quat(rng)), "rform": rng.choice(rforms)})
            if i % 4 == 3:       # int-typed position (as in the docstrings' `position=(1, 0, 0)`), sometimes an int-typed translation
                out[-1]["p"] = [rng.randint(-40, 40) for _ in range(3)]
                if i % 8 == 3 and out[-1]["T"]["form"] != "matrix4":
                    out[-1]["T"]["t"] = [rng.randint(-40, 40) for _ in range(3)]
        for i in range(n_chain):
            n = rng.randint(2, 5)
            frames = [rng.choice(FRAME_KEYS) for _ in range(n + 1)] if rng.random() < 0.3 else rng.sample(FRAME_KEYS, n + 1)
            chain = [rand_rigid(rng, frames[j], frames[j + 1]) for j in range(n)]
            if rng.random() < 0.22:       # break the chain somewhere: composition must be rejected
                j = rng.randrange(1, n)
                wrong = rng.choice([f for f in FRAME_KEYS if f != frames[j]])
                if rng.random() < 0.5:
                    chain[j]["src"] = rand_spelling(rng, wrong)
                else:
                    chain[j - 1]["dst"] = rand_spelling(rng, wrong)
            out.append({"kind": "chain", "chain": chain, "p": rand_vec(rng), "r": quat_json(rand_quat(rng)),
                        "via": [rng.choice(("dot", "transform", "transform_kw")) for _ in range(n - 1)]})
        for _ in range(n_bad):
            T = rand_rigid(rng, "MAP", "BASE_LINK")
            T[rng.choice(("src", "dst"))] = {"str": rng.choice(BAD_NAMES)}
            out.append({"kind": "bad_name", "T": T})
        return out

    # --- implementation
    def run_impl(self, case):
        if case["kind"] == "bad_name":
            return self._run(case)
        try:
            return self._run(case)
        except (TypeError, ValueError, AssertionError, IndexError) as e:
            # a documented input representation refused: reported by the oracle with this input
            return {"impl_error": f"{type(e).__name__}: {str(e)[:160]}"}

    def _run(self, case):
        import numpy as np
        from perception_eval.common.transform import HomogeneousMatrix

        if case["kind"] == "bad_name":
            try:
                h = build(case["T"])
            except ValueError as e:
                return {"error": "ValueError"}
            return {"built": obs_matrix(h)}
        if case["kind"] == "single":
            T = build(case["T"])
            p = tuple(case["p"])
            o = {"T": obs_matrix(T)}
            o["tp"] = fl(T.transform(p))
            o["tp_kw"] = fl(T.transform(position=p))
            o["tp_list"] = fl(T.transform(list(p)))
            tp2, tr2 = T.transform(p, _rot_arg(case["r"], case["rform"]))
            o["tp2"], o["tr2"] = fl(tp2), qfl(tr2)
            tp3, tr3 = T.transform(position=np.array(p), rotation=_rot_arg(case["r"], case["rform"]))
            o["tp3"], o["tr3"] = fl(tp3), qfl(tr3)
            inv = T.inv()
            o["inv"] = obs_matrix(inv)
            bp, br = inv.transform(tp2, tr2)
            o["back_p"], o["back_r"] = fl(bp), qfl(br)
            o["back_point"] = fl(inv.transform(T.transform(p)))
            ip, ir = inv.transform(p, _rot_arg(case["r"], case["rform"]))
            fp, fr = T.transform(ip, ir)
            o["inv_p"], o["inv_r"], o["fwd_p"], o["fwd_r"] = fl(ip), qfl(ir), fl(fp), qfl(fr)
            # the 4x4 route, spelled out with numpy on the implementation's own matrices
            pose = HomogeneousMatrix(p, _rot_arg(case["r"], case["rform"]), T.src, T.src)
            o["pose_matrix"] = [float(x) for x in pose.matrix.reshape(-1)]
            o["result_pose_matrix"] = [float(x) for x in HomogeneousMatrix(tp2, tr2, T.dst, T.dst).matrix.reshape(-1)]
            o["inv_inv"] = obs_matrix(inv.inv())
            return o
        # chain
        Ts = [build(s) for s in case["chain"]]
        o = {"Ts": [obs_matrix(T) for T in Ts]}
        acc = Ts[0]
        o["steps"] = []
        for T, via in zip(Ts[1:], case["via"]):
            try:
                if via == "dot":
                    acc = T.dot(acc)
                elif via == "transform":
                    acc = acc.transform(T)
                else:
                    acc = acc.transform(matrix=T)
            except ValueError:
                o["error"] = "ValueError"
                o["error_at"] = len(o["steps"]) + 1
                return o
            o["steps"].append(obs_matrix(acc))
        o["C"] = obs_matrix(acc)
        p, r = tuple(case["p"]), _rot_arg(case["r"], "tuple")
        cp, cr = acc.transform(p, r)
        o["C_p"], o["C_r"], o["C_point"] = fl(cp), qfl(cr), fl(acc.transform(p))
        sp, sr = p, r
        o["stepwise"] = []
        for T in Ts:
            sp, sr = T.transform(sp, sr)
            o["stepwise"].append([fl(sp), qfl(sr)])
        return o

    # --- model
    def coq_term(self, case, obs):
        if "impl_error" in obs:
            return "false"
        if case["kind"] == "bad_name":
            if "error" in obs:
                return f'(match {c_mk_rigid(case["T"])} with None => true | Some _ => false end)'
            return with_rigids([case["T"]], c_rigid_close("T0", obs["built"]))
        if case["kind"] == "single":
            p, r = c_vec(case["p"]), c_quat_exact(case["r"])
            pose = f"(apply_pose T0 ({p}, {r}))"
            parts = [
                c_rigid_close("T0", obs["T"]),
                f'vec_close tol9 (apply_point T0 {p}) {c_ql(obs["tp"])}',
                f'vec_close tol9 (apply_point T0 {p}) {c_ql(obs["tp_kw"])}',
                f'vec_close tol9 (apply_point_via_matrix T0 {p}) {c_ql(obs["tp_list"])}',
                f'vec_close tol9 (fst {pose}) {c_ql(obs["tp2"])}', f'quat_close_pm tol9 (snd {pose}) {c_ql(obs["tr2"])}',
                f'vec_close tol9 (fst {pose}) {c_ql(obs["tp3"])}', f'quat_close_pm tol9 (snd {pose}) {c_ql(obs["tr3"])}',
                f'mat_close tol9 (apply_pose_via_matrix T0 ({p}, {r})) {c_ql(obs["result_pose_matrix"])}',
                f'mat_close tol9 (hm {r} {p}) {c_ql(obs["pose_matrix"])}',
                c_rigid_close("(inv T0)", obs["inv"]),
                c_rigid_close("(inv (inv T0))", obs["inv_inv"]),
                f'vec_close tol9 (fst (apply_pose (inv T0) {pose})) {c_ql(obs["back_p"])}',
                f'quat_close_pm tol9 (snd (apply_pose (inv T0) {pose})) {c_ql(obs["back_r"])}',
                f'vec_close tol9 (apply_point (inv T0) (apply_point T0 {p})) {c_ql(obs["back_point"])}',
                f'vec_close tol9 (fst (apply_pose (inv T0) ({p}, {r}))) {c_ql(obs["inv_p"])}',
                f'quat_close_pm tol9 (snd (apply_pose (inv T0) ({p}, {r}))) {c_ql(obs["inv_r"])}',
                f'vec_close tol9 (fst (apply_pose T0 (apply_pose (inv T0) ({p}, {r})))) {c_ql(obs["fwd_p"])}',
                f'quat_close_pm tol9 (snd (apply_pose T0 (apply_pose (inv T0) ({p}, {r})))) {c_ql(obs["fwd_r"])}',
                "unit_quat (rq T0)",
            ]
            return with_rigids([case["T"]], "(" + " && ".join(parts) + ")")
        specs = case["chain"]
        names = [f"T{i}" for i in range(len(specs))]
        rest = llit(names[1:])
        parts = [c_rigid_close(n, o) for n, o in zip(names, obs["Ts"])]
        # the prefix compositions observed before the end / before the error
        for i, so in enumerate(obs["steps"]):
            parts.append(f'dot_check (chain_from_n T0 {llit(names[1:i + 2])}) (fun C => {c_rigid_close("C", so)})')
        if "error" in obs:
            k = obs["error_at"]
            parts.append(f"dot_is_error (chain_from_n T0 {llit(names[1:k + 1])})")
            parts.append(f"dot_is_error (chain_from_n T0 {rest})")
        else:
            p, r = c_vec(case["p"]), c_quat_exact(case["r"])
            parts.append(f'dot_check (chain_from_n T0 {rest}) (fun C => {c_rigid_close("C", obs["C"])} '
                         f'&& vec_close tol9 (fst (apply_pose C ({p}, {r}))) {c_ql(obs["C_p"])} '
                         f'&& quat_close_pm tol9 (snd (apply_pose C ({p}, {r}))) {c_ql(obs["C_r"])} '
                         f'&& vec_close tol9 (apply_point C {p}) {c_ql(obs["C_point"])})')
            for i, (sp, sr) in enumerate(obs["stepwise"]):
                pre = llit(names[:i + 1])
                parts.append(f"vec_close tol9 (fst (apply_chain_pose_n {pre} ({p}, {r}))) {c_ql(sp)}")
                parts.append(f"quat_close_pm tol9 (snd (apply_chain_pose_n {pre} ({p}, {r}))) {c_ql(sr)}")
        return with_rigids(specs, "(" + " && ".join(parts) + ")", names)

    def coq_debug(self, case, obs):
        if case["kind"] == "single":
            p, r = c_vec(case["p"]), c_quat_exact(case["r"])
            return f'(match {c_mk_rigid(case["T"])} with Some T0 => Some (to_matrix T0, apply_pose T0 ({p}, {r}), inv T0) | None => None end)'
        if case["kind"] == "chain":
            names = [f"T{i}" for i in range(len(case["chain"]))]
            body = f"Some (chain_from_n T0 {llit(names[1:])})"
            out = body
            for name, spec in reversed(list(zip(names, case["chain"]))):
                out = f"(match {c_mk_rigid(spec)} with Some {name} => {out} | None => None end)"
            return out
        return c_mk_rigid(case["T"])

    # --- the property, stated directly on the implementation's outputs
    def oracle(self, case, obs):
        if "impl_error" in obs:
            specs = [case["T"]] if "T" in case else case["chain"]
            return (f"a well-formed transform (rotation forms {[t['form'] for t in specs]}, translation {specs[0]['t']}, position {case.get('p')}) "
                    f"was refused: {obs['impl_error']}")
        if case["kind"] == "bad_name":
            bad = [k for k in ("src", "dst") if doc_frame(case["T"][k]) is None]
            if bad and "error" not in obs:
                return f"HomogeneousMatrix accepted the unknown frame name {case['T'][bad[0]]}"
            if not bad and "error" in obs:
                return "HomogeneousMatrix rejected documented frame names"
            return None
        if case["kind"] == "single":
            T = case["T"]
            q, t, p, r = fr_quat(T["q"]), fr_vec(T["t"]), fr_vec(case["p"]), fr_quat(case["r"])
            s, d = doc_frame(T["src"]), doc_frame(T["dst"])
            if (obs["T"]["src"], obs["T"]["dst"]) != (s, d):
                return f"frame labels {obs['T']['src']}->{obs['T']['dst']} instead of {s}->{d}"
            want = apply_exact(q, t, p)
            for k in ("tp", "tp_kw", "tp_list", "tp2", "tp3"):
                if not close(obs[k], want):
                    return f"transform(position) = {obs[k]} but rotate-then-translate gives {fl(want)} ({k})"
            wr = qmul(q, r)
            for k in ("tr2", "tr3"):
                if not close_pm(obs[k], wr):
                    return f"transformed orientation {obs[k]} is not +-(q*r) = {fl(wr)}"
            # round trips
            if not close(obs["back_p"], p) or not close(obs["back_point"], p):
                return f"inv().transform(transform(p)) = {obs['back_p']} / {obs['back_point']} != p = {fl(p)}"
            if not close_pm(obs["back_r"], r):
                return f"inv() does not restore the orientation: {obs['back_r']} vs {fl(r)}"
            if not close(obs["fwd_p"], p) or not close_pm(obs["fwd_r"], r):
                return f"transform(inv().transform(p, r)) = {obs['fwd_p']}, {obs['fwd_r']} != (p, r)"
            if (obs["inv"]["src"], obs["inv"]["dst"]) != (d, s):
                return f"inv() is labelled {obs['inv']['src']}->{obs['inv']['dst']} instead of {d}->{s}"
            # agreement with the homogeneous matrices
            M = obs["T"]["matrix"]
            hp = [M[4 * i] * float(p[0]) + M[4 * i + 1] * float(p[1]) + M[4 * i + 2] * float(p[2]) + M[4 * i + 3] for i in range(4)]
            if not close(hp, obs["tp"] + [1.0]):
                return f"matrix . (p,1) = {hp} but transform(p) = {obs['tp']}"
            if not close(matmul4(M, obs["pose_matrix"]), obs["result_pose_matrix"]):
                return "matrix . matrix(pose) differs from the matrix of the transformed pose"
            if not close(matmul4(obs["inv"]["matrix"], M), [1.0 if i % 5 == 0 else 0.0 for i in range(16)]):
                return "inv().matrix . matrix is not the identity"
            if not close(M, hm_exact(q, t)):
                return f".matrix is not [R(q) t; 0 1]: {M}"
            if not close(obs["inv_inv"]["matrix"], M):
                return "inv().inv() differs from the original"
            return None
        # chain
        frames = [(doc_frame(s["src"]), doc_frame(s["dst"])) for s in case["chain"]]
        brk = next((j for j in range(1, len(frames)) if frames[j][0] != frames[j - 1][1]), None)
        if brk is not None:
            if obs.get("error") != "ValueError" or obs.get("error_at") != brk:
                return f"composition with mismatched frames at step {brk} was not rejected there: {obs.get('error')} at {obs.get('error_at')}"
            return None
        if "error" in obs:
            return f"composition of a well-formed chain was rejected at step {obs['error_at']}"
        if (obs["C"]["src"], obs["C"]["dst"]) != (frames[0][0], frames[-1][1]):
            return f"composed transform labelled {obs['C']['src']}->{obs['C']['dst']} instead of {frames[0][0]}->{frames[-1][1]}"
        for j, so in enumerate(obs["steps"]):
            if (so["src"], so["dst"]) != (frames[0][0], frames[j + 1][1]):
                return f"partial composition {j} labelled {so['src']}->{so['dst']}"
        if not close(obs["C_p"], obs["stepwise"][-1][0]) or not close(obs["C_point"], obs["stepwise"][-1][0]):
            return f"composed transform maps p to {obs['C_p']} but the single steps give {obs['stepwise'][-1][0]}"
        if not close_pm(obs["C_r"], obs["stepwise"][-1][1]):
            return f"composed orientation {obs['C_r']} but stepwise {obs['stepwise'][-1][1]}"
        # each step is rotate-then-translate (exact reference), so the composition is anchored too
        p, r = fr_vec(case["p"]), fr_quat(case["r"])
        for s, (sp, sr) in zip(case["chain"], obs["stepwise"]):
            p, r = apply_exact(fr_quat(s["q"]), fr_vec(s["t"]), p), qmul(fr_quat(s["q"]), r)
            if not close(sp, p) or not close_pm(sr, r):
                return f"step result {sp}, {sr} differs from the exact {fl(p)}, {fl(r)}"
        # compose agrees with the matrix product
        acc = obs["Ts"][0]["matrix"]
        for j, so in enumerate(obs["steps"]):
            acc = matmul4(obs["Ts"][j + 1]["matrix"], acc)
            if not close(so["matrix"], acc, 1e-8):
                return f"composition {j} differs from the product of the matrices"
        return None

    def nontrivial(self, case, obs):
        if case["kind"] == "bad_name":
            return True
        specs = [case["T"]] if case["kind"] == "single" else case["chain"]
        return any(abs(s["q"][0][0]) != s["q"][0][1] for s in specs) and any(any(s["t"]) for s in specs)

    def distribution(self, cases, obs):
        d = {"kinds": {}, "forms": {}, "chain_lengths": {}, "rejected_compositions": 0, "negative_w": 0, "int_typed_positions": 0,
             "int_typed_translations": 0, "edge_angle_singles(next to 0 / pi / pi/2, > 120 deg about x / y / z)": 0,
             "chains_over_frames_whose_names_contain_one_another": {"rejected": 0, "accepted": 0},
             "single_rotations_beyond_120_deg_by_dominant_axis": {"x": 0, "y": 0, "z": 0}}
        for c, o in zip(cases, obs):
            d["kinds"][c["kind"]] = d["kinds"].get(c["kind"], 0) + 1
            d["edge_angle_singles(next to 0 / pi / pi/2, > 120 deg about x / y / z)"] += c.get("stream") == "edge_angle"
            if c.get("stream") == "prefix_frames" and isinstance(o, dict):
                d["chains_over_frames_whose_names_contain_one_another"]["rejected" if "error" in o else "accepted"] += 1
            if c["kind"] == "single":
                w_, x_, y_, z_ = fr_quat(c["T"]["q"])
                if w_ * w_ < Fraction(1, 4):
                    d["single_rotations_beyond_120_deg_by_dominant_axis"][max((x_ * x_, "x"), (y_ * y_, "y"), (z_ * z_, "z"))[1]] += 1
            if c["kind"] == "single":
                d["int_typed_positions"] += all(isinstance(x, int) for x in c["p"])
                d["int_typed_translations"] += all(isinstance(x, int) for x in c["T"]["t"])
            for s in ([c["T"]] if "T" in c else c["chain"]):
                d["forms"][s["form"]] = d["forms"].get(s["form"], 0) + 1
                if s["q"][0][0] < 0:
                    d["negative_w"] += 1
            if c["kind"] == "chain":
                d["chain_lengths"][len(c["chain"])] = d["chain_lengths"].get(len(c["chain"]), 0) + 1
                if isinstance(o, dict) and "error" in o:
                    d["rejected_compositions"] += 1
        return d


# ------------------------------------------------------------------------------------------------
# correspondence 2: TransformDict
# ------------------------------------------------------------------------------------------------
def effective_registry(case):
    """The registry content after the case's operation sequence: `reg[key] = M` replaces / adds the entry of that key (the model's lookup
    takes the LAST entry of a key, like the dict the constructor builds), `del reg[key]` removes it, queries change nothing."""
    reg = list(case["registry"])
    for op in case.get("ops", []):
        if op["op"] == "set":
            reg.append(op["spec"])
        elif op["op"] == "del":
            k = (doc_frame(op["spec"]["src"]), doc_frame(op["spec"]["dst"]))
            reg = [m for m in reg if (doc_frame(m["src"]), doc_frame(m["dst"])) != k]
    return reg


class RegistryCorr(Corr):
    name = "registry"
    header = HEADER
    requires = REQUIRES
    shard = 80

    def cases(self, tier, rng):
        out = load_corpus(self.name)
        n = 330 if tier == "quick" else 5000
        # every spelling of every frame as X->X and against a registered neighbour (direct and inverse)
        base = {"q": [[1, 5], [2, 5], [2, 5], [4, 5]], "t": [1.0, 2.0, 3.0], "form": "tuple"}
        for i, k in enumerate(FRAME_KEYS):
            other = FRAME_KEYS[(i + 1) % len(FRAME_KEYS)]
            reg = [dict(base, src={"member": k}, dst={"member": other})]
            sps = all_spellings(k)
            for a in sps:
                for b in (sps if tier != "quick" else sps[:2] + [sps[(i % 2) + 2]]):
                    out.append({"registry": reg, "a": a, "b": b, "keyobj": False, "arg": "point", "p": [1.0, 0.0, 0.0]})
                out.append({"registry": reg, "a": a, "b": {"str": FRAMES[other].upper()}, "keyobj": i % 2 == 0, "arg": "pose",
                            "p": [1.0, 0.0, 0.0], "r": [[2, 7], [3, 7], [6, 7], [0, 1]]})
                out.append({"registry": reg, "a": {"member": other}, "b": a, "keyobj": i % 2 == 1, "arg": "pose_kw",
                            "p": [1.0, 0.0, 0.0], "r": [[2, 7], [3, 7], [6, 7], [0, 1]]})
        for i in range(n):
            nf = rng.randint(2, 5)
            frames = rng.sample(FRAME_KEYS, nf)
            reg = []
            for _ in range(rng.randint(0, 5)):
                if rng.random() < 0.08:
                    s = d = rng.choice(frames)       # an X->X entry: never consulted
                else:
                    s, d = rng.sample(frames, 2)
                reg.append(rand_rigid(rng, s, d, forms=("tuple", "Quaternion", "matrix3")))
            u = rng.random()
            if u < 0.12:
                ka = kb = rng.choice(frames)
            elif u < 0.2:
                ka, kb = rng.choice(frames), rng.choice([f for f in FRAME_KEYS if f not in frames])
            else:
                ka, kb = rng.sample(frames, 2)
            a, b = rand_spelling(rng, ka), rand_spelling(rng, kb)
            if rng.random() < 0.05:
                bad = {"str": rng.choice(BAD_NAMES)}
                if rng.random() < 0.5:
                    a, b = bad, (bad if rng.random() < 0.4 else b)
                else:
                    b = bad
            c = {"registry": reg, "a": a, "b": b, "keyobj": rng.random() < 0.25,
                 "arg": rng.choice(("point", "point_kw", "pose", "pose", "pose_kw", "matrix", "matrix_kw")), "p": rand_vec(rng)}
            if c["arg"].startswith("pose"):
                c["r"] = quat_json(rand_quat(rng))
                c["rform"] = rng.choice(("tuple", "Quaternion", "matrix3"))
            if c["arg"].startswith("matrix"):
                # a matrix whose source is (usually) the query's destination frame
                msrc = kb if rng.random() < 0.85 else rng.choice(FRAME_KEYS)
                c["M"] = rand_rigid(rng, msrc, rng.choice(FRAME_KEYS), forms=("tuple",))
            if reg and rng.random() < 0.45:
                # an operation sequence on the SAME registry before the final query: earlier queries (both directions, so that any
                # memoised inverse is populated), re-registration of an entry with a new transform, deletion, registration of the reverse
                ops = []
                for _ in range(rng.randint(1, 4)):
                    u = rng.random()
                    m = rng.choice(reg)
                    if u < 0.45:
                        qa, qb = (m["src"], m["dst"]) if rng.random() < 0.4 else (m["dst"], m["src"])
                        if rng.random() < 0.4:
                            qa, qb = a, b
                        ops.append({"op": "query", "a": qa, "b": qb})
                    elif u < 0.8:
                        s_, d_ = doc_frame(m["src"]), doc_frame(m["dst"])
                        if rng.random() < 0.25:
                            s_, d_ = d_, s_
                        ops.append({"op": "set", "spec": rand_rigid(rng, s_, d_, forms=("tuple", "Quaternion")), "keyobj": rng.random() < 0.5})
                    elif u < 0.9:
                        ops.append({"op": "del", "spec": m})
                    else:
                        ops.append({"op": "query", "a": a, "b": b})
                c["ops"] = ops
            out.append(c)
        # frames whose names contain one another, in every position of the registered and of the queried key
        for k, (sh, lo) in enumerate(PREFIX_PAIRS):
            o_ = rng.choice([f for f in FRAME_KEYS if f not in (sh, lo)])
            regs = [
                ([(o_, lo)], [(o_, sh), (sh, o_), (o_, lo), (lo, o_)]),
                ([(o_, lo), (o_, sh)], [(o_, sh), (o_, lo), (sh, o_), (lo, o_)]),
                ([(sh, lo)], [(sh, lo), (lo, sh), (sh, sh), (lo, lo)]),
                ([(lo, sh), (sh, o_)], [(sh, lo), (lo, sh), (lo, o_), (o_, sh)]),
                ([(sh, o_)], [(lo, o_), (o_, lo), (sh, o_)]),
            ]
            for ri, (entries, queries) in enumerate(regs):
                reg = [rand_rigid(rng, a_, b_, forms=("tuple", "Quaternion", "matrix3")) for a_, b_ in entries]
                if tier == "quick":
                    queries = [q_ for qi, q_ in enumerate(queries) if (qi + k + ri) % 2 == 0]
                for qa, qb in queries:
                    c = {"stream": "prefix_frames", "registry": reg, "a": rand_spelling(rng, qa), "b": rand_spelling(rng, qb),
                         "keyobj": rng.random() < 0.4, "arg": rng.choice(("point", "pose", "point_kw", "matrix")), "p": rand_vec(rng)}
                    if c["arg"] == "pose":
                        c["r"] = quat_json(rand_quat(rng))
                        c["rform"] = "tuple"
                    if c["arg"] == "matrix":
                        c["M"] = rand_rigid(rng, qb, rng.choice([sh, lo, o_]), forms=("tuple",))
                    out.append(c)
        # constructor shape (list / tuple / a single matrix / None / no argument) and the read accessors get / [] before or after the query
        for i, c in enumerate(out):
            if "ctor" not in c:
                c["ctor"] = ["list", "tuple", "none", "list", "noarg"][i % 5]
            if "acc" not in c:
                c["acc"] = ["first", "last", "no"][i % 3]
        return out

    def run_impl(self, case):
        import numpy as np
        from perception_eval.common.transform import HomogeneousMatrix, TransformDict, TransformKey

        mats = [build(s) for s in case["registry"]]
        ctor = case.get("ctor", "list")
        try:
            if not mats and ctor in ("none", "noarg"):
                reg = TransformDict(None) if ctor == "none" else TransformDict()     # as FrameGroundTruth builds it without transforms
            elif ctor == "tuple":
                reg = TransformDict(tuple(mats))
            else:
                reg = TransformDict(mats[0] if len(mats) == 1 and case["p"][0] > 0 else mats)
        except TypeError as e:
            return {"ctor_error": f"TransformDict({'None' if ctor == 'none' else '' if ctor == 'noarg' else ctor + ' of ' + str(len(mats))}) raised "
                                  f"TypeError: {str(e)[:120]}"}

        def accessors(o):
            """the read accessors of the registry under the query's key spelling (oracle only)"""
            try:
                k = TransformKey(_frame_arg(case["a"]), _frame_arg(case["b"])) if case["keyobj"] else (_frame_arg(case["a"]), _frame_arg(case["b"]))
            except ValueError:
                o["get"] = o["getitem"] = {"error": "ValueError"}
                return
            for name, f in (("get", lambda: reg.get(k)), ("getitem", lambda: reg[k])):
                try:
                    m = f()
                    o[name] = None if m is None else obs_matrix(m)
                except (KeyError, ValueError) as e:
                    o[name] = {"error": type(e).__name__}
            if not isinstance(k, TransformKey):
                # recorded only (no sentence of the property or of the documentation speaks about comparing a TransformKey with a raw tuple)
                try:
                    o["raw_tuple_equal"] = bool(TransformKey(*k) == k)
                except ValueError:
                    pass
        for op in case.get("ops", []):
            if op["op"] == "query":
                try:
                    reg.transform((_frame_arg(op["a"]), _frame_arg(op["b"])), (1.0, 2.0, 3.0))
                except (KeyError, ValueError):
                    pass
            else:
                sp = op["spec"]
                k = (_frame_arg(sp["src"]), _frame_arg(sp["dst"]))
                k = TransformKey(*k) if op.get("keyobj") else k
                if op["op"] == "set":
                    reg[k] = build(sp)
                else:
                    try:
                        del reg[k]
                    except KeyError:
                        pass
        a, b = _frame_arg(case["a"]), _frame_arg(case["b"])
        o = {"n_keys": len(reg)}
        if case.get("acc") == "first":
            accessors(o)
        try:
            key = TransformKey(a, b) if case["keyobj"] else (a, b)
            arg = case["arg"]
            p = tuple(case["p"])
            if arg == "point":
                res = reg.transform(key, p)
                o["result"], o["unchanged"] = fl(res), res is p
            elif arg == "point_kw":
                res = reg.transform(key, position=p)
                o["result"], o["unchanged"] = fl(res), res is p
            elif arg in ("pose", "pose_kw"):
                r = _rot_arg(case["r"], case.get("rform", "tuple"))
                rp, rr = reg.transform(key, p, r) if arg == "pose" else reg.transform(key, position=p, rotation=r)
                o["unchanged"] = rp is p and rr is r
                if o["unchanged"]:
                    o["result"], o["result_r"] = fl(rp), [float(x[0]) / x[1] for x in case["r"]]
                else:
                    o["result"], o["result_r"] = fl(rp), qfl(rr)
            else:
                M = build(case["M"])
                res = reg.transform(key, M) if arg == "matrix" else reg.transform(key, matrix=M)
                o["unchanged"] = res is M
                o["result_matrix"] = obs_matrix(res)
        except KeyError as e:
            o["error"] = "KeyError"
        except ValueError as e:
            o["error"] = "ValueError"
        if case.get("acc") == "last":
            accessors(o)
        o["n_keys_after"] = len(reg)
        return o

    def _args(self, case):
        return c_sp(case["a"]), c_sp(case["b"])

    def coq_term(self, case, obs):
        if "ctor_error" in obs:
            return "false"
        specs = effective_registry(case)
        names = [f"T{i}" for i in range(len(specs))]
        reg = llit(names)
        a, b = self._args(case)
        arg = case["arg"]
        p = c_vec(case["p"])
        if arg.startswith("point"):
            call = f"(reg_transform_point {reg} {a} {b} {p})"
            ok = f'tres_check {call} (fun v => vec_close tol9 v {c_ql(obs["result"])})' if "result" in obs else None
        elif arg.startswith("pose"):
            call = f'(reg_transform_pose {reg} {a} {b} ({p}, {c_quat_exact(case["r"])}))'
            ok = (f'tres_check {call} (fun pr => vec_close tol9 (fst pr) {c_ql(obs["result"])} && quat_close_pm tol9 (snd pr) {c_ql(obs["result_r"])})'
                  if "result" in obs else None)
        else:
            specs.append(case["M"])
            names.append("M")
            call = f"(reg_transform_matrix {reg} {a} {b} M)"
            ok = f'tres_check {call} (fun C => {c_rigid_close("C", obs["result_matrix"])})' if "result_matrix" in obs else None
        if obs.get("error") == "KeyError":
            body = f"tres_is_key_error {call}"
        elif obs.get("error") == "ValueError":
            body = f"tres_is_value_error {call}"
        else:
            lk = f"(reg_lookup {reg} {a} {b})"
            ident = f"match {lk} with LIdentity => true | _ => false end"
            body = f"({ok} && Bool.eqb ({ident}) {'true' if obs['unchanged'] else 'false'})"
        return with_rigids(specs, body, names)

    def coq_debug(self, case, obs):
        specs = effective_registry(case)
        names = [f"T{i}" for i in range(len(specs))]
        a, b = self._args(case)
        out = f"Some (reg_lookup {llit(names)} {a} {b})"
        for name, spec in reversed(list(zip(names, specs))):
            out = f"(match {c_mk_rigid(spec)} with Some {name} => {out} | None => None end)"
        return out

    def _expected(self, case):
        """(kind, matrix spec) by the documented rule, from the case alone."""
        s, d = doc_frame(case["a"]), doc_frame(case["b"])
        if s is None or d is None:
            return "ValueError", None
        if s == d:
            return "identity", None
        registry = effective_registry(case)
        lab = [(doc_frame(m["src"]), doc_frame(m["dst"])) for m in registry]
        direct = [m for m, l in zip(registry, lab) if l == (s, d)]
        if direct:
            return "direct", direct[-1]
        rev = [m for m, l in zip(registry, lab) if l == (d, s)]
        if rev:
            return "inverse", rev[-1]
        return "KeyError", None

    def _oracle_accessors(self, case, obs):
        """names and enums are interchangeable as keys of EVERY registry accessor: get / [] answer with the entry registered X->Y (no
        inverse fallback: Optional / KeyError), and an entry registered again under another spelling replaces the old one"""
        registry = effective_registry(case)
        labels = [(doc_frame(m["src"]), doc_frame(m["dst"])) for m in registry]
        for k in ("n_keys", "n_keys_after"):
            if k in obs and obs[k] != len(set(labels)):
                return f"the registry holds {obs[k]} keys ({k}) for {len(set(labels))} distinct registered frame pairs {sorted(set(labels))}"
        if "get" not in obs:
            return None
        s, d = doc_frame(case["a"]), doc_frame(case["b"])
        key = f"({case['a']}, {case['b']})"
        if s is None or d is None:
            return None
        direct = [m for m, l in zip(registry, labels) if l == (s, d)]
        if not direct:
            if obs["get"] is not None:
                return f"get{key} = {obs['get']} although no {s}->{d} entry is registered"
            if obs["getitem"] != {"error": "KeyError"}:
                return f"registry[{key}] = {obs['getitem']} although no {s}->{d} entry is registered (expected KeyError)"
            return None
        want = hm_exact(fr_quat(direct[-1]["q"]), fr_vec(direct[-1]["t"]))
        for name in ("get", "getitem"):
            o = obs[name]
            if o is None or "error" in o:
                return f"{name} with key {key} does not find the registered {s}->{d} entry: {o}"
            if (o["src"], o["dst"]) != (s, d) or not close(o["matrix"], want):
                return f"{name} with key {key} returns {o['src']}->{o['dst']} {o['matrix']}, not the entry registered last for {s}->{d}"
        return None

    def oracle(self, case, obs):
        if "ctor_error" in obs:
            return obs["ctor_error"] + " (documented: a HomogeneousMatrix, a sequence of them or None)"
        msg = self._oracle_accessors(case, obs)
        if msg:
            return msg
        kind, m = self._expected(case)
        key = f"({case['a']}, {case['b']})"
        arg = case["arg"]
        if kind == "ValueError":
            return None if obs.get("error") == "ValueError" else f"key {key} names no frame but was not rejected with ValueError: {obs}"
        if kind == "KeyError":
            # (a matrix argument whose frames do not chain is a ValueError of dot(); not this clause)
            return None if obs.get("error") == "KeyError" else f"neither direction of {key} is registered but the query did not raise KeyError: {obs}"
        if kind == "identity":
            if "error" in obs:
                return f"X->X query {key} raised {obs['error']} instead of returning its input"
            if not obs["unchanged"]:
                return f"X->X query {key} did not return its input unchanged: {obs}"
            return None
        p = fr_vec(case["p"])
        q, t = fr_quat(m["q"]), fr_vec(m["t"])
        if arg.startswith("matrix"):
            M = case["M"]
            chains = doc_frame(M["src"]) == doc_frame(case["b"])
            if not chains:
                return None if obs.get("error") == "ValueError" else f"matrix argument with mismatched frames was not rejected: {obs}"
            if "error" in obs:
                return f"query {key} with a matrix argument raised {obs['error']}"
            ro = obs["result_matrix"]
            if (ro["src"], ro["dst"]) != (doc_frame(case["a"]), doc_frame(M["dst"])):
                return f"composed result labelled {ro['src']}->{ro['dst']}"
            # apply the result to a probe point: must equal M(m(p)) resp. M(m^-1(p))
            rq_, rt_ = fr_vec(ro["rotation"]), fr_vec(ro["position"])
            got = apply_exact(rq_, rt_, p)
            qM, tM = fr_quat(M["q"]), fr_vec(M["t"])
            if kind == "direct":
                want = apply_exact(qM, tM, apply_exact(q, t, p))
                return None if close(got, want, 1e-8) else f"registry + matrix argument: probe maps to {fl(got)}, expected {fl(want)}"
            # inverse: M^-1(got) must be the pre-image of p under m
            back = apply_exact(q, t, apply_exact(qconj(qM), tuple(-x for x in rotate(qconj(qM), tM)), got))
            return None if close(back, p, 1e-8) else f"registry inverse + matrix argument: probe comes back as {fl(back)}, expected {fl(p)}"
        if "error" in obs:
            return f"query {key} ({kind} entry registered) raised {obs['error']}"
        if obs["unchanged"] and any(x != 0 for x in t):
            return f"query {key} returned its input although a transform is registered"
        res = fr_vec(obs["result"])
        if kind == "direct":
            want = apply_exact(q, t, p)
            if not close(res, want):
                return f"query {key}: got {obs['result']}, the registered transform gives {fl(want)}"
            if arg.startswith("pose") and not close_pm(obs["result_r"], qmul(q, fr_quat(case["r"]))):
                return f"query {key}: orientation {obs['result_r']} is not the registered rotation applied"
        else:
            back = apply_exact(q, t, res)           # the registered d->s transform takes the answer back to p
            if not close(back, p):
                return f"query {key} answered by the reverse entry: registered(result) = {fl(back)} != p = {fl(p)} (not the inverse)"
            if arg.startswith("pose") and not close_pm(fl(qmul(q, fr_vec(obs["result_r"]))), fr_quat(case["r"])):
                return f"query {key}: orientation is not the inverse rotation applied"
        return None

    def nontrivial(self, case, obs):
        return len(case["registry"]) > 0

    def distribution(self, cases, obs):
        d = {"expected": {}, "args": {}, "key_forms": {"member": 0, "str": 0, "TransformKey": 0}, "registry_sizes": {},
             "cases_with_operation_sequence": sum(1 for c in cases if c.get("ops")),
             "operations": {k: sum(1 for c in cases for op in c.get("ops", []) if op["op"] == k) for k in ("query", "set", "del")},
             "constructor": {}, "accessors_get_getitem": {"found": 0, "absent": 0, "bad_name": 0},
             "observation_TransformKey_eq_raw_tuple_of_same_frames": {"equal": 0, "not_equal": 0},
             "queries_over_frames_whose_names_contain_one_another": {}}
        for c, o in zip(cases, obs):
            if c.get("stream") == "prefix_frames":
                k_ = self._expected(c)[0]
                d["queries_over_frames_whose_names_contain_one_another"][k_] = d["queries_over_frames_whose_names_contain_one_another"].get(k_, 0) + 1
            if not c["registry"] and c.get("ctor") in ("none", "noarg"):
                ck = "None" if c["ctor"] == "none" else "no argument"
            else:
                ck = "tuple" if c.get("ctor") == "tuple" else "single matrix" if len(c["registry"]) == 1 and c["p"][0] > 0 else "list"
            d["constructor"][ck] = d["constructor"].get(ck, 0) + 1
            if isinstance(o, dict) and "get" in o:
                g = o["get"]
                d["accessors_get_getitem"]["absent" if g is None else "bad_name" if "error" in g else "found"] += 1
            if isinstance(o, dict) and "raw_tuple_equal" in o:
                d["observation_TransformKey_eq_raw_tuple_of_same_frames"]["equal" if o["raw_tuple_equal"] else "not_equal"] += 1
            k = self._expected(c)[0]
            d["expected"][k] = d["expected"].get(k, 0) + 1
            d["args"][c["arg"]] = d["args"].get(c["arg"], 0) + 1
            d["registry_sizes"][len(c["registry"])] = d["registry_sizes"].get(len(c["registry"]), 0) + 1
            for sp in (c["a"], c["b"]):
                d["key_forms"]["member" if "member" in sp else "str"] += 1
            if c["keyobj"]:
                d["key_forms"]["TransformKey"] += 1
        return d


class C18(Prop):
    id = "C18"
    props_file = "Props/C18.v"
    # redundant tie (core.gen_tie): these functions, translated from the source on every run, equal the hand model for all inputs
    gen_tie_theorems = ['GenTie_TransformKey___init__', 'GenTie_load_key', 'GenTie_HomogeneousMatrix_labels', 'GenTie_TransformKey___eq__', 'GenTie_TransformKey___eq___model', 'GenTie_TransformKey___hash__', 'GenTie_TransformDict___init__', 'GenTie_get', 'GenTie_get_outside', 'GenTie___getitem__', 'GenTie___getitem___outside', 'GenTie___setitem__', 'GenTie___setitem___outside', 'GenTie___delitem__', 'GenTie___delitem___outside', 'GenTie_inv', 'GenTie_dot', 'GenTie_transform', 'GenTie_transform_key', 'GenTie_transform_outside', 'GenTie_transform_model']
    gen_files = ["Enums.v"]
    design_ref = "DESIGN.md section 4, C18"
    technique = ("Rocq proof over rational quaternions (polynomial identities by ring; unit norm as hypothesis) and an association-list "
                 "registry; key canonicalisation through the FrameID parser regenerated from the source (C20); in-Coq correspondence "
                 "with HomogeneousMatrix / TransformDict on exact rational unit quaternions")
    level_text = ("Theorems (Props/C18.v, closed under the global context) for ALL rational unit quaternions, translations, registries and key "
                  "spellings: inv() cancels transform() on positions and orientations in both orders, swaps labels and is the two-sided 4x4 "
                  "matrix inverse; dot() is 'other then self', exists iff self.src = other.dst, is labelled other.src->self.dst, and equals the "
                  "4x4 product; transform(position[, rotation]) equals the matrix route; chains fold to the stepwise result; TransformDict "
                  "answers with the last registered X->Y, else the inverse of the last registered Y->X, returns the arguments for X->X however "
                  "X is spelt, raises KeyError when neither direction is registered and ValueError for unknown names; str (any case) and "
                  "FrameID keys are interchangeable. Model and implementation are compared on every run on rational points of S^3 (both signs, "
                  "tuple/Quaternion/array/3x3/4x4 input), chains of 2-5 frames, every spelling of every FrameID, missing and malformed keys. "
                  "Run-time oracle only: get / [] / len of the registry under every key spelling, constructor shapes, int-typed positions.")
    level_note = ("Trusted: Coq kernel+vm_compute; translator for the FrameID table and parser shape; the closed forms for np.linalg.inv and "
                  "Quaternion(matrix=...) (validated within 1e-9 by the correspondence, and inv by the matrix-inverse theorem); float rounding "
                  "inside numpy/pyquaternion (tolerance 1e-9); rotations compared up to the sign of the quaternion.")
    rule = ("rigid: boundary rotations x forms, random single transforms (all observations of transform/inv/matrix), chains of 2-5 with 22% "
            "broken chains, malformed names; registry: all spellings of all 20 frames for X->X/direct/inverse, random registries of 0-5 "
            "matrices with duplicates and X->X entries, point/pose/matrix arguments; registries built from a list / tuple / single matrix / "
            "None / no argument; get / [] under the query's key spelling before or after the query (oracle: the entry registered last for "
            "X->Y, None / KeyError otherwise) and len() = number of distinct registered frame pairs; rigid: rotation also as a 4x4 matrix "
            "to the constructor, int-typed positions and translations; edge_angle stream: exact unit quaternions about the x-, y- and z-axis "
            "0.23 deg / 0.00023 deg away from the identity and from the half turn, 0.5 deg on either side of the quarter turn, and rotations "
            "beyond 120 deg about x- / y- / z-dominated axes, either sign, through every input form, inv(), dot() and the pose route (each "
            "extracts a quaternion from a matrix); prefix_frames streams: all 11 frame pairs whose values contain one another "
            "(cam_traffic_light / cam_traffic_light_near, cam_front / cam_front_left, radar_back / radar_back_right ...) in every position of "
            "the registered and of the queried key (direct / inverse / identity / KeyError, every spelling) and as the joint of two-step "
            "compositions (X->short then long->Y must be rejected); non-trivial = non-identity rotation and non-zero "
            "translation (rigid) / non-empty registry")
    assumptions = ["rotations are rational unit quaternions (the implementation receives the nearest binary64 values)",
                   "np.linalg.inv / Quaternion(matrix=) modelled by their closed forms", "ASCII-only model of str.lower()"]
    not_proved = ["np.linalg.inv and pyquaternion's matrix->quaternion extraction as algorithms (closed forms used; compared within 1e-9)",
                  "floating-point rounding", "non-unit / non-orthogonal inputs (pyquaternion normalises or rejects them)"]

    def correspondences(self):
        return [RigidCorr(), RegistryCorr()]


READY = True
PROP = C18()
