"""C05 -- CLEAR tracking scores follow their definitions for every history.

Model: coq/theories/Model/Clear.v; theorems: coq/theories/Props/C05.v.
The correspondences run the real `CLEAR(...)` / `TrackingMetricsScore(...)._sum_clear()` on histories of real
`DynamicObjectWithPerceptionResult` objects and compare every counter and score with the Gallina model inside Coq.
The oracle re-states the property directly on the implementation's counters (independent of the Coq model)."""
import math

from harness.lib.core import Corr, Prop, qlit, llit, olit

LABEL_IDX = {"UNKNOWN": 0, "CAR": 1, "TRUCK": 2, "BUS": 3, "BICYCLE": 4, "MOTORBIKE": 5, "PEDESTRIAN": 6, "ANIMAL": 7, "FP": 8}
MODES = {"center": "CENTERDISTANCE", "plane": "PLANEDISTANCE", "iou2d": "IOU2D", "iou3d": "IOU3D"}
DIST_MODES = ("center", "plane")
EPS = 1e-9

# a result in a case: [est_id:int, est_label:str, gt_id:int|None, gt_label:str|None, off:int]
# the estimate sits off/8 m from its ground truth along x, so the centre distance is exactly off/8.

_cache = {}


def _raw_name(lab, k):
    """The raw (pre-conversion) class name an object carries is NOT part of a track's identity (`Label.__eq__` compares the converted
    label only): the same track may be spelled `car`, `CAR` or `vehicle.car` in consecutive frames (round 5 of DESIGN section 9)."""
    return [lab.value, lab.value.upper(), "vehicle." + lab.value][k % 3]


def _obj(x, label, uuid, k=0):
    from perception_eval.common import DynamicObject
    from perception_eval.common.label import AutowareLabel, Label
    from perception_eval.common.schema import FrameID
    from perception_eval.common.shape import Shape, ShapeType
    from pyquaternion.quaternion import Quaternion

    lab = AutowareLabel[label]
    return DynamicObject(unix_time=100, frame_id=FrameID.BASE_LINK, position=(x, 2.0, 0.0), orientation=Quaternion([1.0, 0.0, 0.0, 0.0]),
                         shape=Shape(shape_type=ShapeType.BOUNDING_BOX, size=(2.0, 4.0, 2.0)), semantic_score=0.5,
                         semantic_label=Label(lab, _raw_name(lab, k), []), velocity=(0.0, 0.0, 0.0), uuid=uuid)


def _obj2d(px, label, uuid, k=0):
    """a 16 x 16 px ROI on the front camera, shifted px pixels along x: centre distance = px exactly, IoU 2D = (16 - px) / (16 + px)"""
    from perception_eval.common.label import AutowareLabel, Label
    from perception_eval.common.object2d import DynamicObject2D
    from perception_eval.common.schema import FrameID

    lab = AutowareLabel[label]
    return DynamicObject2D(unix_time=100, frame_id=FrameID.CAM_FRONT, semantic_score=0.5, semantic_label=Label(lab, _raw_name(lab, k), []),
                           roi=(200 + int(px), 120, 16, 16), uuid=uuid)


def _result(res, policy, pe="e", pg="g", dim="3d"):
    """Real DynamicObjectWithPerceptionResult for a case result (cached: CLEAR never mutates them)."""
    from perception_eval.evaluation.matching.object_matching import MatchingLabelPolicy
    from perception_eval.evaluation.result.object_result import DynamicObjectWithPerceptionResult

    e, el, g, gl, off = res
    key = (pe, e, el, pg, g, gl, off, policy, dim)
    r = _cache.get(key)
    if r is None and dim == "2d":
        k = e + off + (0 if g is None else g + 1)     # the raw spelling changes whenever the pairing or the offset does
        r = DynamicObjectWithPerceptionResult(_obj2d(off, el, f"{pe}{e}", k), None if g is None else _obj2d(0, gl, f"{pg}{g}", k + 1), MatchingLabelPolicy[policy])
        _cache[key] = r
    if r is None:
        k = e + off + (0 if g is None else g + 1)     # the raw spelling changes whenever the pairing or the offset does
        est = _obj(16.0 + off / 8.0, el, f"{pe}{e}", k)
        gt = None if g is None else _obj(16.0, gl, f"{pg}{g}", k + 1)
        r = DynamicObjectWithPerceptionResult(est, gt, MatchingLabelPolicy[policy])
        if len(_cache) > 200000:
            _cache.clear()
        _cache[key] = r
    return r


def _mode(case):
    from perception_eval.evaluation.matching.object_matching import MatchingMode

    return MatchingMode[MODES[case["mode"]]]


def _labels(names):
    from perception_eval.common.label import AutowareLabel

    return [AutowareLabel[n] for n in names]


def _fin(x):
    """float -> JSON-able: inf -> None (the model's None), nan -> 'nan' (never expected)."""
    if isinstance(x, float) and math.isinf(x):
        return None
    if isinstance(x, float) and math.isnan(x):
        return "nan"
    return x


def _run_clear(case, entry, pe="e", pg="g", ren=None):
    from perception_eval.evaluation.metrics.tracking.clear import CLEAR

    frames = entry["frames"]
    if ren is not None:
        frames = [[[ren[0][r[0]], r[1], None if r[2] is None else ren[1][r[2]], r[3], r[4]] for r in f] for f in frames]
    objs = [[_result(r, case["policy"], pe, pg, case.get("dim", "3d")) for r in f] for f in frames]
    c = CLEAR(objs, entry["num_gt"], _labels(entry["labels"]), _mode(case), list(entry["thresholds"]))
    out = {k: _fin(v) for k, v in c.results.items()}
    out["types"] = [type(c.tp).__name__, type(c.fp).__name__, type(c.id_switch).__name__]
    return out, objs


def _facts(case, objs):
    m = _mode(case)
    out = []
    for f in objs:
        ff = []
        for r in f:
            if r.ground_truth_object is None:
                ff.append(None)
            else:
                ff.append([r.get_matching(m).value, bool(r.is_label_correct), bool(r.ground_truth_object.semantic_label.is_fp())])
        out.append(ff)
    return out


# ------------------------------------------------------------------------------------------------
# Coq literals
# ------------------------------------------------------------------------------------------------
def _coq_result(res, fact):
    e, el, g, gl, off = res
    if g is None:
        gt = "None"
    else:
        val, labok, isfp = fact
        gt = f"(Some (mkG {g} {LABEL_IDX[gl]} {'true' if isfp else 'false'} {'true' if labok else 'false'} {qlit(val)}))"
    return f"(mkR {e} {LABEL_IDX[el]} {gt})"


def _coq_clear(case, entry, facts):
    mode = "Dist" if case["mode"] in DIST_MODES else "Iou"
    T = llit([f"({LABEL_IDX[l]}%nat, {qlit(t)})" for l, t in zip(entry["labels"], entry["thresholds"])])
    h = llit([llit([_coq_result(r, fa) for r, fa in zip(f, ff)]) for f, ff in zip(entry["frames"], facts)])
    return f"(make_clear {mode} {T} {entry['num_gt']} {h})"


def _coq_obs(o):
    return (f"{o['predict_num']} {qlit(o['tp'])} {qlit(o['fp'])} {o['id_switch']} {qlit(o['tp_matching_score'])} "
            f"{olit(o['MOTA'], qlit)} {olit(o['MOTP'], qlit)}")


# ------------------------------------------------------------------------------------------------
# the direct property predicate (independent of the Coq model and of is_result_correct)
# ------------------------------------------------------------------------------------------------
def _labok(policy, el, gl):
    if gl == "FP" or policy == "ALLOW_ANY":
        return True
    if policy == "ALLOW_UNKNOWN":
        return el == gl or el == "UNKNOWN"
    return el == gl


class Undecided(Exception):
    pass


def _value(case, res, fact):
    if case["mode"] == "center":
        return float(res[4]) if case.get("dim") == "2d" else res[4] / 8.0            # by construction, exact (2D: pixels)
    return fact[0]


def _correct(case, res, fact, thr):
    """correct = matched to a ground truth, label-compatible and strictly better than the threshold
    (for an FP-labelled ground truth: not better).  Raises Undecided within 1e-9 of the threshold
    in the modes whose score is computed by the implementation's float geometry."""
    if res[2] is None:
        return False
    v = _value(case, res, fact)
    if case["mode"] != "center" and abs(v - thr) < EPS and not (v == 0.0 and thr == 0.0):      # IoU exactly 0 (no overlap) against the threshold 0: decided
        raise Undecided()
    b = v < thr if case["mode"] in DIST_MODES else v > thr
    if res[3] == "FP":
        return not b
    return b and _labok(case["policy"], res[1], res[3])


def _unique(frame):
    ek = [(r[0], r[1]) for r in frame]
    gk = [r[2] for r in frame if r[2] is not None]
    return len(set(ek)) == len(ek) and len(set(gk)) == len(gk)


def recount(case, entry, facts, own=False):
    """TP / FP / switches / assigned score counted from the property text.
    Returns (tp, fp, sw, score, n_target, n_correct, exact) -- `exact` is False when some frame has two
    results with the same estimated track or the same ground truth (the text presupposes a pairing).
    "a TP of the previous frame" is judged with the current result's threshold (own=False, what the code
    does) or with the previous result's own label threshold, evaluated labels only (own=True)."""
    labels, thrs = entry["labels"], entry["thresholds"]
    frames = entry["frames"]
    tp = fp = sw = 0
    score = 0.0
    n_target = n_correct = 0
    exact = all(_unique(f) for f in frames)

    def lab_of(r):
        return r[3] if r[2] is not None else r[1]

    for i in range(1, len(frames)):
        prev, cur = frames[i - 1], frames[i]
        for r, fa in zip(cur, facts[i]):
            lab = lab_of(r)
            if lab not in labels:
                continue
            thr = thrs[labels.index(lab)]
            n_target += 1
            if own:
                prev_tp = [(p, pf) for p, pf in zip(prev, facts[i - 1])
                           if lab_of(p) in labels and _correct(case, p, pf, thrs[labels.index(lab_of(p))])]
            else:
                prev_tp = [(p, pf) for p, pf in zip(prev, facts[i - 1]) if _correct(case, p, pf, thr)]
            cont = [(p, pf) for p, pf in prev_tp if r[2] is not None and (p[0], p[1], p[2]) == (r[0], r[1], r[2])]
            ok = _correct(case, r, fa, thr)
            n_correct += 1 if ok else 0
            if cont:
                tp += 1
                score += _value(case, cont[0][0], cont[0][1])
            elif ok:
                tp += 1
                score += _value(case, r, fa)
                differs = [p for p, _ in prev_tp if ((p[0], p[1]) == (r[0], r[1])) != (p[2] == r[2])]
                if differs:
                    sw += 1
            else:
                fp += 1
    return tp, fp, sw, score, n_target, n_correct, exact


FINDING_CLASS = "prev-tp-judged-with-current-threshold"
FINDING_PREFIX = "[" + FINDING_CLASS + "] "


_listed = []


def _finding_listed():
    """Is the reading finding listed in known_findings.json (class = FINDING_CLASS)?  Only then is it reported
    (as KNOWN-FINDING through C05.known_match); otherwise it is tallied in the evidence distribution."""
    if not _listed:
        from harness.lib.core import load_known

        _listed.append(any(f.get("property") == "C05" and f.get("status") == "known" and f.get("class") == FINDING_CLASS
                           for f in load_known()))
    return _listed[0]


def reading_differs(case, entry, o, facts):
    """The implementation's counters follow the code's reading (previous result judged with the current
    result's threshold) and the other reading (previous result judged by its own label) gives other counters."""
    try:
        a = recount(case, entry, facts, own=False)
        b = recount(case, entry, facts, own=True)
    except Undecided:
        return None
    if not a[6] or a[:3] == b[:3]:
        return None
    if (o["tp"], o["fp"], o["id_switch"]) != a[:3]:
        return None
    return (f"(tp, fp, id_switch) = {a[:3]}: the previous frame's results were judged with the current result's label threshold; "
            f"judged by their own label (as the previous frame's evaluation did) the definitions give {b[:3]}")


def _close(a, b):
    if a is None or b is None:
        return a is None and b is None
    if isinstance(a, str) or isinstance(b, str):
        return False
    return abs(a - b) <= EPS * max(1.0, abs(a), abs(b))


def oracle_clear(case, entry, o, facts, renamed):
    if o["types"] != ["float", "float", "int"]:
        return f"counter types changed: {o['types']}"
    tp, fp, sw, sc, mota, motp = o["tp"], o["fp"], o["id_switch"], o["tp_matching_score"], o["MOTA"], o["MOTP"]
    if "nan" in (tp, fp, sc, mota, motp):
        return "nan in CLEAR results"
    if tp != int(tp) or fp != int(fp) or tp < 0 or fp < 0 or sw < 0:
        return f"TP/FP are not counts: tp={tp} fp={fp} id_switch={sw}"
    n_eval = sum(len(f) for f in entry["frames"][1:])
    if o["predict_num"] != n_eval:
        return f"predict_num {o['predict_num']} != number of results after the first frame {n_eval}"
    try:
        rtp, rfp, rsw, rsc, n_target, n_correct, exact = recount(case, entry, facts)
        otp, ofp, osw, osc = recount(case, entry, facts, own=True)[:4]
    except Undecided:
        rtp = None
    if rtp is not None:
        if tp + fp != n_target:
            return f"TP+FP = {tp}+{fp} but {n_target} results of the evaluated labels after the first frame (each must count exactly once)"
        if sw > tp:
            return f"{sw} switches but only {tp} TP"
        if tp < n_correct:
            return f"{n_correct} correct results but TP = {tp}"
        if exact:
            if (tp, fp, sw) != (rtp, rfp, rsw) and (tp, fp, sw) != (otp, ofp, osw):
                return f"counters (tp, fp, id_switch) = ({tp}, {fp}, {sw}) but the definitions give ({rtp}, {rfp}, {rsw})"
            if not _close(sc, rsc if (tp, fp, sw) == (rtp, rfp, rsw) else osc):
                return f"tp_matching_score {sc} but the assigned scores of the TPs sum to {rsc}"
    # MOTA / MOTP formulas on the implementation's own counters
    ngt = entry["num_gt"]
    want_mota = None if ngt == 0 else max(0.0, (tp - fp - sw) / ngt)
    if not _close(mota, want_mota):
        return f"MOTA {mota} != max(0, (TP-FP-IDsw)/GT) = {want_mota} (tp={tp} fp={fp} sw={sw} gt={ngt})"
    want_motp = None if tp == 0 else sc / tp
    if not _close(motp, want_motp):
        return f"MOTP {motp} != sum of TP scores / TP = {want_motp}"
    # renaming invariance: the implementation re-run on the renamed history
    if renamed is not None:
        for k in ("predict_num", "tp", "fp", "id_switch"):
            if renamed[k] != o[k]:
                return f"renaming track ids changes {k}: {o[k]} -> {renamed[k]}"
        for k in ("tp_matching_score", "MOTA", "MOTP"):
            if not _close(renamed[k], o[k]):
                return f"renaming track ids changes {k}: {o[k]} -> {renamed[k]}"
    exp = entry.get("expect")
    if exp:
        for k, v in exp.items():
            if not _close(float(o[k]) if o[k] is not None else None, None if v is None else float(v)):
                return f"{entry.get('shape', 'shape')}: expected {k} = {v}, got {o[k]}"
    if _finding_listed():
        d = reading_differs(case, entry, o, facts)
        if d:
            return FINDING_PREFIX + d
    return None


def _renaming(case):
    ids_e = sorted({r[0] for en in case["clears"] for f in en["frames"] for r in f})
    ids_g = sorted({r[2] for en in case["clears"] for f in en["frames"] for r in f if r[2] is not None})
    a, b = case.get("ren", [3, 5])
    # injective: x -> a*x + b on the integers (a != 0), then prefixed differently
    return ({i: a * i + b for i in ids_e}, {i: (a + 1) * i + b for i in ids_g})


# ------------------------------------------------------------------------------------------------
# generators
# ------------------------------------------------------------------------------------------------
def _entry(labels, thresholds, num_gt, frames, **kw):
    d = {"labels": list(labels), "thresholds": list(thresholds), "num_gt": num_gt, "frames": frames}
    d.update(kw)
    return d


def _case(stream, mode, clears, policy="DEFAULT", via="CLEAR", ren=(3, 5), dim="3d"):
    d = {"stream": stream, "mode": mode, "policy": policy, "via": via, "clears": clears, "ren": list(ren)}
    if dim != "3d":
        d["dim"] = dim            # DynamicObject2D results with a ROI (tracking2d): centre distance in pixels, IoU 2D
    return d


def small_result_options(ids):
    # est id x (no GT | GT id x {within, beyond threshold 1.0})
    opts = []
    for e in ids:
        opts.append([e, "CAR", None, None, 0])
        for g in ids:
            opts.append([e, "CAR", g, "CAR", 4])
            opts.append([e, "CAR", g, "CAR", 12])
    return opts


def gen_exhaustive(tier, rng):
    out = []
    # (a) all frame pairs with <= 2 results over ids {0,1}
    opts = small_result_options([0, 1])
    frames = [[]] + [[a] for a in opts] + [[a, b] for a in opts for b in opts]
    pairs = [(p, c) for p in frames for c in frames]
    if tier == "quick":
        pairs = [pc for i, pc in enumerate(pairs) if i % 9 == rng.randrange(9) or len(pc[0]) + len(pc[1]) <= 2]
    for p, c in pairs:
        out.append(_case("exhaustive-pairs", "center", [_entry(["CAR"], [1.0], 2, [p, c])]))
    # (b) ids {0,1,2}, <= 3 results per frame, 3 (quick) / 3-4 (thorough) frames: sampled
    opts3 = small_result_options([0, 1, 2])
    n = 500 if tier == "quick" else 8000
    for _ in range(n):
        nf = 3 if tier == "quick" else rng.choice([3, 4])
        fr = [[list(rng.choice(opts3)) for _ in range(rng.randint(0, 3))] for _ in range(nf)]
        out.append(_case("small-sampled", "center", [_entry(["CAR"], [1.0], rng.randint(0, 6), fr)]))
    return out


TARGET_SETS = [["CAR"], ["PEDESTRIAN"], ["CAR", "PEDESTRIAN"], ["CAR", "BICYCLE", "PEDESTRIAN"], ["BICYCLE", "CAR"]]


def _thr(mode, rng):
    if rng.random() < 0.12:
        return 0.0            # falsy but a threshold: no distance is below it (every result of the label is an FP), every overlap is above it
    if mode in DIST_MODES:
        return rng.choice([0.5, 1.0, 1.5, 2.0])
    return rng.choice([0.125, 0.25, 0.5, 0.75])


def gen_tracks(rng, n_frames, max_res, labels_pool, mode, unique=True):
    """A tracker's history: tracks with births, deaths, id changes and swaps, misses, false alarms,
    label confusions.  Returns (frames, number of ground truths after the first frame per label)."""
    next_e = [0]
    next_g = [0]

    def new_e():
        next_e[0] += 1
        return next_e[0] - 1

    def new_g():
        next_g[0] += 1
        return next_g[0] - 1

    tracks = []   # dict(g, gl, e, el)
    frames = []
    ngt = {}
    for fi in range(n_frames):
        # births / deaths
        tracks = [t for t in tracks if rng.random() > 0.08]
        while len(tracks) < max_res and rng.random() < (0.6 if fi == 0 else 0.15):
            gl = rng.choice(labels_pool)
            tracks.append({"g": new_g(), "gl": gl, "e": new_e(), "el": gl})
        # id changes and swaps
        for t in tracks:
            if rng.random() < 0.06:
                t["e"] = new_e()
            if rng.random() < 0.03:
                t["el"] = rng.choice(labels_pool)
        if len(tracks) >= 2 and rng.random() < 0.1:
            a, b = rng.sample(range(len(tracks)), 2)
            tracks[a]["e"], tracks[b]["e"] = tracks[b]["e"], tracks[a]["e"]
            tracks[a]["el"], tracks[b]["el"] = tracks[b]["el"], tracks[a]["el"]
        frame = []
        for t in tracks:
            if fi > 0:
                ngt[t["gl"]] = ngt.get(t["gl"], 0) + 1
            if rng.random() < 0.1:
                continue    # missed
            far = rng.random() < 0.15
            if mode in DIST_MODES:
                off = rng.choice([8, 12, 16, 20, 24]) if far else rng.choice([0, 1, 2, 3, 4])
            else:
                off = rng.choice([10, 12, 14, 15, 16, 20]) if far else rng.choice([0, 1, 2, 3])
            frame.append([t["e"], t["el"], t["g"], t["gl"], off])
        # false alarms (no ground truth)
        while len(frame) < max_res and rng.random() < 0.12:
            frame.append([new_e() if (unique or rng.random() < 0.5) else rng.randrange(max(1, next_e[0])),
                          rng.choice(labels_pool), None, None, 0])
        if not unique and frame and rng.random() < 0.3:
            frame.append(list(rng.choice(frame)))       # duplicated result
            if rng.random() < 0.5:
                frame[-1][2] = rng.choice([r[2] for r in frame])
                frame[-1][3] = None if frame[-1][2] is None else next(r[3] for r in frame if r[2] == frame[-1][2])
        rng.shuffle(frame)
        frames.append(frame[:max_res] if max_res else frame)
    return frames, ngt


def gen_random(tier, rng):
    out = []
    n = 110 if tier == "quick" else 1500
    for i in range(n):
        mode = rng.choice(["center"] * 5 + ["plane", "iou2d", "iou3d"])
        dim = "2d" if i % 4 == 3 else "3d"
        if dim == "2d":
            mode = rng.choice(["center", "center", "iou2d"])       # the two scores a tracking2d evaluation computes
        labels = rng.choice(TARGET_SETS)
        pool = labels + (["TRUCK"] if rng.random() < 0.5 else []) + (["UNKNOWN"] if rng.random() < 0.3 else [])
        policy = rng.choice(["DEFAULT"] * 3 + ["ALLOW_ANY", "ALLOW_UNKNOWN"])
        nf = rng.randint(2, 40 if tier == "quick" else 60)
        mr = rng.randint(0, 10 if tier == "quick" else 12)
        frames, ngt = gen_tracks(rng, nf, mr, pool, mode, unique=rng.random() < 0.8)
        if i % 3 == 1:
            # frames without any result in the middle of a busy history (the tracker / the filter delivers nothing): the next frame's
            # predecessor is the EMPTY frame, not the last non-empty one
            frames = [[] if (0 < k < len(frames) - 1 and rng.random() < 0.2) else f for k, f in enumerate(frames)]
        thr = [_thr(mode, rng) for _ in labels]
        if dim == "2d" and mode == "center":
            thr = [rng.choice([4.0, 5.0, 8.0, 12.0, 0.0]) for _ in labels]        # pixels: offsets 0-4 near, 8-24 far, 4 and 8 exactly on a threshold
        num_gt = sum(ngt.get(l, 0) for l in labels) if rng.random() < 0.9 else 0
        out.append(_case("random-long" + ("-2d" if dim == "2d" else ""), mode, [_entry(labels, thr, num_gt, frames)], policy=policy,
                         ren=(rng.choice([1, 2, 3, 7]), rng.randint(0, 9)), dim=dim))
    return out


WITNESS_W1 = {"labels": ["CAR", "PEDESTRIAN"], "thresholds": [1.0, 2.0], "num_gt": 2, "policy": "ALLOW_UNKNOWN",
              "frames": [[[0, "UNKNOWN", 0, "PEDESTRIAN", 12]], [[0, "UNKNOWN", 1, "CAR", 4]]]}
WITNESS_W2 = {"labels": ["CAR"], "thresholds": [1.0], "num_gt": 1, "policy": "ALLOW_ANY",
              "frames": [[[0, "CAR", 0, "TRUCK", 2]], [[0, "CAR", 1, "CAR", 2]]]}


def gen_boundary(tier, rng):
    out = []
    C = "CAR"
    # witnesses of Props/C05.v C05_prev_tp_by_own_label_refuted (replayed on the real code on every run)
    for w in (WITNESS_W1, WITNESS_W2):
        out.append(_case("witness-prev-tp-reading", "center", [_entry(w["labels"], w["thresholds"], w["num_gt"], [list(map(list, f)) for f in w["frames"]])],
                         policy=w["policy"]))
    # score exactly on / next to the threshold, in both frames, all four combinations (carry-over beyond threshold)
    for thr in (0.5, 1.0):
        k = int(thr * 8)
        for po in (k - 1, k, k + 1):
            for co in (k - 1, k, k + 1):
                for (pe, pg, ce, cg) in ((0, 0, 0, 0), (0, 0, 1, 0), (0, 0, 0, 1), (0, 0, 1, 1)):
                    out.append(_case("boundary-threshold", "center",
                                     [_entry([C], [thr], 1, [[[pe, C, pg, C, po]], [[ce, C, cg, C, co]], [[ce, C, cg, C, co]]])]))
    # IoU exactly on the threshold: use the implementation's own value as the threshold
    for mode in ("iou2d", "iou3d", "plane"):
        for off in (0, 2, 6):
            r = _result([0, C, 0, C, off], "DEFAULT")
            v = r.get_matching(_mode({"mode": mode})).value
            for thr in {v, min(1.0, v + 0.125), max(0.0, v - 0.125)}:
                out.append(_case("boundary-threshold", mode,
                                 [_entry([C], [thr], 2, [[[0, C, 0, C, off]], [[0, C, 0, C, off]], [[1, C, 0, C, off]]])]))
    # a threshold of exactly 0 (falsy, but a threshold): distances are never below it -- every result of the label is an FP, nothing is
    # carried over; any overlap is above it -- the pairing is a TP and is carried over; IoU exactly 0 (no overlap) is not above it
    for mode, offs in (("center", (0, 4)), ("plane", (0, 4)), ("iou2d", (0, 6, 24)), ("iou3d", (0, 6, 24))):
        for off in offs:
            for lab, thrs in (([C], [0.0]), (["PEDESTRIAN", C], [1.0 if mode in DIST_MODES else 0.5, 0.0])):
                out.append(_case("boundary-threshold-0", mode,
                                 [_entry(lab, thrs, 2, [[[0, C, 0, C, off]], [[0, C, 0, C, off]], [], [[1, C, 0, C, off], [2, "PEDESTRIAN", 1, "PEDESTRIAN", 0]]])]))
    # degenerate histories
    one = [0, C, 0, C, 0]
    for frames in ([], [[]], [[one]], [[], []], [[], [one]], [[one], []], [[], [one], [], [one]], [[], [], [one], [one]]):
        for ngt in (0, 1, 3):
            out.append(_case("boundary-degenerate", "center", [_entry([C], [1.0], ngt, [list(map(list, f)) for f in frames])]))
    # GT-less results, results of other labels, label confusions, FP-labelled ground truths
    P = "PEDESTRIAN"
    specials = [
        [[[0, C, None, None, 0]], [[0, C, None, None, 0]]],
        [[[0, P, None, None, 0]], [[0, P, None, None, 0], [1, C, None, None, 0]]],
        [[[0, P, 0, P, 0]], [[0, P, 0, P, 0], [1, C, 1, C, 0]]],
        [[[0, C, 0, P, 0]], [[0, C, 0, P, 0]]],                       # estimate CAR on a PEDESTRIAN ground truth
        [[[0, P, 0, C, 0]], [[0, P, 0, C, 0]], [[0, C, 0, C, 0]]],    # label of the estimate changes, same uuid
        [[[0, C, 0, C, 0], [0, P, 1, P, 0]], [[0, C, 0, C, 0], [0, P, 1, P, 0]], [[0, P, 0, C, 0], [0, C, 1, P, 0]]],   # same uuid, two labels
        [[[0, C, 0, "FP", 0]], [[0, C, 0, "FP", 0]], [[0, C, 0, "FP", 20]], [[1, C, 0, "FP", 20]]],
        [[[0, C, 0, C, 0], [0, C, 0, C, 0]], [[0, C, 0, C, 0], [0, C, 0, C, 0]]],      # duplicated results
        [[[0, C, 0, C, 0], [1, C, 1, C, 0]], [[0, C, 1, C, 0], [1, C, 0, C, 0]], [[0, C, 1, C, 0], [1, C, 0, C, 0]]],
        [[[0, C, 0, C, 12], [1, C, 0, C, 0]], [[0, C, 0, C, 0]]],     # previous frame: a non-TP before the TP
        [[[1, C, 1, C, 0], [0, C, 0, C, 0]], [[0, C, 1, C, 0]]],      # two switch candidates (break on the first)
        [[[0, C, 1, C, 0], [0, C, 0, C, 0]], [[0, C, 0, C, 0]]],      # switch candidate before the same match
        [[[0, C, 0, C, 0], [0, C, 1, C, 0]], [[0, C, 0, C, 0]]],      # same match before the switch candidate
        # ONE ground truth matched by two results of the previous frame, both within the threshold: the same pairing listed first / second
        [[[0, C, 0, C, 0], [1, C, 0, C, 2]], [[0, C, 0, C, 0]], [[1, C, 0, C, 0]]],
        [[[1, C, 0, C, 2], [0, C, 0, C, 0]], [[0, C, 0, C, 0]], [], [[0, C, 0, C, 0]]],
        [[[1, C, 0, C, 2], [0, C, 0, C, 0], [2, C, 0, C, 1]], [[2, C, 0, C, 0], [0, C, 0, C, 3]]],
    ]
    for frames in specials:
        for labels, thrs in (([C], [1.0]), ([C, P], [1.0, 0.5]), ([P, C], [1.0, 2.0]), ([C, "FP"], [1.0, 1.0]), (["FP"], [1.0])):
            for policy in ("DEFAULT", "ALLOW_ANY"):
                for mode in ("center", "iou3d"):
                    th = thrs if mode == "center" else [min(1.0, t / 2) for t in thrs]
                    out.append(_case("boundary-labels", mode, [_entry(labels, th, 2, [list(map(list, f)) for f in frames])], policy=policy))
    # different thresholds per label: the previous result is judged with the CURRENT result's threshold
    for po in (3, 5, 9):
        out.append(_case("boundary-labels", "center", [_entry([C, P], [1.0, 0.5], 2, [[[0, P, 0, C, po]], [[0, P, 0, C, po]], [[0, P, 0, P, po]]])],
                         policy="ALLOW_ANY"))
        out.append(_case("boundary-labels", "center", [_entry([C, P], [0.5, 1.0], 2, [[[0, C, 0, P, po], [1, C, 1, C, po]], [[0, C, 0, C, po], [1, C, 1, P, po]]])],
                         policy="ALLOW_ANY"))
    return out


def gen_shapes(tier, rng):
    """perfect tracker / one new id / one swap, any length, any number of targets, births and deaths of
    the other targets; `expect` is what the property text demands."""
    out = []
    n = 40 if tier == "quick" else 400
    for i in range(n):
        mode = rng.choice(["center", "center", "iou2d"])
        labels = rng.choice(TARGET_SETS)
        thr = [1.0 if mode == "center" else 0.25 for _ in labels]
        nf = rng.randint(2, 30)
        ntr = rng.randint(1, 8)
        glab = [rng.choice(labels) for _ in range(ntr)]
        shape = ["perfect", "new-id", "swap"][i % 3]
        if shape == "swap" and ntr < 2:
            ntr, glab = 2, [rng.choice(labels), rng.choice(labels)]
        k = rng.randint(1, nf - 1)          # the frame at which the change happens
        trk = {g: g for g in range(ntr)}
        frames = []
        ngt = 0
        for fi in range(nf):
            if fi == k and shape == "new-id":
                trk[0] = 100
            if fi == k and shape == "swap":
                trk[0], trk[1] = trk[1], trk[0]
            present = [g for g in range(ntr) if rng.random() < 0.85 or (g in (0, 1) and fi in (k - 1, k))]
            fr = [[trk[g], glab[g], g, glab[g], rng.choice([0, 1, 2, 3])] for g in present]
            rng.shuffle(fr)
            frames.append(fr)
            if fi > 0:
                ngt += len(fr)
        exp = {"fp": 0, "tp": ngt, "id_switch": {"perfect": 0, "new-id": 1, "swap": 2}[shape]}
        if shape == "perfect":
            exp["MOTA"] = None if ngt == 0 else 1.0
        dim = "2d" if i % 4 == 1 else "3d"
        if dim == "2d" and mode == "center":
            thr = [4.0 for _ in labels]                  # pixels: the offsets 0-3 stay within
        out.append(_case("shape-" + shape, mode, [_entry(labels, thr, ngt, frames, expect=exp, shape=shape)],
                         ren=(rng.choice([1, 2, 5]), rng.randint(0, 5)), dim=dim))
    return out


# ------------------------------------------------------------------------------------------------
# correspondences
# ------------------------------------------------------------------------------------------------
HEADER = ("From Coq Require Import List Bool Arith ZArith QArith.\nFrom PE Require Import Base.QUtil Base.CaseUtil Model.Clear.\n"
          "Import ListNotations.\nOpen Scope Q_scope.\n")


class ClearCorr(Corr):
    """CLEAR(object_results, num_gt, target_labels, mode, thresholds).results  vs  Model.Clear.make_clear"""
    header = HEADER
    requires = ["Model/Clear.vo", "Base/CaseUtil.vo"]

    def run_impl(self, case):
        obs = {"clears": [], "facts": [], "renamed": []}
        ren = _renaming(case)
        for en in case["clears"]:
            o, objs = _run_clear(case, en)
            obs["clears"].append(o)
            obs["facts"].append(_facts(case, objs))
            r, _ = _run_clear(case, en, pe="track-", pg="gt-", ren=ren)
            obs["renamed"].append(r)
        return obs

    def coq_term(self, case, obs):
        parts = [f"check_clear {_coq_clear(case, en, fa)} {_coq_obs(o)}" for en, o, fa in zip(case["clears"], obs["clears"], obs["facts"])]
        return "(" + " && ".join(parts) + ")" if parts else "true"

    def coq_debug(self, case, obs):
        return llit([_coq_clear(case, en, fa) for en, fa in zip(case["clears"], obs["facts"])])

    def oracle(self, case, obs):
        for en, o, fa, rn in zip(case["clears"], obs["clears"], obs["facts"], obs["renamed"]):
            msg = oracle_clear(case, en, o, fa, rn)
            if msg:
                return msg
        return None

    def nontrivial(self, case, obs):
        return any(o["tp"] + o["fp"] > 0 for o in obs["clears"])

    def describe(self, case, obs):
        return {"case": {k: (v if k != "clears" else [{**e, "frames": e["frames"][:3]} for e in v]) for k, v in case.items()},
                "observed": obs["clears"]}

    def distribution(self, cases, obs):
        d = {"streams": {}, "modes": {}, "objects_2d": 0, "frames_max": 0, "results_max": 0, "with_switch": 0, "with_fp": 0, "mota_inf": 0, "motp_inf": 0,
             "mota_clamped_to_0": 0, "non_unique_frames": 0, "multi_label": 0}
        for c, o in zip(cases, obs):
            if "clears" not in o:
                continue
            d["streams"][c["stream"]] = d["streams"].get(c["stream"], 0) + 1
            d["modes"][c["mode"]] = d["modes"].get(c["mode"], 0) + 1
            d["objects_2d"] += c.get("dim") == "2d"
            for en, oo in zip(c["clears"], o["clears"]):
                d["frames_max"] = max(d["frames_max"], len(en["frames"]))
                d["results_max"] = max([d["results_max"]] + [len(f) for f in en["frames"]])
                d["with_switch"] += oo["id_switch"] > 0
                d["with_fp"] += oo["fp"] > 0
                d["mota_inf"] += oo["MOTA"] is None
                d["motp_inf"] += oo["MOTP"] is None
                d["mota_clamped_to_0"] += (oo["MOTA"] == 0.0 and oo["tp"] - oo["fp"] - oo["id_switch"] < 0)
                d["non_unique_frames"] += not all(_unique(f) for f in en["frames"])
                d["multi_label"] += len(en["labels"]) > 1
                fr = en["frames"]
                d["threshold_exactly_0"] = d.get("threshold_exactly_0", 0) + (0 in en["thresholds"])
                d["empty_frame_between_busy_frames"] = d.get("empty_frame_between_busy_frames", 0) + any(
                    not fr[k] and any(fr[:k]) and any(fr[k + 1:]) for k in range(len(fr)))
                two = False
                for k in range(1, len(fr)):
                    gs = [r[2] for r in fr[k - 1] if r[2] is not None]
                    two = two or any(gs.count(r[2]) > 1 for r in fr[k] if r[2] is not None)
                d["ground_truth_matched_by_two_previous_results"] = d.get("ground_truth_matched_by_two_previous_results", 0) + two
            for en, oo, fa in zip(c["clears"], o["clears"], o["facts"]):
                d["prev_tp_reading_differs"] = d.get("prev_tp_reading_differs", 0) + (reading_differs(c, en, oo, fa) is not None)
                try:
                    d["exactly_recounted"] = d.get("exactly_recounted", 0) + bool(recount(c, en, fa)[6])
                except Undecided:
                    d["score_on_threshold_undecided"] = d.get("score_on_threshold_undecided", 0) + 1
        return d


class SmallCorr(ClearCorr):
    name = "clear_small"
    shard = 500

    def cases(self, tier, rng):
        return gen_boundary(tier, rng) + gen_exhaustive(tier, rng)


class LongCorr(ClearCorr):
    name = "clear_long"
    shard = 12

    def cases(self, tier, rng):
        return gen_shapes(tier, rng) + gen_random(tier, rng)


class SumCorr(Corr):
    """TrackingMetricsScore(dict per label)._sum_clear() and its per-label CLEARs  vs  Model.Clear.sum_clear"""
    name = "sum_clear"
    header = HEADER
    requires = ["Model/Clear.vo", "Base/CaseUtil.vo"]
    shard = 12

    def cases(self, tier, rng):
        out = []
        n = 50 if tier == "quick" else 600
        for i in range(n):
            mode = rng.choice(["center", "center", "center", "iou2d", "plane"])
            labels = list(rng.choice([["CAR"], ["CAR", "PEDESTRIAN"], ["CAR", "BICYCLE", "PEDESTRIAN"], ["PEDESTRIAN", "CAR", "TRUCK", "BICYCLE"]]))
            clears = []
            for l in labels:
                kind = rng.random()
                if kind < 0.15:
                    frames, ngt = [], {}
                elif kind < 0.3:
                    frames, ngt = [[] for _ in range(rng.randint(1, 4))], {}
                else:
                    # the per-label history as the manager builds it: results of that label (plus a few strays)
                    frames, ngt = gen_tracks(rng, rng.randint(2, 15), rng.randint(0, 6), [l] * 6 + [rng.choice(labels)], mode, unique=rng.random() < 0.85)
                num_gt = ngt.get(l, 0) if rng.random() < 0.8 else rng.choice([0, 1, 50])
                clears.append(_entry([l], [_thr(mode, rng)], num_gt, frames))
            out.append(_case("sum", mode, clears, via="score"))
        # all-empty and inf cases first
        out.insert(0, _case("sum", "center", [_entry(["CAR"], [1.0], 0, []), _entry(["PEDESTRIAN"], [1.0], 0, [[]])], via="score"))
        out.insert(0, _case("sum", "center", [_entry(["CAR"], [1.0], 0, [[], [[0, "CAR", 0, "CAR", 0]]]),
                                              _entry(["PEDESTRIAN"], [1.0], 3, [[], [[0, "PEDESTRIAN", None, None, 0]] * 2])], via="score"))
        return out

    def run_impl(self, case):
        from perception_eval.evaluation.metrics.tracking.tracking_metrics_score import TrackingMetricsScore

        labels = _labels([en["labels"][0] for en in case["clears"]])
        objs = [[[_result(r, case["policy"]) for r in f] for f in en["frames"]] for en in case["clears"]]
        score = TrackingMetricsScore(
            object_results_dict={l: o for l, o in zip(labels, objs)},
            num_ground_truth_dict={l: en["num_gt"] for l, en in zip(labels, case["clears"])},
            target_labels=labels, matching_mode=_mode(case),
            matching_threshold_list=[en["thresholds"][0] for en in case["clears"]])
        mota, motp, sw = score._sum_clear()
        obs = {"sum": [_fin(mota), _fin(motp), sw], "sum_types": [type(mota).__name__, type(motp).__name__, type(sw).__name__],
               "clears": [], "facts": [_facts(case, o) for o in objs], "str_ok": isinstance(str(score), str)}
        for c in score.clears:
            o = {k: _fin(v) for k, v in c.results.items()}
            o["types"] = [type(c.tp).__name__, type(c.fp).__name__, type(c.id_switch).__name__]
            o["num_gt"] = c.num_ground_truth
            obs["clears"].append(o)
        return obs

    def coq_term(self, case, obs):
        ks = [_coq_clear(case, en, fa) for en, fa in zip(case["clears"], obs["facts"])]
        parts = [f"check_clear {k} {_coq_obs(o)}" for k, o in zip(ks, obs["clears"])]
        mota, motp, sw = obs["sum"]
        parts.append(f"check_sum {llit(ks)} {olit(mota, qlit)} {olit(motp, qlit)} {sw}")
        return "(" + " && ".join(parts) + ")"

    def coq_debug(self, case, obs):
        ks = [_coq_clear(case, en, fa) for en, fa in zip(case["clears"], obs["facts"])]
        return f"(sum_clear {llit(ks)}, {llit(ks)})"

    def oracle(self, case, obs):
        if len(obs["clears"]) != len(case["clears"]):
            return "one CLEAR per target label expected"
        for en, o, fa in zip(case["clears"], obs["clears"], obs["facts"]):
            if o["num_gt"] != en["num_gt"]:
                return "CLEAR got another label's number of ground truths"
            msg = oracle_clear(case, en, o, fa, None)
            if msg:
                return f"label {en['labels'][0]}: {msg}"
        mota, motp, sw = obs["sum"]
        if "nan" in (mota, motp):
            return "nan in _sum_clear"
        cl = obs["clears"]
        ngt = sum(en["num_gt"] for en in case["clears"])
        ntp = sum(o["tp"] for o in cl)
        if sw != sum(o["id_switch"] for o in cl):
            return f"total id switches {sw} != sum over labels {sum(o['id_switch'] for o in cl)}"
        num = sum(max(0.0, o["tp"] - o["fp"] - o["id_switch"]) for en, o in zip(case["clears"], cl) if en["num_gt"] > 0)
        want_mota = None if ngt == 0 else num / ngt
        if not _close(mota, want_mota):
            return f"total MOTA {mota} != ground-truth-weighted mean of the label MOTAs {want_mota}"
        want_motp = None if ntp == 0 else sum(o["tp_matching_score"] for o in cl) / ntp
        if not _close(motp, want_motp):
            return f"total MOTP {motp} != sum of TP scores / number of TPs = {want_motp}"
        if not obs["str_ok"]:
            return "str(TrackingMetricsScore) failed"
        return None

    def nontrivial(self, case, obs):
        return sum(o["tp"] + o["fp"] > 0 for o in obs["clears"]) >= 1

    def describe(self, case, obs):
        return {"case": {k: (v if k != "clears" else [{**e, "frames": e["frames"][:2]} for e in v]) for k, v in case.items()},
                "observed": {"sum": obs["sum"], "clears": obs["clears"]}}

    def distribution(self, cases, obs):
        d = {"labels": {}, "mota_inf": 0, "motp_inf": 0, "some_label_inf": 0}
        for c, o in zip(cases, obs):
            if "sum" not in o:
                continue
            d["labels"][len(c["clears"])] = d["labels"].get(len(c["clears"]), 0) + 1
            d["mota_inf"] += o["sum"][0] is None
            d["motp_inf"] += o["sum"][1] is None
            d["some_label_inf"] += any(x["MOTA"] is None or x["MOTP"] is None for x in o["clears"])
        return d


from harness.props import tracking_corr as TC


class C05(Prop):
    id = "C05"
    props_file = "Props/C05.v"
    # redundant tie (core.gen_tie): these decision functions, translated from the source on every run, equal the hand model for all inputs
    gen_tie_theorems = ['GenTie_is_id_switched', 'GenTie_is_same_match', 'GenTie_is_result_correct_clear', 'GenTie_CLEAR__calculate_tp_fp', 'GenTie_CLEAR__calculate_score', 'GenTie_CLEAR___init__', 'GenTieSrc_C05_clear_init_counts']
    gen_files = []
    design_ref = "DESIGN.md section 4, C05"
    technique = ("Rocq proof over an executable Gallina model of CLEAR.__init__/_calculate_tp_fp/_is_id_switched/_is_same_match/"
                 "_calculate_score/_sum_clear and of the tracking glue (divide_objects, evaluate_frame's tracking branch, evaluate_tracking, "
                 "add_frame_result's predecessor, get_scene_result); in-Coq correspondence with the real CLEAR, TrackingMetricsScore and the real "
                 "manager in tracking mode on generated histories")
    level_text = ("Theorems (Props/C05.v, closed under the global context) hold for ALL histories (any number of frames and results), both "
                  "matching directions, all target-label/threshold lists: every result of an evaluated label after the first frame adds exactly 1 "
                  "to TP or FP (clear_partition); under per-frame uniqueness of estimated tracks and ground-truth ids (more generally a consistent "
                  "TP pairing) the loop equals the declarative spec TP = correct or continues a previous TP pairing, switch = new TP whose pairing "
                  "differs from a previous TP's, assigned score = previous score for continued pairings (clear_refines_spec); MOTA = max(0,(TP-FP-IDsw)/GT) "
                  "or inf, MOTP = mean assigned TP score or inf; _sum_clear = GT-weighted / TP-weighted means; invariance under every injective "
                  "renaming of estimated and ground-truth ids; perfect tracker => 0 switches, 0 FP, MOTA 1; one brand-new id on a continuing target "
                  "=> exactly 1 switch; one exchange of two identities => exactly 2 (any length, any frame, any number of other targets with births "
                  "and deaths). The model is compared with the real CLEAR / TrackingMetricsScore inside Coq on every generated history "
                  "(counters exactly, scores within 1e-9, inf cases). " + TC.LEVEL_TEXT)
    level_note = ("Refuted reading (Props/C05.v C05_prev_tp_by_own_label_refuted, replayed on the real code every run): the code judges whether a "
                  "previous-frame result is a TP with the CURRENT result's label threshold, not with the previous result's own label; the two readings "
                  "coincide for a single threshold with all previous results of evaluated labels (C05_prev_tp_by_own_label_partial). "
                  "Trusted: Coq kernel+vm_compute; the facts fed to the model (uuid, labels, is_label_correct, get_matching(mode).value) are read "
                  "from the real objects through public getters; their geometric meaning is C06's business.")
    rule = ("histories of real DynamicObjectWithPerceptionResult objects; exhaustive frame pairs over ids {0,1} (<=2 results), sampled "
            "3-4 frame histories over ids {0,1,2} (<=3 results), threshold/label/degenerate boundaries, tracker shapes (perfect, one new id, "
            "one swap), random long tracker histories (2-40/60 frames, 0-10/12 results; a third of them with frames blanked in the middle); thresholds of "
            "exactly 0 (12 % of the per-label entries and a boundary block: no distance is below 0, every overlap is above 0, IoU exactly 0 is not), "
            "one ground truth matched by two previous results that are both TP; a quarter of the long / shape histories are built from "
            "DynamicObject2D results with a ROI (centre distance in pixels with offsets exactly on the threshold, IoU 2D); "
            "non-trivial = at least one TP or FP counted; "
            "tracking glue: " + TC.RULE)
    assumptions = ["tp_metrics = TPMetricsAp (the default, the only one TrackingMetricsScore uses): TP value 1.0",
                   "len(target_labels) == len(matching_threshold_list) (asserted by TrackingMetricsScore)",
                   "get_matching(mode) is not None (3D objects or 2D objects with a ROI); IoU thresholds within [0,1]",
                   "uuids are strings, not None",
                   "clear_refines_spec: the TPs of every frame form a consistent pairing (implied by per-frame unique estimated (uuid,label) and unique GT uuids)"] + TC.ASSUMPTIONS
    not_proved = ["other TPMetrics (TPMetricsAph/TPMetricsConfidence weights) in CLEAR",
                  "the spec for frames in which two results share an estimated track or a ground truth (there the loop is order-dependent; "
                  "partition, formulas and renaming invariance are proved without that assumption)",
                  "float rounding of the score sums (compared within 1e-9)",
                  ] + TC.NOT_PROVED

    extra_props_files = ["Props/C05Pipeline.v"]

    def correspondences(self):
        return [SmallCorr(), LongCorr(), SumCorr(), TC.TrackingPipelineCorr()]

    def known_match(self, finding, corr_name, case, obs, msg):
        if TC.known_match(finding, corr_name, case, obs, msg):
            return True
        return finding.get("class") == FINDING_CLASS and isinstance(msg, str) and msg.startswith(FINDING_PREFIX)

    def cleanup(self):
        from harness.props import manager_common as MC
        MC.cleanup_tmp(all_pids=True)

    def known_probe(self, finding):
        if TC.known_probe(finding):
            return True
        if finding.get("class") != FINDING_CLASS:
            return False
        w = WITNESS_W1
        o, _ = _run_clear({"mode": "center", "policy": w["policy"]}, w)
        return o["id_switch"] == 0


READY = True
PROP = C05()
