"""C03 -- per-frame TP/FP/FN/TN accounting conserves objects.

Correspondence: the real `PerceptionFrameResult(...).evaluate_frame()` (critical filtering of results and
ground truth, then PassFailResult.evaluate) on generated frames in the ego frame and in the map frame
with a rational ego pose, versus Model/PassFail.v; surviving results, critical ground truths, TP, FP,
TN, FN are compared as index lists inside Coq.  A second correspondence drives
`PerceptionEvaluationManager.add_frame_result` end to end (real matching) and checks the property oracle.
Oracle: conservation counts, every critical GT accounted exactly once, TP soundness, nothing outside the
critical region counted -- stated directly on the implementation's outputs."""
import os
from fractions import Fraction

from harness.lib.core import BUILD, Corr, Prop, blit, llit, olit, qlit
from harness.props.C10 import (EGO_POSES, NAMES, UUIDS, _label_enum, _o, build_object, cfg_lit, doc_keep, ego_to_frame, label_id, lat,
                               obj_lit, object_facts)

HEADER = ("From Coq Require Import List Bool ZArith String QArith.\n"
          "From PE Require Import Base.CaseUtil Model.Filter Model.PassFail.\n"
          "Import ListNotations.\nOpen Scope string_scope.\nOpen Scope Q_scope.\nOpen Scope nat_scope.\nOpen Scope bool_scope.\n")

os.environ.setdefault("TQDM_DISABLE", "1")      # the manager's dataset loader draws progress bars on stderr
POLICIES = ["DEFAULT", "ALLOW_UNKNOWN", "ALLOW_ANY"]
LABEL_POOL = ["car", "bus", "pedestrian", "bicycle", "unknown", "motorbike"]
_EC_CACHE = {}
_MANAGER_CACHE = {}


def eval_config(frame, target_names, policy, task="detection", mgr=None):
    """A real PerceptionEvaluationConfig (no dataset is loaded); cached per parameter set.  `mgr`: evaluator-level filter options
    {max_dist, min_dist | (default: x/y box of 1000 m), min_pts, ignore, uuids, conf}."""
    from perception_eval.config import PerceptionEvaluationConfig

    mgr = mgr or {}
    key = (frame, tuple(target_names), policy, task, repr(sorted(mgr.items())))
    if key not in _EC_CACHE and frame == "cam":
        d = {"evaluation_task": "detection2d", "target_labels": list(target_names), "center_distance_thresholds": [10.0],
             "iou_2d_thresholds": [0.5], "label_prefix": "autoware", "merge_similar_labels": False, "matching_label_policy": policy}
        _EC_CACHE[key] = PerceptionEvaluationConfig([], "cam_front", os.path.join(BUILD, "c03_results", str(os.getpid())), d, False)
    if key not in _EC_CACHE:
        n = len(target_names)
        d = {"evaluation_task": task, "target_labels": list(target_names),
             "center_distance_thresholds": [1.0], "plane_distance_thresholds": [2.0], "iou_2d_thresholds": [0.5],
             "iou_3d_thresholds": [0.5], "min_point_numbers": mgr.get("min_pts") or [0] * n, "max_matchable_radii": 5.0, "label_prefix": "autoware",
             "merge_similar_labels": False, "matching_label_policy": policy}
        if mgr.get("max_dist") is not None:
            d["max_distance"], d["min_distance"] = mgr["max_dist"], mgr["min_dist"]
        else:
            d["max_x_position"], d["max_y_position"] = 1000.0, 1000.0
        for k, name in (("ignore", "ignore_attributes"), ("uuids", "target_uuids"), ("conf", "confidence_threshold")):
            if mgr.get(k) is not None:
                d[name] = mgr[k]
        _EC_CACHE[key] = PerceptionEvaluationConfig([os.path.join(os.environ.get("VERIF_REPO", "/repo"), "perception_eval/test/sample_data")], frame,
                                                    os.path.join(BUILD, "c03_results", str(os.getpid())), d, False)
    return _EC_CACHE[key]


def expected_mgr_cfg(case):
    """the evaluator-level filter criteria as the configuration dict of `eval_config` documents them, in the JSON shape of C10.py"""
    mgr = case.get("mgr") or {}
    names = case["crit"]["targets"]
    n = len(names)
    per = lambda v: None if v is None else ([float(x) for x in v] if isinstance(v, list) else [float(v)] * n)  # noqa: E731
    cfg = {"targets": [("autoware", t) for t in names], "ignore": mgr.get("ignore"), "max_x": None, "max_y": None, "max_dist": None,
           "min_dist": None, "min_pts": [int(x) for x in (mgr.get("min_pts") or [0] * n)], "conf": per(mgr.get("conf")), "uuids": mgr.get("uuids")}
    if mgr.get("max_dist") is not None:
        cfg["max_dist"], cfg["min_dist"] = per(mgr["max_dist"]), per(mgr["min_dist"])
    else:
        cfg["max_x"], cfg["max_y"] = [1000.0] * n, [1000.0] * n
    return cfg


def frame_ground_truth(case, gts):
    from perception_eval.common.dataset import FrameGroundTruth
    from perception_eval.common.schema import FrameID
    from perception_eval.common.transform import HomogeneousMatrix

    if case["frame"] == "cam":
        return FrameGroundTruth(100, "0", list(gts))           # an image frame has no ego pose
    ego = case["ego"]
    return FrameGroundTruth(100, "0", list(gts), transforms=[HomogeneousMatrix(tuple(ego["pos"]), tuple(ego["quat"]),
                                                                              src=FrameID.BASE_LINK, dst=FrameID.MAP)])


def crit_config(ec, crit):
    from perception_eval.evaluation.result.perception_frame_config import CriticalObjectFilterConfig

    return CriticalObjectFilterConfig(
        ec, list(crit["targets"]), ignore_attributes=crit.get("ignore"), max_x_position_list=crit.get("max_x"),
        max_y_position_list=crit.get("max_y"), max_distance_list=crit.get("max_dist"), min_distance_list=crit.get("min_dist"),
        min_point_numbers=crit.get("min_pts"), confidence_threshold_list=crit.get("conf"), target_uuids=crit.get("uuids"))


def pf_config(ec, pf):
    from perception_eval.evaluation.result.perception_frame_config import PerceptionPassFailConfig

    return PerceptionPassFailConfig(ec, pf.get("targets"), matching_threshold_list=pf.get("thresholds"))


def cfg_from_params(p):
    """CriticalObjectFilterConfig.filtering_params -> the JSON shape of harness/props/C10.py."""
    fam = lambda l: "autoware" if type(l).__name__ == "AutowareLabel" else "traffic_light"  # noqa: E731
    return {"targets": None if p["target_labels"] is None else [(fam(l), l.value) for l in p["target_labels"]],
            "ignore": p["ignore_attributes"], "max_x": p["max_x_position_list"], "max_y": p["max_y_position_list"],
            "max_dist": p["max_distance_list"], "min_dist": p["min_distance_list"], "min_pts": p["min_point_numbers"],
            "conf": p["confidence_threshold_list"], "uuids": p["target_uuids"]}


def eq_keys(gts):
    """class of DynamicObject.__eq__ for every ground truth: index of the first equal one"""
    keys = []
    for i, g in enumerate(gts):
        k = i
        for j in range(i):
            if gts[j] == g:
                k = keys[j]
                break
        keys.append(k)
    return keys


def spec_keys(specs, frame):
    """the documented key of DynamicObject.__eq__ (time, label, position, orientation), stated on the GENERATED ground truths -- not
    through `==` itself: class index = first ground truth with the same label, position and orientation (2D objects define no
    __eq__: every object is its own class)"""
    if frame == "cam":
        return list(range(len(specs)))
    seen, keys = {}, []
    for i, d in enumerate(specs):
        k = (d.get("family", "autoware"), d["label"], tuple(float(v) for v in d["pos"]), tuple(round(float(v), 9) for v in d.get("quat", [1.0, 0.0, 0.0, 0.0])))
        keys.append(seen.setdefault(k, i))
    return keys


def keys_vs_spec(specs, frame, gt_keys, ids=None):
    """None = fine; "skip" = two generated ground truths really share a key (outside the quantifier); otherwise what `==` gets wrong"""
    want = spec_keys(specs, frame)
    ids = list(range(len(specs))) if ids is None else ids
    sub = [want[i] for i in ids]
    for a in range(len(ids)):
        for b in range(a):
            same_spec, same_eq = sub[a] == sub[b], gt_keys[a] == gt_keys[b]
            if same_eq and not same_spec:
                da, db = specs[ids[a]], specs[ids[b]]
                return (f"ground truths {ids[b]} ({db['label']} at {db['pos']}, orientation {db.get('quat')}) and {ids[a]} ({da['label']} at {da['pos']}, "
                        f"orientation {da.get('quat')}) compare equal (==) although they differ in label, position or orientation")
    return "skip" if len(set(sub)) != len(sub) else None


def observe_frame(fr, ests, gts, results):
    ei = {id(o): i for i, o in enumerate(ests)}
    gi = {id(o): i for i, o in enumerate(gts)}

    def pair(r):
        return [ei.get(id(r.estimated_object), -1), None if r.ground_truth_object is None else gi.get(id(r.ground_truth_object), -1)]

    p = fr.pass_fail_result
    return {"results": [pair(r) for r in fr.object_results], "gts": [gi.get(id(o), -1) for o in fr.frame_ground_truth.objects],
            "tp": [pair(r) for r in p.tp_object_results], "fp": [pair(r) for r in p.fp_object_results],
            "tn": [gi.get(id(o), -1) for o in p.tn_objects], "fn": [gi.get(id(o), -1) for o in p.fn_objects],
            "num_success": p.get_num_success(), "num_fail": p.get_num_fail()}


def label_compatible(policy, ef, gf):
    """MatchingLabelPolicy as documented (independent of is_matchable)."""
    if gf["is_fp"] or policy == "ALLOW_ANY":
        return True
    if policy == "ALLOW_UNKNOWN":
        return ef["lid"] == gf["lid"] or ef["is_unknown"]
    return ef["lid"] == gf["lid"]


def second_thresholds(case):
    """the thresholds of the SECOND judgement of the same results, derived from the thresholds the case configures (never from a config object)"""
    thr = case["pf"].get("thresholds")
    if thr is None:
        return None
    if case["frame"] == "cam":
        return [{0.5: 0.25, 0.25: 0.5, 0.75: 0.125, 0.125: 0.75, 0.0: 0.5}.get(t, 0.5) for t in thr]
    return [{0.5: 2.0, 1.0: 0.5, 2.0: 0.0, 3.0: 0.5, 0.0: 1.0}.get(t, 1.0) for t in thr]


def configs_vs_case(case, obs, pf_given=None):
    """The critical filter and the pass/fail thresholds the frame was judged with, as the CONFIG OBJECTS hold them, against what the case
    handed to their constructors (documented: one entry per target label, kept as given).  Everything else in the oracle works with the
    objects' values; a config object that remembers another instance's lists (a class-level or module-level cache, a shared default)
    would otherwise be invisible."""
    def norm(v):
        if isinstance(v, (list, tuple)):
            return [norm(x) for x in v]
        return float(v) if isinstance(v, (int, float)) and not isinstance(v, bool) else v

    crit, got = case.get("crit"), obs.get("crit")
    if crit is not None and got is not None:
        want = {"targets": [["autoware", t] for t in crit["targets"]], "ignore": crit.get("ignore"), "min_pts": crit.get("min_pts"),
                "conf": crit.get("conf"), "uuids": crit.get("uuids"), "max_x": None, "max_y": None, "max_dist": None, "min_dist": None}
        if crit.get("max_x") and crit.get("max_y"):
            want["max_x"], want["max_y"] = crit["max_x"], crit["max_y"]
        elif crit.get("max_dist") and crit.get("min_dist"):
            want["max_dist"], want["min_dist"] = crit["max_dist"], crit["min_dist"]
        for k, w in want.items():
            if norm(got.get(k)) != norm(w):
                return (f"the critical object filter was created with {k} = {w} (target labels {crit['targets']}) but its filtering_params hold "
                        f"{got.get(k)}")
    pf = case.get("pf")
    if pf is not None and "pf_thresholds" in obs:
        given = pf.get("thresholds") if pf_given is None else pf_given
        sgn = -1.0 if obs.get("score_negated") else 1.0
        want_thr = None if given is None else [sgn * float(t) for t in given]
        if norm(obs["pf_thresholds"]) != norm(want_thr):
            return (f"the pass/fail configuration was created with thresholds {given} for target labels {pf.get('targets')} but holds "
                    f"{None if obs['pf_thresholds'] is None else [sgn * t for t in obs['pf_thresholds']]}")
        if pf.get("targets"):
            want_t = [label_id(_label_enum("autoware", t)) for t in pf["targets"]]
            if obs.get("pf_targets") != want_t:
                return f"the pass/fail configuration was created with target labels {pf['targets']} (ids {want_t}) but holds {obs.get('pf_targets')}"
    return None


def accounting_oracle(case, obs):
    """The property, stated on the implementation's outputs.  obs carries facts + outputs."""
    F = Fraction
    m = configs_vs_case(case, obs, obs.get("pf_given"))
    if m:
        return m
    # "in whichever frame the objects are expressed": the ego-relative coordinates the critical filter works with (read through the
    # same getters the filter calls) must be the coordinates the objects were generated at in the ego frame
    from harness.props.C10 import facts_vs_generator

    if (not obs.get("skip_generator_check") and all("ego_xy" in d for d in case.get("ests", []) + case.get("gts", []))
            and len(obs.get("est_facts", [])) == len(case.get("ests", [])) and len(obs.get("gt_facts", [None])) == len(case.get("gts", []))):
        m = (facts_vs_generator(case["ests"], obs["est_facts"], "base_link", None, "estimate")
             or facts_vs_generator(case["gts"], obs["gt_facts"], "base_link", None, "ground truth"))
        if m:
            return m
    ef, gf = obs["est_facts"], obs["gt_facts"]
    cfg = obs["crit"]
    est_cfg = {k: v for k, v in cfg.items() if k not in ("ignore", "min_pts", "uuids")}
    tp, fp, tn, fn = obs["tp"], obs["fp"], obs["tn"], obs["fn"]
    surv, crit_gts = obs["results"], obs["gts"]
    if any(e < 0 or (g is not None and g < 0) for e, g in tp + fp + surv) or any(g < 0 for g in tn + fn + crit_gts):
        return "an object that is neither an input estimate nor a ground truth of the frame is reported"
    # 1. every surviving result is exactly one of TP / FP
    if sorted(e for e, _ in tp + fp) != sorted(e for e, _ in surv):
        return f"results are not partitioned: surviving estimates {sorted(e for e, _ in surv)} but TP+FP estimates {sorted(e for e, _ in tp + fp)}"
    # 2. nothing outside the critical region is counted, and nothing inside it is lost
    for e, g in tp + fp:
        if not doc_keep(ef[e], est_cfg, False, True):
            return f"estimate {e} is counted although it is outside the critical region / criteria: {ef[e]}"
    for g in [g for _, g in tp + fp if g is not None] + tn + fn:
        if not doc_keep(gf[g], cfg, True, True):
            return f"ground truth {g} is counted although it is outside the critical region / criteria: {gf[g]}"
    want_gts = [i for i, f in enumerate(gf) if doc_keep(f, cfg, True, True)]
    if cfg.get("conf") is not None:
        by_conf = [g for g in want_gts if g not in crit_gts and not doc_keep(gf[g], cfg, False, True)]
        if by_conf:
            return (f"ground truth {by_conf[0]} is removed from the critical ground truths by the confidence threshold list {cfg['conf']} "
                    f"(documented: used for estimates only): {gf[by_conf[0]]}")
    if want_gts != crit_gts:
        return f"critical ground truths are {crit_gts} but the critical criteria select {want_gts}"
    gt_cfg = {k: v for k, v in cfg.items() if k != "conf"}
    want_res = []
    for e, g in obs["pairs"]:
        ok = doc_keep(ef[e], est_cfg, False, True)
        if g is not None:
            ok = ok and doc_keep(gf[g], gt_cfg, True, True)
        elif cfg.get("uuids"):
            ok = False
        if ok:
            want_res.append([e, g])
    if want_res != surv:
        return f"surviving results are {surv} but the critical criteria select {want_res}"
    # 3. every critical ground truth is accounted for exactly once
    for g in crit_gts:
        if gf[g]["is_fp"]:
            n_tn, n_fp = tn.count(g), sum(1 for _, h in fp if h == g)
            if n_tn + n_fp != 1:
                return f"FP-labelled critical ground truth {g}: {n_tn} times in TN and ground truth of {n_fp} FP results (expected exactly one in total)"
            if g in fn or any(h == g for _, h in tp):
                return f"FP-labelled ground truth {g} is reported as FN or as the ground truth of a TP"
        else:
            n_tp, n_fn = sum(1 for _, h in tp if h == g), fn.count(g)
            if n_tp + n_fn != 1:
                return f"critical ground truth {g}: ground truth of {n_tp} TP results and {n_fn} times in FN (expected exactly one in total)"
            if g in tn:
                return f"ordinary ground truth {g} is reported as TN"
    n_ord = sum(1 for g in crit_gts if not gf[g]["is_fp"])
    if n_ord != len(tp) + len(fn):
        return f"{n_ord} ordinary critical ground truths but TP + FN = {len(tp)} + {len(fn)}"
    if len(surv) != len(tp) + len(fp):
        return f"{len(surv)} surviving results but TP + FP = {len(tp)} + {len(fp)}"
    # 4. a TP has a label-compatible ground truth whose score beats the threshold of the GT's label
    thr_targets, thr_list = obs["pf_targets"], obs["pf_thresholds"]
    sgn = -1 if obs.get("score_negated") else 1        # 2D: the score is -IoU and the thresholds are negated ("larger is better")
    score = {(e, g): (l, s) for (e, g), l, s in zip(map(tuple, obs["pairs"]), obs["label_ok"], obs["score"])}
    for e, g in tp:
        if g is None:
            return f"TP result of estimate {e} has no ground truth"
        if gf[g]["is_fp"]:
            return f"TP result of estimate {e} has an FP-labelled ground truth"
        if not label_compatible(case["policy"], ef[e], gf[g]):
            return f"TP ({e},{g}) is not label-compatible under {case['policy']}: {ef[e]['lid']} vs {gf[g]['lid']}"
        if thr_targets is not None and thr_list is not None and gf[g]["lid"] in thr_targets:
            t = thr_list[thr_targets.index(gf[g]["lid"])]
            s = score[(e, g)][1]
            if s is None or not (F(s) < F(t)):
                return (f"TP ({e},{g}) has pass/fail score {None if s is None else sgn * s}, not better than the threshold {sgn * t} of its "
                        f"ground truth's label ({'IoU 2D, larger is better' if sgn < 0 else 'plane distance, smaller is better'})")
    # 4b. documented meaning of a match with an FP-labelled ground truth (is_result_correct: "Return False, if label
    #     of GT is FP and matching"): hit better than the threshold -> matched FP; missed / no threshold -> TN
    for e, g in surv:
        if g is None or not gf[g]["is_fp"]:
            continue
        hit = False
        if thr_targets is not None and thr_list is not None and gf[g]["lid"] in thr_targets:
            t = thr_list[thr_targets.index(gf[g]["lid"])]
            s = score[(e, g)][1]
            hit = s is not None and F(s) < F(t)
        if hit and [e, g] not in fp:
            return f"estimate {e} hits the FP-labelled ground truth {g} (score better than its threshold) but is not reported as its matched FP"
        if not hit and (g not in tn or [e, None] not in fp):
            return f"estimate {e} misses the FP-labelled ground truth {g} but the ground truth is not TN / the estimate not a GT-less FP"
    # 5. success / fail counts
    if obs["num_success"] != len(tp) + len(tn) or obs["num_fail"] != len(fp) + len(fn):
        return f"num_success/num_fail = {obs['num_success']}/{obs['num_fail']} but TP,TN,FP,FN = {len(tp)},{len(tn)},{len(fp)},{len(fn)}"
    return None


# ------------------------------------------------------------------------------------------------
YAW_Q = [[1.0, 0.0, 0.0, 0.0], [0.0, 0.0, 0.0, 1.0], [0.6, 0.0, 0.0, 0.8], [0.8, 0.0, 0.0, -0.6], [0.28, 0.0, 0.0, 0.96]]
BOXES = [(2.0, 1.0, 1.0), (4.0, 2.0, 1.5), (1.0, 1.0, 2.0)]


def _quat(frame, ego, yaw_i):
    """orientation of an object with ego-relative yaw YAW_Q[yaw_i], rendered in `frame`"""
    from pyquaternion import Quaternion

    q = Quaternion(YAW_Q[yaw_i])
    if frame == "map":
        q = Quaternion(ego["quat"]) * q
    return [float(v) for v in q.elements]


def gen_frame(rng, stream):
    frame = "base_link" if rng.random() < 0.4 else "map"
    ego = rng.choice(EGO_POSES)
    ng = rng.choice([0, 1, 2, 3, 5, 8]) if stream == "boundary" else rng.randint(2, 9)
    ne = rng.choice([0, 1, 2, 3, 5, 8]) if stream == "boundary" else rng.randint(2, 9)
    n_t = rng.choice([1, 2, 3, 4])
    targets = rng.sample(LABEL_POOL, n_t)
    # boxes: mostly the same box everywhere (plane distance = the x offset: exact threshold hits); in the other frames sizes and yaws
    # differ, so that plane distance, BEV centre distance and 3D centre distance are three different numbers
    plain = rng.random() < 0.45
    gts, used = [], set()
    while len(gts) < ng:
        p = (float(rng.randint(-14, 14)), float(rng.randint(-7, 7)))
        if rng.random() < 0.35:
            p = (float(rng.choice([-10, 10, 8, 6, 3, -3])), float(rng.choice([-5, 5, 0, 4, -4])))
        if rng.random() < 0.03:
            p = (0.0, 0.0)                 # at the ego origin: distance exactly 0 (a minimum distance of 0 is a STRICT bound)
        lab = rng.choice(targets + targets + ["false_positive", "truck", "unknown"])
        yaw_i = 0 if plain else rng.randrange(len(YAW_Q))
        if gts and rng.random() < 0.12:
            # a second ground truth at the very position of another one: their __eq__ keys (time, label, position, orientation) still
            # differ when the label or the orientation does -- each of them is accounted for on its own
            p = tuple(rng.choice(gts)["ego_xy"])
        if (p, lab, yaw_i) in used:
            continue                       # ground truths with identical __eq__ keys are outside the quantifier
        used.add((p, lab, yaw_i))
        gts.append({"family": "autoware", "label": lab, "name": rng.choice(NAMES[lab]),
                    "attrs": rng.sample(["vehicle_state.parked", "cycle_state.without_rider"], rng.choice([0, 0, 0, 1])),
                    "conf": 1.0, "uuid": rng.choice(UUIDS), "pts": rng.choice([0, 1, 3, 5, 10]),
                    "pos": ego_to_frame(frame, ego, (p[0], p[1], 0.0 if plain else rng.choice([0.0, 0.0, 0.5]))), "ego_xy": list(p),
                    "quat": _quat(frame, ego, yaw_i), "yaw_i": yaw_i, "size": list(BOXES[0] if plain else rng.choice(BOXES))})
    free = list(range(ng))
    rng.shuffle(free)
    ests, pairs = [], []
    for e in range(ne):
        lab = rng.choice(targets + ["unknown", "truck"])
        conf = rng.choice([0.0, 0.0, 1.0]) if rng.random() < 0.08 else rng.randint(1, 64) / 64.0     # exactly 0: never above a threshold of 0
        yaw_i, size = 0, BOXES[0]
        if free and rng.random() < 0.7:
            g = free.pop()
            if rng.random() < 0.7 and gts[g]["label"] != "false_positive":
                lab = gts[g]["label"]
            dx = rng.choice([0.0, 0.5, 1.0, 1.0, 1.5, 2.0, 2.5, 4.0])
            dy = 0.0 if plain or rng.random() < 0.5 else rng.choice([0.5, -0.5, 1.0, -2.0])
            ex, ey = gts[g]["ego_xy"][0] + dx * rng.choice([-1, 1]), gts[g]["ego_xy"][1] + dy
            yaw_i, size = gts[g]["yaw_i"], gts[g]["size"]
            if not plain and rng.random() < 0.4:
                yaw_i, size = rng.randrange(len(YAW_Q)), rng.choice(BOXES)
            pairs.append([e, g])
        else:
            ex, ey = lat(rng, -14, 14), lat(rng, -7, 7)
            pairs.append([e, None])
        ests.append({"family": "autoware", "label": lab, "name": rng.choice(NAMES[lab]), "attrs": [], "conf": conf, "uuid": None,
                     "pts": None, "pos": ego_to_frame(frame, ego, (ex, ey, 0.0)), "ego_xy": [ex, ey],
                     "quat": _quat(frame, ego, yaw_i), "size": list(size)})
    rng.shuffle(pairs)
    crit = {"targets": targets + (rng.sample([l for l in LABEL_POOL if l not in targets], 1) if rng.random() < 0.2 and n_t < 6 else [])}
    n_c = len(crit["targets"])
    if rng.random() < 0.55:
        crit["max_x"] = [rng.choice([10.0, 8.0, 6.0, 12.0, 3.0, 100.0]) for _ in range(n_c)]
        crit["max_y"] = [rng.choice([5.0, 4.0, 6.0, 100.0]) for _ in range(n_c)]
    else:
        crit["max_dist"] = [rng.choice([10.0, 5.0, 12.5, 100.0]) for _ in range(n_c)]
        crit["min_dist"] = [rng.choice([0.0, 0.0, 3.0, 5.0]) for _ in range(n_c)]
    _crit_options(rng, crit, n_c)
    # documented: "If None or empty list is specified, all labels will be evaluated" -- the falsy [] is as valid as None
    pf = {"targets": rng.choice([crit["targets"], targets, rng.sample(LABEL_POOL, rng.choice([1, 2, 3])), None, None, []])}
    n_pf = 9 if not pf["targets"] else len(pf["targets"])
    # a threshold of exactly 0 is a threshold (no distance is below it: no TP; an FP-labelled ground truth is never "hit"), not "no threshold"
    pf["thresholds"] = None if rng.random() < 0.15 else [rng.choice([0.5, 1.0, 1.0, 2.0, 3.0, 0.0]) for _ in range(n_pf)]
    return {"frame": frame, "ego": ego, "ests": ests, "gts": gts, "pairs": pairs, "crit": crit, "pf": pf,
            "policy": rng.choice(POLICIES), "stream": stream, "boxes": "plain" if plain else "varied"}


def _crit_options(rng, crit, n_c):
    if rng.random() < 0.4:
        crit["min_pts"] = [rng.choice([0, 1, 3, 5]) for _ in range(n_c)]
    if rng.random() < 0.4:
        crit["conf"] = [rng.choice([0.0, 0.25, 0.5, 0.5, 0.75, 1.0, 1.5]) for _ in range(n_c)]   # incl. = / above the GT score 1.0
    if rng.random() < 0.25:
        crit["uuids"] = rng.sample(UUIDS, rng.choice([0, 2, 3, 4]))
    if rng.random() < 0.25:
        crit["ignore"] = rng.choice([[], ["vehicle_state.parked"], ["cycle_state.without_rider", "construction"]])


# IoU of an 8-px-lattice ROI pair: nested boxes give 1/2, 1/4, 1/8 exactly (threshold hits), shifted equal boxes 1/3, 3/5, 1/7, 0
ROI_PAIRS = [((0, 0, 16, 16), (0, 0, 16, 16)), ((0, 0, 16, 16), (0, 0, 16, 8)), ((0, 0, 16, 16), (4, 4, 8, 8)), ((0, 0, 16, 16), (0, 0, 8, 4)),
             ((0, 0, 16, 16), (8, 0, 16, 16)), ((0, 0, 16, 16), (4, 0, 16, 16)), ((0, 0, 16, 16), (12, 0, 16, 16)), ((0, 0, 16, 16), (16, 0, 16, 16)),
             ((0, 0, 16, 16), (40, 40, 8, 8)), ((0, 0, 8, 32), (0, 8, 8, 16)), ((0, 0, 32, 8), (0, 0, 24, 8))]
THR_IOU = [0.5, 0.5, 0.25, 0.125, 0.75, 0.0]


def gen_frame2d(rng, stream):
    """a camera frame of a detection2d task: ROI objects without a position (no critical x/y/distance criterion can apply), pass/fail by
    IoU 2D -- LARGER is better"""
    ng = rng.choice([0, 1, 2, 3, 5]) if stream == "boundary" else rng.randint(2, 8)
    ne = rng.choice([0, 1, 2, 3, 5]) if stream == "boundary" else rng.randint(2, 8)
    n_t = rng.choice([1, 2, 3, 4])
    targets = rng.sample(LABEL_POOL, n_t)
    gts = []
    for k in range(ng):
        lab = rng.choice(targets + targets + ["false_positive", "truck", "unknown"])
        x0, y0 = 64 * (k % 4) + 8 * rng.randint(0, 2), 64 * (k // 4) + 8 * rng.randint(0, 2)
        if gts and rng.random() < 0.1:
            x0, y0 = gts[-1]["at"]                   # two annotations of one image region (ROIs have no __eq__: always two objects)
        gts.append({"family": "autoware", "label": lab, "name": rng.choice(NAMES[lab]),
                    "attrs": rng.sample(["vehicle_state.parked", "cycle_state.without_rider"], rng.choice([0, 0, 0, 1])),
                    "conf": 1.0, "uuid": rng.choice(UUIDS), "pts": None, "at": [x0, y0], "roi": None})
    free = list(range(ng))
    rng.shuffle(free)
    ests, pairs = [], []
    for e in range(ne):
        lab = rng.choice(targets + ["unknown", "truck"])
        conf = rng.randint(1, 64) / 64.0
        if free and rng.random() < 0.75:
            g = free.pop()
            if rng.random() < 0.7 and gts[g]["label"] != "false_positive":
                lab = gts[g]["label"]
            a, b = rng.choice(ROI_PAIRS)
            if rng.random() < 0.5:
                a, b = b, a
            x0, y0 = gts[g]["at"]
            gts[g]["roi"] = [x0 + a[0], y0 + a[1], a[2], a[3]]
            roi = [x0 + b[0], y0 + b[1], b[2], b[3]]
            pairs.append([e, g])
        else:
            roi = [8 * rng.randint(0, 40), 8 * rng.randint(30, 40), 8, 16]
            pairs.append([e, None])
        ests.append({"family": "autoware", "label": lab, "name": rng.choice(NAMES[lab]), "attrs": [], "conf": conf, "uuid": None, "pts": None, "roi": roi})
    for g in gts:
        if g["roi"] is None:
            g["roi"] = [g["at"][0], g["at"][1], 16, 16]
    rng.shuffle(pairs)
    crit = {"targets": targets + (rng.sample([l for l in LABEL_POOL if l not in targets], 1) if rng.random() < 0.2 and n_t < 6 else [])}
    n_c = len(crit["targets"])
    if rng.random() < 0.3:                           # position bounds may be given: nothing on an image has a position they could reject
        crit["max_x"], crit["max_y"] = [rng.choice([10.0, 3.0]) for _ in range(n_c)], [rng.choice([5.0, 4.0]) for _ in range(n_c)]
    _crit_options(rng, crit, n_c)
    crit.pop("min_pts", None)
    pf = {"targets": rng.choice([crit["targets"], targets, rng.sample(LABEL_POOL, rng.choice([1, 2, 3])), None, None, []])}
    n_pf = 9 if not pf["targets"] else len(pf["targets"])
    pf["thresholds"] = None if rng.random() < 0.15 else [rng.choice(THR_IOU) for _ in range(n_pf)]
    return {"frame": "cam", "ego": None, "ests": ests, "gts": gts, "pairs": pairs, "crit": crit, "pf": pf,
            "policy": rng.choice(POLICIES), "stream": stream + "-2d"}


def _g(label, xy, uuid="a", pts=3, frame="base_link", ego=None):
    ego = ego or EGO_POSES[0]
    d = _o(label, ego_to_frame(frame, ego, (xy[0], xy[1], 0.0)), 1.0, uuid, pts)
    d["quat"] = list(ego["quat"]) if frame == "map" else [1.0, 0.0, 0.0, 0.0]
    return d


def _e(label, xy, conf=0.5, frame="base_link", ego=None):
    ego = ego or EGO_POSES[0]
    d = _o(label, ego_to_frame(frame, ego, (xy[0], xy[1], 0.0)), conf)
    d["quat"] = list(ego["quat"]) if frame == "map" else [1.0, 0.0, 0.0, 0.0]
    return d


def _regressions():
    # witness of the repaired defect (/repo 54ea74c): confidence threshold 1.0 for the ground truth's label = its own score;
    # it used to give 0 critical ground truths but fn=[0]
    out = [{"frame": "base_link", "ego": EGO_POSES[0], "stream": "regression", "policy": "DEFAULT",
            "ests": [_e("car", (1.0, 0.0), conf=0.9)], "gts": [_g("pedestrian", (1.0, 0.0))], "pairs": [[0, 0]],
            "crit": {"targets": ["car", "pedestrian"], "max_x": [10.0, 10.0], "max_y": [10.0, 10.0], "conf": [0.5, 1.0]},
            "pf": {"targets": ["car", "pedestrian"], "thresholds": [1.0, 1.0]}}]
    for frame, ego in (("base_link", EGO_POSES[0]), ("map", EGO_POSES[1]), ("map", EGO_POSES[3])):
        # the witness of the former `transform=` typo (F1): in the map frame an estimate far outside the
        # critical region paired with nothing, one inside paired with the only critical GT
        out.append({"frame": frame, "ego": ego, "stream": "regression", "policy": "DEFAULT",
                    "ests": [_e("car", (1.0, 0.0), frame=frame, ego=ego), _e("car", (30.0, 0.0), frame=frame, ego=ego)],
                    "gts": [_g("car", (1.5, 0.0), frame=frame, ego=ego), _g("car", (30.5, 0.0), "b", frame=frame, ego=ego)],
                    "pairs": [[0, 0], [1, 1]],
                    "crit": {"targets": ["car"], "max_x": [10.0], "max_y": [10.0]}, "pf": {"targets": ["car"], "thresholds": [1.0]}})
        # every status: TP, FN by score exactly on the threshold, FN by label, TN (FP-labelled GT missed by the
        # threshold), matched FP (FP-labelled GT hit), unmatched GT -> FN / TN, GT-less estimate -> FP
        out.append({"frame": frame, "ego": ego, "stream": "regression", "policy": "DEFAULT",
                    "ests": [_e("car", (1.5, 0.0), frame=frame, ego=ego), _e("car", (5.0, 2.0), frame=frame, ego=ego),
                             _e("pedestrian", (-3.0, 1.0), frame=frame, ego=ego), _e("car", (2.0, -4.0), frame=frame, ego=ego),
                             _e("car", (-6.5, -4.0), frame=frame, ego=ego), _e("car", (8.0, 4.0), frame=frame, ego=ego)],
                    "gts": [_g("car", (1.0, 0.0), frame=frame, ego=ego), _g("car", (4.0, 2.0), frame=frame, ego=ego),
                            _g("car", (-3.0, 1.0), frame=frame, ego=ego), _g("false_positive", (4.0, -4.0), frame=frame, ego=ego),
                            _g("false_positive", (-6.0, -4.0), frame=frame, ego=ego), _g("car", (0.0, 3.0), frame=frame, ego=ego),
                            _g("false_positive", (0.0, -3.0), frame=frame, ego=ego), _g("car", (30.0, 0.0), frame=frame, ego=ego)],
                    "pairs": [[0, 0], [1, 1], [2, 2], [3, 3], [4, 4], [5, None]],
                    "crit": {"targets": ["car", "pedestrian"], "max_x": [10.0, 10.0], "max_y": [5.0, 5.0]},
                    "pf": {"targets": ["car", "pedestrian"], "thresholds": [1.0, 1.0]}})
        # no thresholds configured: label only
        out.append(dict(out[-1], pf={"targets": ["car", "pedestrian"], "thresholds": None}))
        out.append(dict(out[-2], pf={"targets": ["pedestrian"], "thresholds": [1.0]}, policy="ALLOW_ANY"))
    return out


def encode_frame_terms(case, obs):
    ef, gf, keys = obs["est_facts"], obs["gt_facts"], obs["gt_keys"]
    rs = []
    for (e, g), lok, sc in zip(obs["pairs"], obs["label_ok"], obs["score"]):
        gt = "None" if g is None else f"(Some {obj_lit(g, gf[g], keys[g])})"
        rs.append(f"(mkRes {obj_lit(e, ef[e], 1000 + e)} {gt} {blit(lok)} {olit(sc, qlit)})")
    gts = llit([obj_lit(i, f, keys[i]) for i, f in enumerate(gf)])
    pf = (f"(mkPF {olit(obs['pf_targets'], lambda l: llit([str(x) for x in l]))} "
          f"{olit(obs['pf_thresholds'], lambda l: llit([qlit(x) for x in l]))})")
    return cfg_lit(obs["crit"]), pf, llit(rs), gts


def pairs_lit(ps):
    return llit([f"({e}, {olit(g, str)})" for e, g in ps])


class FrameResultCorr(Corr):
    name = "evaluate_frame"
    header = HEADER
    requires = ["Model/PassFail.vo", "Model/Filter.vo", "Base/CaseUtil.vo"]
    shard = 60

    def cases(self, tier, rng):
        import shutil

        shutil.rmtree(os.path.join(BUILD, "c03_results"), ignore_errors=True)   # log dirs of earlier runs (one per worker process)
        out = _regressions()
        n = 420 if tier == "quick" else 6000
        for k in range(n):
            st = "typical" if rng.random() < 0.7 else "boundary"
            out.append(gen_frame2d(rng, st) if k % 5 == 3 else gen_frame(rng, st))     # every fifth frame: a detection2d camera frame
        return out

    def _build(self, case):
        from perception_eval.evaluation import DynamicObjectWithPerceptionResult
        from perception_eval.evaluation.matching import MatchingLabelPolicy

        ests = [build_object(d, case["frame"]) for d in case["ests"]]
        gts = [build_object(d, case["frame"]) for d in case["gts"]]
        fgt = frame_ground_truth(case, gts)
        policy = MatchingLabelPolicy.from_str(case["policy"])
        results = [DynamicObjectWithPerceptionResult(ests[e], None if g is None else gts[g], policy, transforms=fgt.transforms)
                   for e, g in case["pairs"]]
        ec = eval_config(case["frame"], case["crit"]["targets"], case["policy"])
        return ests, gts, fgt, results, ec, crit_config(ec, case["crit"]), pf_config(ec, case["pf"])

    @staticmethod
    def _score(case, r):
        """the pass/fail score as the model's "smaller is better" number: the plane distance (3D) or MINUS the IoU 2D (2D tasks: a larger
        IoU is better; the thresholds are negated alike, so `-iou < -thr` is `iou > thr`, exactly)"""
        if r.ground_truth_object is None:
            return None
        if case["frame"] == "cam":
            v = r.iou_2d.value
            return None if v is None else -float(v)
        v = r.plane_distance.value
        return None if v is None else float(v)

    def run_impl(self, case):
        from perception_eval.evaluation import PerceptionFrameResult

        try:
            ests, gts, fgt, results, ec, crit, pf = self._build(case)
        except Exception as e:       # a (mutated) configuration class may reject a well-formed configuration: an observation
            return {"error": f"building the frame's objects / configurations raised {type(e).__name__}: {e}"}
        obs = {"pairs": [list(p) for p in case["pairs"]],
               "est_facts": [object_facts(o, fgt.transforms) for o in ests], "gt_facts": [object_facts(o, fgt.transforms) for o in gts],
               "gt_keys": eq_keys(gts), "label_ok": [bool(r.is_label_correct) for r in results],
               "score": [self._score(case, r) for r in results],
               "crit": cfg_from_params(crit.filtering_params),
               "pf_targets": None if pf.target_labels is None else [label_id(l) for l in pf.target_labels],
               "pf_thresholds": pf.matching_threshold_list}
        two_d = case["frame"] == "cam"
        if two_d:
            obs["score_negated"] = True
            if pf.matching_threshold_list is not None:
                obs["pf_thresholds"] = [-float(t) for t in pf.matching_threshold_list]
        fr = PerceptionFrameResult(list(results), fgt, ec.metrics_config, crit, pf, 100, ec.target_labels)
        fr.evaluate_frame()
        obs.update(observe_frame(fr, ests, gts, results))
        if two_d:
            obs["map_modes"] = [m.matching_mode.name for m in fr.metrics_score.maps]
        # the SAME result objects judged once more under other pass/fail thresholds (a re-evaluation of stored frame results, as
        # filter_frame_by_distance-style tooling does): the judgement must depend on the thresholds given now, not on the earlier call
        if second_thresholds(case) is not None:
            from perception_eval.evaluation.result.perception_pass_fail_result import PassFailResult

            thr2 = second_thresholds(case)
            pf2 = pf_config(ec, dict(case["pf"], thresholds=thr2))
            p2 = PassFailResult(100, 0, crit, pf2, transforms=fgt.transforms)
            p2.evaluate(fr.object_results, fr.frame_ground_truth.objects)

            class _Fr:       # the same frame with the second judgement
                object_results, frame_ground_truth, pass_fail_result = fr.object_results, fr.frame_ground_truth, p2
            o2 = observe_frame(_Fr, ests, gts, results)
            o2["pf_thresholds"] = [-float(t) for t in pf2.matching_threshold_list] if two_d else pf2.matching_threshold_list
            o2["pf_given"] = thr2
            obs["second"] = o2
        return obs

    def coq_term(self, case, obs):
        if "error" in obs:
            return "false"
        crit, pf, rs, gts = encode_frame_terms(case, obs)
        ids = lambda l: llit([str(x) for x in l])  # noqa: E731
        first = (f"check_frame {crit} {pf} {rs} {gts} {pairs_lit(obs['results'])} {ids(obs['gts'])} {pairs_lit(obs['tp'])} "
                 f"{pairs_lit(obs['fp'])} {ids(obs['tn'])} {ids(obs['fn'])} {obs['num_success']} {obs['num_fail']}")
        if "second" not in obs:
            return first
        o2 = obs["second"]
        _, pf2, _, _ = encode_frame_terms(case, dict(obs, pf_thresholds=o2["pf_thresholds"]))
        second = (f"check_frame {crit} {pf2} {rs} {gts} {pairs_lit(o2['results'])} {ids(o2['gts'])} {pairs_lit(o2['tp'])} "
                  f"{pairs_lit(o2['fp'])} {ids(o2['tn'])} {ids(o2['fn'])} {o2['num_success']} {o2['num_fail']}")
        return f"(({first}) && ({second}))%bool"

    def coq_debug(self, case, obs):
        if "error" in obs:
            return None
        crit, pf, rs, gts = encode_frame_terms(case, obs)
        return (f"match evaluate_frame {crit} {pf} {rs} {gts} with Ok f => Some (map res_pair (f_results f), ids (f_gts f), "
                f"map res_pair (f_tp f), map res_pair (f_fp f), ids (f_tn f), ids (f_fn f)) | _ => None end")

    def oracle(self, case, obs):
        if "error" in obs:
            return f"{obs['error']} (critical filter {case['crit']}, pass/fail {case['pf']}: a well-formed configuration)"
        k = keys_vs_spec(case["gts"], case["frame"], obs["gt_keys"])
        if k is not None:
            return None if k == "skip" else k      # ground truths that really share an __eq__ key: outside the quantifier
        if "map_modes" in obs and obs["map_modes"] != ["CENTERDISTANCE", "IOU2D"]:
            return f"detection2d frame: metrics_score.maps are {obs['map_modes']} (configured: one centre-distance and one IoU-2D threshold list)"
        r = accounting_oracle(case, obs)
        if r is None and "second" in obs:
            o2 = dict(obs, **obs["second"])
            r = accounting_oracle(case, o2)
            if r:
                r = "second judgement of the same results under thresholds " + str(obs["second"]["pf_thresholds"]) + ": " + r
        return r

    def nontrivial(self, case, obs):
        if "tp" not in obs:
            return False
        kinds = sum(1 for k in ("tp", "fp", "tn", "fn") if obs[k])
        return kinds >= 2 and len(obs["results"]) < len(obs["pairs"]) + len(obs["gt_facts"])

    def describe(self, case, obs):
        return {"case": {k: case[k] for k in ("frame", "ego", "pairs", "crit", "pf", "policy", "stream")},
                "observed": {k: obs.get(k) for k in ("results", "gts", "tp", "fp", "tn", "fn", "num_success", "num_fail", "error") if k in obs}}

    def distribution(self, cases, obs):
        d = {"frames": {}, "policies": {}, "box_styles": {}, "gts_sharing_a_position": 0, "results_in": 0, "results_surviving": 0, "gts_in": 0, "gts_critical": 0, "TP": 0, "FP": 0, "TN": 0,
             "FN": 0, "fp_reemitted_gtless": 0, "fp_with_fp_labelled_gt": 0, "score_on_threshold": 0, "no_threshold_frames": 0}
        for c, o in zip(cases, obs):
            if "tp" not in o:
                continue
            d["frames"][c["frame"]] = d["frames"].get(c["frame"], 0) + 1
            d["policies"][c["policy"]] = d["policies"].get(c["policy"], 0) + 1
            bs = c.get("boxes", "2d" if c["frame"] == "cam" else "plain")
            d["box_styles"][bs] = d["box_styles"].get(bs, 0) + 1
            spots = [tuple(g.get("ego_xy") or g.get("at") or ()) for g in c["gts"]]
            d["gts_sharing_a_position"] += len(spots) - len(set(spots))
            d["results_in"] += len(c["pairs"])
            d["results_surviving"] += len(o["results"])
            d["gts_in"] += len(c["gts"])
            d["gts_critical"] += len(o["gts"])
            for k in ("tp", "fp", "tn", "fn"):
                d[k.upper()] += len(o[k])
            d["no_threshold_frames"] += o["pf_thresholds"] is None
            d["frames_with_a_pass_fail_threshold_of_exactly_0"] = d.get("frames_with_a_pass_fail_threshold_of_exactly_0", 0) + bool(o["pf_thresholds"] and 0 in o["pf_thresholds"])
            d["results_judged_against_threshold_0"] = d.get("results_judged_against_threshold_0", 0) + sum(
                1 for (e, g) in map(tuple, o["results"]) if g is not None and o["pf_targets"] is not None and o["pf_thresholds"]
                and o["gt_facts"][g]["lid"] in o["pf_targets"] and o["pf_thresholds"][o["pf_targets"].index(o["gt_facts"][g]["lid"])] == 0)
            d["estimates_of_confidence_exactly_0"] = d.get("estimates_of_confidence_exactly_0", 0) + sum(1 for x in c["ests"] if x.get("conf") == 0)
            d["objects_at_the_ego_origin"] = d.get("objects_at_the_ego_origin", 0) + sum(1 for x in c["gts"] + c["ests"] if x.get("ego_xy") == [0.0, 0.0])
            surv = {tuple(p) for p in map(tuple, o["results"])}
            fpl = [tuple(p) for p in o["fp"]]
            d["fp_reemitted_gtless"] += sum(1 for e, g in fpl if g is None and any(s[0] == e and s[1] is not None for s in surv))
            d["fp_with_fp_labelled_gt"] += sum(1 for e, g in fpl if g is not None and o["gt_facts"][g]["is_fp"])
            if o["pf_thresholds"]:
                d["score_on_threshold"] += sum(1 for s in o["score"] if s is not None and s in o["pf_thresholds"])
        return d


class ManagerCorr(FrameResultCorr):
    """End to end through PerceptionEvaluationManager.add_frame_result: the matching is the real one
    (get_object_results); the model is fed the results the manager hands to the frame (observed through
    the public `_filter_objects`-free route: a second manager call is not needed because the frame result
    keeps estimate/ground-truth identities)."""
    name = "manager_add_frame_result"
    shard = 60

    def cases(self, tier, rng):
        out = []
        n = 120 if tier == "quick" else 1500
        for k, c in enumerate(_regressions()[:5] + [gen_frame(rng, "typical" if rng.random() < 0.7 else "boundary") for _ in range(n)]):
            c = dict(c)
            c["crit"] = dict(c["crit"])
            c["crit"].pop("uuids", None)
            if k >= 5:
                n_t = len(c["crit"]["targets"])
                # evaluator-level filter settings other than the wide x/y box: distance ring, point numbers, ignored attributes, confidence,
                # target uuids (ground truths by uuid BEFORE matching, then the results without such a ground truth AFTER matching)
                mgr = {}
                r = rng.random()
                if r < 0.25:
                    mgr["max_dist"] = rng.choice([1000.0, 14.0, 12.5]) if rng.random() < 0.5 else [rng.choice([1000.0, 14.0, 10.0]) for _ in range(n_t)]
                    mgr["min_dist"] = rng.choice([0.0, 0.0, 3.0]) if rng.random() < 0.5 else [rng.choice([0.0, 0.0, 3.0, 5.0]) for _ in range(n_t)]
                if rng.random() < 0.2:
                    mgr["min_pts"] = [rng.choice([0, 1, 3, 5]) for _ in range(n_t)]
                if rng.random() < 0.15:
                    mgr["ignore"] = rng.choice([["vehicle_state.parked"], ["cycle_state.without_rider", "construction"]])
                if rng.random() < 0.2:
                    mgr["conf"] = rng.choice([0.25, 0.5, 0.0, 0.0])     # 0.0 is a threshold: an estimate of confidence exactly 0 is not above it
                if rng.random() < 0.2:
                    mgr["uuids"] = rng.sample(UUIDS, rng.choice([2, 3, 4]))
                c["mgr"] = mgr
                # the same pass/fail lists are demanded of a tracking evaluator, and of a manager that already holds an earlier frame
                c["task"] = "tracking" if rng.random() < 0.3 else "detection"
                c["history"] = rng.random() < 0.35
                # ... half of those earlier frames are evaluated with the SAME critical / pass-fail config instances (the usual way: one
                # config for a whole scene) under ANOTHER ego pose: nothing of the earlier frame may stick to the configs
                c["history_same_cfg"] = rng.random() < 0.5
                if c["task"] == "tracking":
                    c["ests"] = [dict(d, uuid=f"t{i}") for i, d in enumerate(c["ests"])]
            out.append(c)
        return out

    def run_impl(self, case):
        from perception_eval.evaluation.result.object_result import get_object_results
        from perception_eval.manager import PerceptionEvaluationManager

        ests = [build_object(d, case["frame"]) for d in case["ests"]]
        gts = [build_object(d, case["frame"]) for d in case["gts"]]
        fgt = frame_ground_truth(case, gts)
        try:
            ec = eval_config(case["frame"], case["crit"]["targets"], case["policy"], case.get("task", "detection"), case.get("mgr"))
            crit, pf = crit_config(ec, case["crit"]), pf_config(ec, case["pf"])
        except Exception as e:
            return {"error": f"building the evaluator / frame configurations raised {type(e).__name__}: {e}"}
        if id(ec) not in _MANAGER_CACHE:
            _MANAGER_CACHE[id(ec)] = PerceptionEvaluationManager(ec)
        manager = _MANAGER_CACHE[id(ec)]
        manager.frame_results.clear()
        if case.get("history"):
            # an earlier frame (the same scene as fresh objects that compare EQUAL to the ones under test, a wide-open critical filter) is
            # evaluated first: the frame
            # under test is then NOT the manager's first frame (tracking: it has a predecessor)
            e0 = [build_object(d, case["frame"]) for d in case["ests"]]
            g0 = [build_object(d, case["frame"]) for d in case["gts"]]
            n_t = len(case["crit"]["targets"])
            if case.get("history_same_cfg"):
                c0 = case if case["frame"] == "cam" else dict(case, ego={"pos": [case["ego"]["pos"][0] + 37.0, case["ego"]["pos"][1] - 21.0, case["ego"]["pos"][2]],
                                                                        "quat": [0.6, 0.0, 0.0, 0.8]})
                manager.add_frame_result(100, frame_ground_truth(c0, g0), e0, crit, pf)
            else:
                f0 = frame_ground_truth(case, g0)
                manager.add_frame_result(100, f0, e0, crit_config(ec, {"targets": case["crit"]["targets"], "max_x": [100.0] * n_t, "max_y": [100.0] * n_t}), pf)
        n_before = len(fgt.objects)
        fr = manager.add_frame_result(100, fgt, list(ests), crit, pf)
        # the matching the manager performed, recomputed through the public matching entry point on the
        # objects that pass the manager-level filter (identities are preserved, so indices are comparable)
        from perception_eval.evaluation.matching.objects_filter import filter_objects

        fe = filter_objects(list(ests), False, transforms=fgt.transforms, **ec.filtering_params)
        fg = filter_objects(list(gts), True, transforms=fgt.transforms, **ec.filtering_params)
        results = get_object_results(ec.evaluation_task, fe, fg, ec.target_labels, ec.label_params["matching_label_policy"],
                                     matchable_thresholds=ec.filtering_params["max_matchable_radii"], transforms=fgt.transforms)
        uuids = (case.get("mgr") or {}).get("uuids")
        if uuids:
            # documented last step of the evaluator: with target uuids only results whose ground truth is a target remain (every ground
            # truth that reached the matcher is one: its uuid is listed, or it is FP-labelled and therefore always kept)
            results = [r for r in results if r.ground_truth_object is not None]
        ei = {id(o): i for i, o in enumerate(ests)}
        gi = {id(o): i for i, o in enumerate(gts)}
        obs = {"pairs": [[ei[id(r.estimated_object)], None if r.ground_truth_object is None else gi[id(r.ground_truth_object)]]
                         for r in results],
               "est_facts": [object_facts(o, fgt.transforms) for o in ests],
               "gt_facts": [object_facts(o, fgt.transforms) for o in gts],
               "gt_keys": eq_keys(gts), "label_ok": [bool(r.is_label_correct) for r in results],
               "score": [None if r.plane_distance.value is None else float(r.plane_distance.value) for r in results],
               "crit": cfg_from_params(crit.filtering_params),
               "pf_targets": None if pf.target_labels is None else [label_id(l) for l in pf.target_labels],
               "pf_thresholds": pf.matching_threshold_list,
               "manager_gt_ids": [gi[id(o)] for o in fg], "manager_est_ids": [ei[id(o)] for o in fe],
               "dataset_frame_untouched": len(fgt.objects) == n_before, "n_frame_results": len(manager.frame_results)}
        obs.update(observe_frame(fr, ests, gts, results))
        return obs

    def coq_term(self, case, obs):
        if "error" in obs:
            return "false"
        # the frame's ground truths are the ones that passed the manager-level filter
        crit, pf, rs, _ = encode_frame_terms(case, obs)
        gts = llit([obj_lit(i, obs["gt_facts"][i], obs["gt_keys"][i]) for i in obs["manager_gt_ids"]])
        ids = lambda l: llit([str(x) for x in l])  # noqa: E731
        return (f"check_frame {crit} {pf} {rs} {gts} {pairs_lit(obs['results'])} {ids(obs['gts'])} {pairs_lit(obs['tp'])} "
                f"{pairs_lit(obs['fp'])} {ids(obs['tn'])} {ids(obs['fn'])} {obs['num_success']} {obs['num_fail']}")

    def coq_debug(self, case, obs):
        if "error" in obs:
            return None
        crit, pf, rs, _ = encode_frame_terms(case, obs)
        gts = llit([obj_lit(i, obs["gt_facts"][i], obs["gt_keys"][i]) for i in obs["manager_gt_ids"]])
        return (f"match evaluate_frame {crit} {pf} {rs} {gts} with Ok f => Some (map res_pair (f_results f), ids (f_gts f), "
                f"map res_pair (f_tp f), map res_pair (f_fp f), ids (f_tn f), ids (f_fn f)) | _ => None end")

    def distribution(self, cases, obs):
        d = super().distribution(cases, obs)
        d.update({"evaluator_filter": {}, "tasks": {}, "frames_with_an_earlier_frame_in_the_manager": 0, "filtered_by_evaluator": 0})
        for c, o in zip(cases, obs):
            if "tp" not in o:
                continue
            for k in (c.get("mgr") or {}):
                d["evaluator_filter"][k] = d["evaluator_filter"].get(k, 0) + 1
            d["evaluator_confidence_threshold_exactly_0"] = d.get("evaluator_confidence_threshold_exactly_0", 0) + ((c.get("mgr") or {}).get("conf") == 0)
            t = c.get("task", "detection")
            d["tasks"][t] = d["tasks"].get(t, 0) + 1
            d["frames_with_an_earlier_frame_in_the_manager"] += bool(c.get("history"))
            d["filtered_by_evaluator"] += len(c["ests"]) + len(c["gts"]) - len(o.get("manager_est_ids", c["ests"])) - len(o["manager_gt_ids"])
        return d

    def oracle(self, case, obs):
        if "error" in obs:
            return f"{obs['error']} (evaluator {case.get('mgr')}, critical filter {case['crit']}, pass/fail {case['pf']}: a well-formed configuration)"
        k = keys_vs_spec(case["gts"], case["frame"], obs["gt_keys"])
        if k is not None:
            return None if k == "skip" else k
        if case.get("history") and obs.get("n_frame_results") != 2:
            return f"the manager holds {obs.get('n_frame_results')} frame results after two add_frame_result calls"
        if not obs["dataset_frame_untouched"]:
            return "add_frame_result changed the object list of the ground-truth frame it was given"
        # "all manager filter settings": what reaches the matcher is what the criteria of the configuration dict keep
        want_cfg = expected_mgr_cfg(case)
        for who, is_gt, facts_all, kept in (("estimates", False, obs["est_facts"], obs.get("manager_est_ids")),
                                            ("ground truths", True, obs["gt_facts"], obs["manager_gt_ids"])):
            want = [i for i, f in enumerate(facts_all) if doc_keep(f, want_cfg, is_gt, True)]
            if kept is not None and want != kept:
                return (f"evaluator configured with {case.get('mgr') or 'the 1000 m x/y box'}: the {who} handed to the matcher are {kept} but the "
                        f"configured criteria select {want}")
        # the oracle is the same, with the ground truths that reach the frame as the frame's ground truths
        sub = dict(obs)
        keep = set(obs["manager_gt_ids"])
        sub["gt_facts"] = [f if i in keep else dict(f, lid=-1, is_fp=False, is_unknown=False) for i, f in enumerate(obs["gt_facts"])]
        return accounting_oracle(case, sub)


class C03(Prop):
    id = "C03"
    props_file = "Props/C03.v"
    # redundant tie (core.gen_tie): these decision functions, translated from the source on every run, equal the hand model for all inputs
    gen_tie_theorems = ['GenTie_is_result_correct_passfail', 'GenTie_get_label_threshold', 'GenTie_is_better_than_other_models', 'GenTie_get_status', 'GenTie_get_positive_objects', 'GenTie_get_negative_objects', 'GenTie_PassFailResult_evaluate', 'GenTie_PassFailResult_get_num', 'GenTie_filter_objects', 'GenTie_filter_object_results']
    extra_props_files = ["Props/Pipeline.v"]     # the composed frame pipeline (C01 -> C10 -> C03 -> C04; C08 on it)
    gen_files = []
    design_ref = "DESIGN.md section 4, C03"
    technique = ("Rocq proof over an executable model of evaluate_frame (critical filtering via the C10 model, get_status, "
                 "get_positive_objects, get_negative_objects with __eq__-key membership); in-Coq correspondence with "
                 "PerceptionFrameResult.evaluate_frame and PerceptionEvaluationManager.add_frame_result")
    level_text = ("Theorems (Props/C03.v, closed under the global context) for ALL result lists, ground-truth lists, critical filters and "
                  "pass/fail thresholds, given a one-to-one matching (C01) and pairwise distinct ground-truth __eq__ keys: surviving results "
                  "= TP + FP as a permutation, every critical ordinary GT is the GT of exactly one TP xor once in FN, every critical "
                  "FP-labelled GT is once in TN xor the GT of exactly one FP, |ordinary critical GT| = |TP|+|FN|, TP soundness, every counted "
                  "estimate / ground truth satisfies the critical predicate, success/fail counts. The model is compared with the real "
                  "evaluate_frame / add_frame_result on generated frames in BASE_LINK and MAP (rational ego poses), scores exactly on thresholds, "
                  "and with evaluate_frame of a detection2d evaluator on camera frames (IoU-2D pass/fail score, larger is better).")
    level_note = ("Trusted: Coq kernel+vm_compute; facts (label ids, ego-relative coordinates, is_label_correct, pass/fail score value) read "
                  "from the real objects; the __eq__ classes of the ground truths are computed with `==` for the model and, for the oracle, "
                  "decided on the generated label / position / orientation. 2D tasks: the model's 'smaller is better' score is MINUS the IoU 2D "
                  "with negated thresholds (an exact re-encoding of 'larger is better').")
    rule = ("generated frames (typical / boundary) x {base_link, map with 6 ego poses} x 3 label policies x xy-box or distance-ring critical "
            "filters with optional point/confidence/uuid/ignore criteria; boxes either plain (one box, x offsets: plane distance = offset, exact "
            "threshold hits) or varied (3 sizes, 5 yaws, x and y offsets, z: plane distance, BEV and 3D centre distance differ); ground truths that "
            "share a position but differ in label or orientation (distinct __eq__ keys); every fifth frame a detection2d camera frame (ROI objects "
            "without position, pass/fail by IoU 2D with exact 1/2, 1/4, 1/8 hits, position bounds given but inapplicable); the same results judged "
            "twice under other thresholds; numeric edges: pass/fail thresholds of exactly 0 (a sixth of the entries; also in the second judgement), "
            "estimates of confidence exactly 0 / 1 (8 %) against confidence thresholds of exactly 0 (critical list and the evaluator's ONE falsy number), "
            "objects at the ego origin (distance 0 against a minimum distance of 0); pass/fail target labels None or the empty list (both: every label); the critical filter's filtering_params and the pass/fail thresholds "
            "held by the config OBJECTS are compared with what the case handed to their constructors (the rest of the oracle reads them through the objects); manager: evaluator-level distance ring / min point numbers / ignored attributes / confidence / target "
            "uuids (expected selection derived from the configuration dict), detection and tracking evaluators, 35 % of the frames with an earlier "
            "frame (equal objects) already held by the manager; pipeline: evaluator-level ring / point numbers / ignored attributes, radii / AP thresholds / pass-fail "
            "thresholds / the evaluator's confidence threshold of exactly 0 (one number or list entry), confidences 0 and 1, 15 % FP validation under every label policy, co-located "
            "ground truths, generator-coordinate check of every object; non-trivial = at least two of TP/FP/TN/FN non-empty and something filtered")
    assumptions = ["matching one-to-one (C01) and every matched ground truth belongs to the frame",
                   "ground-truth __eq__ keys (time, label, position, orientation) pairwise distinct",
                   "well-formed critical filter and pass/fail configuration (lists as long as their target lists)",
                   "an FP-labelled ground truth is never rejected by a criterion (the documented relaxation of the filter): the clause 'nothing "
                   "outside the critical region is counted' is therefore not checked for FP-labelled ground truths (TN / matched FP)"]
    not_proved = ["2D tasks are covered by the correspondence and the oracle (score re-encoded), not by a separate theorem about IoU",
                  "metrics_score side of evaluate_frame (C04/C05)",
                  "sequences of frames: evaluate_frame is a function of its frame only in the model (history independence is C13; here a "
                  "frame with a predecessor in the manager must give the same lists)"]

    def correspondences(self):
        from harness.props.pipeline_corr import PipelineCorr
        return [FrameResultCorr(), ManagerCorr(), PipelineCorr()]


READY = True
PROP = C03()
