"""Shared by C13 / C07 / C19: build a real PerceptionEvaluationManager, synthetic datasets, fingerprints."""
import math
import os
import shutil

from harness.lib import core

FIXTURE = os.path.join(core.REPO, "perception_eval", "test", "sample_data")
TARGETS = ["car", "bicycle", "pedestrian", "motorbike"]
ALL_LABELS = ["car", "bicycle", "pedestrian", "motorbike", "unknown", "truck"]
# rational points of the unit circle (c, s): yaw = atan2(s, c)
CIRCLE = [(1.0, 0.0), (0.0, 1.0), (-1.0, 0.0), (0.0, -1.0), (0.6, 0.8), (0.8, 0.6), (-0.6, 0.8), (0.6, -0.8), (-0.8, -0.6),
          (5 / 13, 12 / 13), (-12 / 13, 5 / 13), (15 / 17, -8 / 17), (7 / 25, 24 / 25)]


def tmp_dir(tag):
    d = os.path.join(core.BUILD, "mgr_tmp", f"{tag}_{os.getpid()}")
    os.makedirs(d, exist_ok=True)
    return d


def cleanup_tmp(all_pids=False):
    root = os.path.join(core.BUILD, "mgr_tmp")
    if all_pids:
        shutil.rmtree(root, ignore_errors=True)
        return
    if os.path.isdir(root):
        for d in os.listdir(root):
            if d.endswith(f"_{os.getpid()}"):
                shutil.rmtree(os.path.join(root, d), ignore_errors=True)


def base_config(task="detection", **over):
    cfg = {
        "evaluation_task": task,
        "target_labels": list(TARGETS),
        "max_x_position": 100.0,
        "max_y_position": 100.0,
        "center_distance_thresholds": [[1.0, 1.0, 1.0, 1.0], [2.0, 2.0, 2.0, 2.0]],
        "plane_distance_thresholds": [2.0],
        "iou_2d_thresholds": [0.5],
        "iou_3d_thresholds": [0.5],
        "min_point_numbers": [0, 0, 0, 0],
        "label_prefix": "autoware",
        "merge_similar_labels": False,
        "allow_matching_unknown": True,
    }
    cfg.update(over)
    return {k: v for k, v in cfg.items() if v is not None or k in ("max_x_position", "max_y_position")}


def make_manager(task="detection", frame="base_link", tag="m", **over):
    from perception_eval.config import PerceptionEvaluationConfig
    from perception_eval.manager import PerceptionEvaluationManager

    cfg = base_config(task, **over)
    config = PerceptionEvaluationConfig(dataset_paths=[FIXTURE], frame_id=frame, result_root_directory=tmp_dir(tag),
                                        evaluation_config_dict=cfg, load_raw_data=False)
    return PerceptionEvaluationManager(config)


def label_of(name):
    from perception_eval.common.label import AutowareLabel, Label

    m = {"car": AutowareLabel.CAR, "bicycle": AutowareLabel.BICYCLE, "pedestrian": AutowareLabel.PEDESTRIAN,
         "motorbike": AutowareLabel.MOTORBIKE, "unknown": AutowareLabel.UNKNOWN, "truck": AutowareLabel.TRUCK,
         "bus": AutowareLabel.BUS, "false_positive": AutowareLabel.FP}
    return Label(m[name], name, [])


def make_object(spec, frame="base_link", ego=None, t=100):
    """spec: {label, pos[3], size[3], yaw_cs:(c,s) | yaw, conf?, uuid, points?, vel?}; positions in the EGO frame.
    frame == "map": the object is rendered in the map frame through the ego pose `ego` = {"t": [x,y,z], "cs": (c,s)}.
    Optional (defaults keep the historical behaviour): ego["q"] = (w, x, y, z), a general unit quaternion used INSTEAD of the yaw-only
    "cs" rotation (roll / pitch); spec["vel"] = a velocity tuple or None (key absent: (0, 0, 0))."""
    from perception_eval.common.object import DynamicObject
    from perception_eval.common.schema import FrameID
    from perception_eval.common.shape import Shape, ShapeType
    from pyquaternion import Quaternion

    yaw = math.atan2(spec["yaw_cs"][1], spec["yaw_cs"][0]) if "yaw_cs" in spec else spec.get("yaw", 0.0)
    x, y, z = spec["pos"]
    orientation = None
    if frame == "map" and ego.get("q") is not None:
        qe = Quaternion(*[float(v) for v in ego["q"]])
        x, y, z = (float(a) + float(b) for a, b in zip(qe.rotate((x, y, z)), ego["t"]))
        orientation = qe * Quaternion(axis=(0.0, 0.0, 1.0), radians=yaw)
    elif frame == "map":
        c, s = ego["cs"]
        x, y, z = c * x - s * y + ego["t"][0], s * x + c * y + ego["t"][1], z + ego["t"][2]
        yaw = yaw + math.atan2(s, c)
        if spec.get("map_int") is not None:
            # the same map-frame position handed over as Python ints (integer-valued by construction of the scene)
            assert [float(v) for v in spec["map_int"]] == [x, y, z], (spec["map_int"], x, y, z)
            x, y, z = (int(v) for v in spec["map_int"])
    return DynamicObject(
        unix_time=t, frame_id=FrameID.MAP if frame == "map" else FrameID.BASE_LINK, position=(x, y, z),
        orientation=orientation if orientation is not None else Quaternion(axis=(0.0, 0.0, 1.0), radians=yaw),
        shape=Shape(ShapeType.BOUNDING_BOX, tuple(spec["size"])),
        velocity=(0.0, 0.0, 0.0) if "vel" not in spec else (None if spec["vel"] is None else tuple(spec["vel"])),
        semantic_score=spec.get("conf", 1.0), semantic_label=label_of(spec["label"]),
        pointcloud_num=spec.get("points", 10), uuid=spec.get("uuid"),
    )


def ego_transform(ego):
    """ego -> map transform of a frame (identity when ego is None)"""
    from perception_eval.common.schema import FrameID
    from perception_eval.common.transform import HomogeneousMatrix
    from pyquaternion import Quaternion

    if ego is None:
        return HomogeneousMatrix((0.0, 0.0, 0.0), Quaternion(), src=FrameID.BASE_LINK, dst=FrameID.MAP)
    if ego.get("q") is not None:      # optional general ego rotation (roll / pitch), see make_object
        return HomogeneousMatrix(tuple(ego["t"]), Quaternion(*[float(v) for v in ego["q"]]), src=FrameID.BASE_LINK, dst=FrameID.MAP)
    yaw = math.atan2(ego["cs"][1], ego["cs"][0])
    return HomogeneousMatrix(tuple(ego["t"]), Quaternion(axis=(0.0, 0.0, 1.0), radians=yaw), src=FrameID.BASE_LINK, dst=FrameID.MAP)


def make_gt_frame(fr, frame="base_link", name=None, tf_mode="pose"):
    """tf_mode (ego-frame renderings only): "pose" = the ego->map transform is attached (as the dataset loader does), "empty" = an empty
    transform list, "none" = no transforms argument -- an ego-frame frame needs no transform"""
    from perception_eval.common.dataset import FrameGroundTruth

    ego = fr.get("ego")
    objs = [make_object(g, frame, ego, fr["t"]) for g in fr["gts"]]
    nm = name if name is not None else str(fr["index"])
    if tf_mode == "derived" and fr.get("_prev_gt_frame") is not None:
        # the way interpolate_ground_truth_frames derives a frame: a deepcopy of an earlier (already evaluated) frame whose objects and
        # ego->map entry are then replaced in place
        import copy
        from perception_eval.common.schema import FrameID

        out = copy.deepcopy(fr["_prev_gt_frame"])
        out.unix_time, out.frame_name, out.objects = fr["t"], nm, objs
        out.transforms[(FrameID.BASE_LINK, FrameID.MAP)] = ego_transform(ego)
        return out
    if frame != "map" and tf_mode == "empty":
        return FrameGroundTruth(fr["t"], nm, objs, transforms=[])
    if frame != "map" and tf_mode == "none":
        return FrameGroundTruth(fr["t"], nm, objs)
    return FrameGroundTruth(fr["t"], nm, objs, transforms=[ego_transform(ego)])


def make_estimates(fr, frame="base_link"):
    return [make_object(e, frame, fr.get("ego"), fr["t"]) for e in fr["ests"]]


def gen_frame(rng, index, n_gt=None, with_ego=True, uuid_prefix="g", fp_gt_prob=0.0, unknown_est_prob=0.0):
    """fp_gt_prob > 0 (optional, default off = the historical stream): that share of the ground truths carries the FP label
    ("false_positive": a place where NO detection is expected); an estimate generated next to it gets an ordinary target label.
    unknown_est_prob > 0 (optional, default off): that share of the estimates generated next to a ground truth is labelled "unknown"
    (not a target label: with allow_matching_unknown it is matched to the target-labelled ground truth and counted under ITS label)."""
    n_gt = rng.randint(0, 7) if n_gt is None else n_gt
    gts, ests = [], []
    for j in range(n_gt):
        lab = rng.choice(TARGETS if rng.random() < 0.85 else ALL_LABELS)
        if fp_gt_prob > 0 and rng.random() < fp_gt_prob:
            lab = "false_positive"
        pos = [rng.randint(-320, 320) / 8, rng.randint(-320, 320) / 8, rng.randint(-8, 8) / 8]
        gts.append({"label": lab, "pos": pos, "size": [rng.randint(4, 40) / 8 for _ in range(3)], "yaw_cs": rng.choice(CIRCLE),
                    "uuid": f"{uuid_prefix}{j}", "points": rng.choice([0, 1, 5, 50])})
    for j, g in enumerate(gts):
        if rng.random() < 0.8:
            dx, dy = rng.choice([(0, 0), (0.25, 0), (0, 0.5), (0.75, 1), (1.5, 2), (0.375, 0.5), (3, 4), (0.5, -0.25)])
            lab = g["label"] if rng.random() < 0.85 else rng.choice(ALL_LABELS)
            if lab == "false_positive":
                lab = rng.choice(TARGETS)
            if unknown_est_prob > 0 and rng.random() < unknown_est_prob:
                lab = "unknown"
            ests.append({"label": lab, "pos": [g["pos"][0] + dx, g["pos"][1] + dy, g["pos"][2]], "size": list(g["size"]),
                         "yaw_cs": g["yaw_cs"] if rng.random() < 0.7 else rng.choice(CIRCLE), "conf": None, "uuid": f"t{j}"})
    for j in range(rng.randint(0, 2)):
        ests.append({"label": rng.choice(TARGETS), "pos": [rng.randint(-320, 320) / 8, rng.randint(-320, 320) / 8, 0.0],
                     "size": [1.0, 2.0, 1.5], "yaw_cs": rng.choice(CIRCLE), "conf": None, "uuid": f"s{j}"})
    rng.shuffle(ests)
    fr = {"index": index, "t": 1000000 + 100000 * index, "gts": gts, "ests": ests}
    if with_ego:
        fr["ego"] = {"t": [rng.randint(-800, 800) / 8, rng.randint(-800, 800) / 8, rng.randint(-16, 16) / 8], "cs": rng.choice(CIRCLE)}
    return fr


def assign_confidences(frames, rng, distinct=True):
    """globally distinct (k/1024) or tie-heavy confidences"""
    n = sum(len(f["ests"]) for f in frames)
    pool = rng.sample(range(1, 1024), n) if distinct else [rng.choice([256, 512, 768]) for _ in range(n)]
    pool = [p / 1024 for p in pool]
    if distinct and n >= 2 and rng.random() < 0.3:
        # distinct but CLOSE: part of the confidences lie within 2^-40 .. 2^-30 of each other (exact binary64 values that a float32 copy, a
        # rounding to a few decimals or a tolerance-based comparison would merge): the ranking must still be by the exact values
        base = rng.choice([0.5, 0.703125, 0.25])
        ks = rng.sample(range(-4 * n, 4 * n + 1), n)
        for j in rng.sample(range(n), max(2, n // 2)):
            pool[j] = base + ks[j] * 2.0 ** -rng.choice([30, 40])
    i = 0
    for f in frames:
        for e in f["ests"]:
            e["conf"] = pool[i]
            i += 1


def critical_cfg(manager, spec, targets=None):
    from perception_eval.evaluation.result.perception_frame_config import CriticalObjectFilterConfig

    kw = dict(spec)
    return CriticalObjectFilterConfig(evaluator_config=manager.evaluator_config, target_labels=list(targets or TARGETS), **kw)


def passfail_cfg(manager, thr, targets=None):
    from perception_eval.evaluation.result.perception_frame_config import PerceptionPassFailConfig

    return PerceptionPassFailConfig(evaluator_config=manager.evaluator_config, target_labels=list(targets or TARGETS),
                                    matching_threshold_list=[thr] * len(targets or TARGETS))


def num(x):
    return None if x is None or x == float("inf") or x != x else float(x)


def score_fingerprint(ms):
    """numbers of a MetricsScore, in a canonical JSON-able form"""
    out = {"num_gt": ms.num_ground_truth, "maps": [], "tracking": []}
    for m in ms.maps:
        out["maps"].append({"mode": m.matching_mode.value, "thr": [float(t) for t in m.matching_threshold_list], "map": num(m.map), "maph": num(m.maph),
                            "aps": [num(a.ap) for a in m.aps], "aphs": [num(a.ap) for a in m.aphs],
                            "tp": [[float(x) for x in a.tp_list] for a in m.aps], "n": [a.objects_results_num for a in m.aps],
                            "ngt": [a.num_ground_truth for a in m.aps]})
    for t in ms.tracking_scores:
        out["tracking"].append({"mode": t.matching_mode.value,
                                "thr": [float(c.matching_threshold_list[0]) for c in t.clears],
                                "clears": [[num(c.mota), num(c.motp), int(c.id_switch), float(c.tp), float(c.fp), int(c.num_ground_truth)] for c in t.clears],
                                "sum": [num(x) for x in t._sum_clear()]})
    return out
