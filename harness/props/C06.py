"""C06 -- matching scores are geometrically exact, bounded and symmetric.

Correspondences (real code vs Model/Geom2.v + Model/Clip.v, compared inside Coq):
  box3d : CenterDistanceMatching / PlaneDistanceMatching / IOU2dMatching / IOU3dMatching `.value` on pairs of
          real DynamicObjects (yaw-only, rational circle points, k/8 lattice), the swapped pair and the same
          pair after a common rigid motion; squared model value vs value**2, IoU vs the exact clipper.
  roi2d : CenterDistanceMatching / IOU2dMatching on DynamicObject2D with integer ROIs (exact where binary64 is).
The Python oracles below state the property directly on the implementation's outputs with exact Fractions
and do not use the Coq model.
"""
import math
from fractions import Fraction

from harness.lib.core import Corr, Prop, blit, qlit, zlit

TOL = 1e-9
ROUND10 = 6e-11          # PlaneDistanceMatching rounds its result to 10 decimals
TIE_MARGIN = Fraction(1, 10**6)

# rational points of the unit circle
_BASE = [(3, 4, 5), (5, 12, 13), (8, 15, 17), (7, 24, 25)]
AXIS = [(1, 0, 1), (0, 1, 1), (-1, 0, 1), (0, -1, 1)]
CIRCLE = []
for a, b, d in _BASE:
    for x, y in ((a, b), (b, a)):
        for sx in (1, -1):
            for sy in (1, -1):
                CIRCLE.append((sx * x, sy * y, d))


# ------------------------------------------------------------------------------------------------
# exact geometry in Fractions (oracle side; independent of the Coq model)
# ------------------------------------------------------------------------------------------------
def params(b):
    """case box -> dict of exact Fractions (lattice form p/r/s, or binary64 form pf/yaw/sf of the continuous stream)"""
    if "pf" in b:
        x, y, z = (Fraction(v) for v in b["pf"])
        w, l, h = (Fraction(v) for v in b["sf"])
        return {"x": x, "y": y, "z": z, "c": Fraction(math.cos(b["yaw"])), "s": Fraction(math.sin(b["yaw"])), "w": w, "l": l, "h": h}
    x, y, z = (Fraction(k, 8) for k in b["p"])
    c, s = Fraction(b["r"][0], b["r"][2]), Fraction(b["r"][1], b["r"][2])
    w, l, h = (Fraction(k, 8) for k in b["s"])
    return {"x": x, "y": y, "z": z, "c": c, "s": s, "w": w, "l": l, "h": h}


def motion(m):
    c, s = Fraction(m["r"][0], m["r"][2]), Fraction(m["r"][1], m["r"][2])
    tx, ty, tz = (Fraction(k, 8) for k in m["t"])
    return c, s, tx, ty, tz


def moved(m, B):
    """the same box after rotating about the ego by (c, s) and translating"""
    c, s, tx, ty, tz = motion(m)
    return {"x": c * B["x"] - s * B["y"] + tx, "y": s * B["x"] + c * B["y"] + ty, "z": B["z"] + tz,
            "c": c * B["c"] - s * B["s"], "s": s * B["c"] + c * B["s"], "w": B["w"], "l": B["l"], "h": B["h"]}


def corners_exact(B):
    hl, hw = B["l"] / 2, B["w"] / 2
    loc = [(hl, hw), (-hl, hw), (-hl, -hw), (hl, -hw)]
    return [(B["c"] * px - B["s"] * py + B["x"], B["s"] * px + B["c"] * py + B["y"]) for px, py in loc]


def _cross(a, b, p):
    return (b[0] - a[0]) * (p[1] - a[1]) - (b[1] - a[1]) * (p[0] - a[0])


def _area(poly):
    n = len(poly)
    return sum(poly[i][0] * poly[(i + 1) % n][1] - poly[(i + 1) % n][0] * poly[i][1] for i in range(n)) / 2


def convex_intersection_area(P, Q):
    """Exact area of the intersection of two convex polygons: convex hull of (vertices of one inside the other)
    + (edge/edge crossing points), then the shoelace formula.  Deliberately NOT Sutherland-Hodgman."""
    def orient(poly):
        return poly if _area(poly) >= 0 else poly[::-1]

    P, Q = orient(P), orient(Q)

    def inside(p, poly):
        n = len(poly)
        return all(_cross(poly[i], poly[(i + 1) % n], p) >= 0 for i in range(n))

    pts = {p for p in P if inside(p, Q)} | {q for q in Q if inside(q, P)}
    for i in range(len(P)):
        a, b = P[i], P[(i + 1) % len(P)]
        for j in range(len(Q)):
            c, d = Q[j], Q[(j + 1) % len(Q)]
            den = (b[0] - a[0]) * (d[1] - c[1]) - (b[1] - a[1]) * (d[0] - c[0])
            if den == 0:
                continue
            t = ((c[0] - a[0]) * (d[1] - c[1]) - (c[1] - a[1]) * (d[0] - c[0])) / den
            u = ((c[0] - a[0]) * (b[1] - a[1]) - (c[1] - a[1]) * (b[0] - a[0])) / den
            if 0 <= t <= 1 and 0 <= u <= 1:
                pts.add((a[0] + t * (b[0] - a[0]), a[1] + t * (b[1] - a[1])))
    pts = sorted(pts)
    if len(pts) < 3:
        return Fraction(0)

    def half(points):
        h = []
        for p in points:
            while len(h) >= 2 and _cross(h[-2], h[-1], p) <= 0:
                h.pop()
            h.append(p)
        return h

    lower, upper = half(pts), half(pts[::-1])
    hull = lower[:-1] + upper[:-1]
    return abs(_area(hull)) if len(hull) >= 3 else Fraction(0)


def separation(P, Q):
    """max over edges of both (CCW) polygons of the signed gap by which the other polygon lies outside that
    edge (in length units); > 0 means strictly separated."""
    best = None
    for A, B in ((P, Q), (Q, P)):
        n = len(A)
        for i in range(n):
            a, b = A[i], A[(i + 1) % n]
            ln = math.sqrt(float((b[0] - a[0]) ** 2 + (b[1] - a[1]) ** 2))
            gap = min(-float(_cross(a, b, q)) for q in B) / ln
            best = gap if best is None else max(best, gap)
    return best


def height_overlap(E, G):
    lo = max(E["z"] - E["h"] / 2, G["z"] - G["h"] / 2)
    hi = min(E["z"] + E["h"] / 2, G["z"] + G["h"] / 2)
    return max(Fraction(0), hi - lo)


def sqn(p):
    return p[0] * p[0] + p[1] * p[1]


def sqd(p, q):
    return (p[0] - q[0]) ** 2 + (p[1] - q[1]) ** 2


def plane_candidates(E, G):
    """Every value the documented definition allows: mean of the squared distances of corresponding corners
    over the two ends (i, j) of a nearest pair of GT corners.  Returns (list of (value, i, j), tie23: bool,
    near_tie: bool)."""
    ce, cg = corners_exact(E), corners_exact(G)
    d = [sqn(p) for p in cg]
    order = sorted(range(4), key=lambda k: (d[k], k))
    scale = max(Fraction(1), d[order[3]])
    gap23 = d[order[2]] - d[order[1]]
    tie23 = gap23 == 0
    near = gap23 <= TIE_MARGIN * scale
    firsts = [(order[0], order[1])]
    if near:
        firsts.append((order[0], order[2]))
        if d[order[1]] - d[order[0]] <= TIE_MARGIN * scale:
            firsts.append((order[1], order[2]))
        if d[order[3]] - d[order[2]] <= TIE_MARGIN * scale:
            firsts.append((order[0], order[3]))
            firsts.append((order[1], order[3]))
            firsts.append((order[2], order[3]))
    out = []
    for i, j in firsts:
        if (i - j) % 4 in (1, 3):          # a SIDE: adjacent corners (diagonal pairs can only tie when all four are equal)
            out.append(((sqd(ce[i], cg[i]) + sqd(ce[j], cg[j])) / 2, i, j))
    cr = cg[order[0]][0] * cg[order[1]][1] - cg[order[0]][1] * cg[order[1]][0]
    return out, tie23, near, cr


# ------------------------------------------------------------------------------------------------
# driving the implementation
# ------------------------------------------------------------------------------------------------
def _quat(c, s):
    from pyquaternion import Quaternion

    if (c, s) == (1, 0):
        return Quaternion(1.0, 0.0, 0.0, 0.0)
    if (c, s) == (-1, 0):
        return Quaternion(0.0, 0.0, 0.0, 1.0)
    return Quaternion(axis=[0.0, 0.0, 1.0], radians=math.atan2(float(s), float(c)))


REPS = ("tuple", "list", "ndarray", "int")


def _vec(vals, rep):
    """the same three numbers in another REPRESENTATION: tuple of floats (default), list, numpy array, or -- when every value is
    integral -- a tuple of Python ints (what a caller reading whole metres from a JSON file hands over)"""
    f = [float(v) for v in vals]
    if rep == "list":
        return list(f)
    if rep == "ndarray":
        import numpy as np

        return np.array(f)
    if rep == "int" and all(v.is_integer() for v in f):
        return tuple(int(v) for v in f)
    return tuple(f)


def mk_obj(B, frame="base_link", rep="tuple", qsign=1):
    from perception_eval.common.label import AutowareLabel, Label
    from perception_eval.common.object import DynamicObject
    from perception_eval.common.schema import FrameID
    from perception_eval.common.shape import Shape, ShapeType

    q = _quat(B["c"], B["s"])
    return DynamicObject(
        unix_time=100, frame_id=FrameID.BASE_LINK if frame == "base_link" else FrameID.MAP,
        position=_vec((B["x"], B["y"], B["z"]), rep), orientation=-q if qsign < 0 else q,
        shape=Shape(ShapeType.BOUNDING_BOX, _vec((B["w"], B["l"], B["h"]), rep)),
        velocity=(0.0, 0.0, 0.0), semantic_score=0.5, semantic_label=Label(AutowareLabel.CAR, "car", []))


def derive_obj(o, B, rep="tuple", qsign=1):
    """deepcopy + state update, as common/dataset.py and common/geometry.py derive interpolated / converted objects"""
    import copy

    o2 = copy.deepcopy(o)
    o2.state.position = _vec((B["x"], B["y"], B["z"]), rep)
    q = _quat(B["c"], B["s"])
    o2.state.orientation = -q if qsign < 0 else q
    return o2


def mk_obj2d(r, rep="tuple", position=None):
    """rep: the ROI as a tuple / list of Python ints or a numpy int64 array; position: an optional 3D position of the 2D object
    (DynamicObject2D(position=...)), which no 2D score may read"""
    from perception_eval.common.label import AutowareLabel, Label
    from perception_eval.common.object2d import DynamicObject2D
    from perception_eval.common.schema import FrameID

    roi = tuple(int(v) for v in r)
    if rep == "list":
        roi = list(roi)
    elif rep == "ndarray":
        import numpy as np

        roi = np.array(roi, dtype=np.int64)
    kw = {} if position is None else {"position": tuple(float(v) for v in position)}
    return DynamicObject2D(unix_time=100, frame_id=FrameID.CAM_FRONT, semantic_score=0.5,
                           semantic_label=Label(AutowareLabel.CAR, "car", []), roi=roi, **kw)


def _idx(points, p):
    hits = [k for k, q in enumerate(points) if q[0] == p[0] and q[1] == p[1]]
    return hits[0] if len(hits) == 1 else -1


def ego_transforms(m):
    """the motion m read as the ego pose: TransformDict with the ego -> map transform"""
    from perception_eval.common.schema import FrameID
    from perception_eval.common.transform import HomogeneousMatrix, TransformDict

    c, s, tx, ty, tz = motion(m)
    return TransformDict(HomogeneousMatrix((float(tx), float(ty), float(tz)), _quat(c, s), src=FrameID.BASE_LINK, dst=FrameID.MAP))


def scores3d_map_derived(Em, Gm, m, re_, rg_, qe, qg):
    """The map rendering built the way interpolate_ground_truth_frames derives a frame: map-frame objects and a registry that have ALREADY
    been scored under ANOTHER ego pose; the registry is then updated in place and the objects are deep-copied with their state updated.
    Only the current pose and the current states may count."""
    from perception_eval.common.schema import FrameID

    other = {"r": [3, 4, 5] if list(m["r"]) != [3, 4, 5] else [5, 12, 13], "t": [m["t"][0] + 60, m["t"][1] - 26, m["t"][2]]}
    reg = ego_transforms(other)
    e0, g0 = mk_obj(moved(other, Em), "map", re_, qe), mk_obj(moved(other, Gm), "map", rg_, qg)
    scores3d(e0, g0, reg)                                      # warms whatever the registry / the objects may keep
    reg[(FrameID.BASE_LINK, FrameID.MAP)] = ego_transforms(m)[(FrameID.BASE_LINK, FrameID.MAP)]
    return scores3d(derive_obj(e0, Em, re_, -qe), derive_obj(g0, Gm, rg_, -qg), reg)


def scores3d(e, g, transforms=None):
    from perception_eval.common.point import polygon_to_list
    from perception_eval.evaluation.matching.object_matching import (CenterDistanceMatching, IOU2dMatching,
                                                                     IOU3dMatching, PlaneDistanceMatching)

    from perception_eval.evaluation.result.object_result import DynamicObjectWithPerceptionResult

    pm = PlaneDistanceMatching(e, g, transforms)
    gc = polygon_to_list(g.get_footprint())
    ec = polygon_to_list(e.get_footprint())
    # the second documented entry point: the scores the pipeline reads off an object result (oracle only: must be the very same numbers)
    r = DynamicObjectWithPerceptionResult(e, g, transforms=transforms)
    rp = r.plane_distance
    via = {"cd": float(r.center_distance.value), "pd": float(rp.value), "i2": float(r.iou_2d.value), "i3": float(r.iou_3d.value),
           "gl": _idx(gc, rp.ground_truth_nn_plane[0]), "gr": _idx(gc, rp.ground_truth_nn_plane[1]),
           "el": _idx(ec, rp.estimated_nn_plane[0]), "er": _idx(ec, rp.estimated_nn_plane[1])}
    return {
        "cd": float(CenterDistanceMatching(e, g, transforms).value), "pd": float(pm.value),
        "i2": float(IOU2dMatching(e, g, transforms).value), "i3": float(IOU3dMatching(e, g, transforms).value),
        "gl": _idx(gc, pm.ground_truth_nn_plane[0]), "gr": _idx(gc, pm.ground_truth_nn_plane[1]),
        "el": _idx(ec, pm.estimated_nn_plane[0]), "er": _idx(ec, pm.estimated_nn_plane[1]),
        "via_result": via,
    }


def via_result_mismatch(o, what):
    """DynamicObjectWithPerceptionResult.{center_distance,iou_2d,iou_3d,plane_distance} hold the scores of (estimate, ground truth):
    the same deterministic computation on the same two objects, hence the identical floats"""
    v = o.get("via_result")
    if v is None:
        return None
    for k, nm in (("cd", "center_distance.value"), ("pd", "plane_distance.value"), ("i2", "iou_2d.value"), ("i3", "iou_3d.value"),
                  ("gl", "plane_distance.ground_truth_nn_plane[0]"), ("gr", "plane_distance.ground_truth_nn_plane[1]"),
                  ("el", "plane_distance.estimated_nn_plane[0]"), ("er", "plane_distance.estimated_nn_plane[1]")):
        if v[k] != o[k]:
            return (f"{what}: DynamicObjectWithPerceptionResult(estimate, ground_truth, transforms).{nm} = {v[k]!r} but the matching class "
                    f"applied to (estimate, ground_truth) gives {o[k]!r}")
    return None


# ------------------------------------------------------------------------------------------------
# generators
# ------------------------------------------------------------------------------------------------
def _rot(rng, p_axis=0.3):
    if rng.random() < p_axis:
        return list(rng.choice(AXIS))
    return list(rng.choice(CIRCLE))


def _size(rng, lo=2, hi=64):
    return [rng.randint(lo, hi), rng.randint(lo, hi), rng.randint(2, 32)]


def _mot(rng):
    r = _rot(rng, 0.2)
    if rng.random() < 0.5:
        t = [0, 0, rng.randint(-16, 16)]          # pure rotation about the ego (plane distance is invariant)
    else:
        t = [rng.randint(-256, 256), rng.randint(-256, 256), rng.randint(-16, 16)]
    return {"r": r, "t": t}


def _rotl(r, v):
    """rotate the lattice vector v (ints, 1/8 units) by r when the result stays on the lattice (axis rotations)"""
    c, s, d = r
    return [c * v[0] - s * v[1], s * v[0] + c * v[1]]


def gen_pair(rng, tag):
    gp = [rng.randint(-400, 400), rng.randint(-400, 400), rng.randint(-16, 16)]
    gr = _rot(rng)
    gs = _size(rng)
    if tag == "typical":
        es = [max(1, gs[0] + rng.randint(-8, 8)), max(1, gs[1] + rng.randint(-8, 8)), max(1, gs[2] + rng.randint(-4, 4))]
        ep = [gp[0] + rng.randint(-gs[1], gs[1]), gp[1] + rng.randint(-gs[0], gs[0]), gp[2] + rng.randint(-gs[2], gs[2])]
        er = gr if rng.random() < 0.3 else _rot(rng)
    elif tag == "nested":
        es = [max(1, gs[0] // rng.randint(2, 6)), max(1, gs[1] // rng.randint(2, 6)), max(1, gs[2] // 2)]
        ep = [gp[0] + rng.randint(-1, 1), gp[1] + rng.randint(-1, 1), gp[2]]
        er = gr if rng.random() < 0.5 else _rot(rng)
        if rng.random() < 0.5:
            gp, ep, gs, es, gr, er = ep, gp, es, gs, er, gr
    elif tag == "touching":
        gr = list(rng.choice(AXIS))
        er = gr
        es = _size(rng)
        # even sizes so that half sizes stay on the lattice: centres differ by exactly (l_e + l_g)/2 along local x
        gs[1] += gs[1] % 2
        es[1] += es[1] % 2
        gs[0] += gs[0] % 2
        es[0] += es[0] % 2
        if rng.random() < 0.5:
            off = [(gs[1] + es[1]) // 2, rng.randint(-gs[0] // 2, gs[0] // 2)]
        else:
            off = [rng.randint(-gs[1] // 2, gs[1] // 2), (gs[0] + es[0]) // 2 * rng.choice((1, -1))]
        o = _rotl(gr, off)
        ep = [gp[0] + o[0], gp[1] + o[1], gp[2] + rng.randint(-2, 2)]
    elif tag == "corner_touching":
        gr = [1, 0, 1]
        er = [1, 0, 1]
        es = _size(rng)
        for sz in (gs, es):
            sz[0] += sz[0] % 2
            sz[1] += sz[1] % 2
        ep = [gp[0] + (gs[1] + es[1]) // 2, gp[1] + (gs[0] + es[0]) // 2, gp[2]]
    elif tag == "corner_overlap":
        # the boxes share only a small region at ONE corner (each of the four in turn): centres about half a diagonal + half a diagonal apart,
        # i.e. further than half the longest sides; same orientation mostly (exact on the lattice for axis directions, rounded to the lattice for
        # the rational circle points), half of them near-square
        if rng.random() < 0.5:
            gs[1] = max(2, gs[0] + rng.randint(-2, 2))
        es = [max(2, gs[0] + rng.randint(-6, 6)), max(2, gs[1] + rng.randint(-6, 6)), max(1, gs[2] + rng.randint(-4, 4))]
        gr = _rot(rng, 0.4)
        er = gr if rng.random() < 0.7 else _rot(rng)
        lo = 1 if gr[2] == 1 else 2
        sx, sy = rng.choice((1, -1)), rng.choice((1, -1))
        off = [sx * Fraction(gs[1] + es[1] - 2 * rng.randint(lo, 8), 2), sy * Fraction(gs[0] + es[0] - 2 * rng.randint(lo, 8), 2)]
        c, sn, dn = gr
        o = [(c * off[0] - sn * off[1]) / dn, (sn * off[0] + c * off[1]) / dn]
        ep = [gp[0] + int(round(o[0])), gp[1] + int(round(o[1])), gp[2] + rng.randint(-2, 2)]
    elif tag == "disjoint":
        es = _size(rng)
        er = _rot(rng)
        far = 2 * (max(gs[:2]) + max(es[:2])) + rng.randint(1, 200)
        ang = rng.choice(CIRCLE + AXIS)
        ep = [gp[0] + far * ang[0] // ang[2], gp[1] + far * ang[1] // ang[2], gp[2] + rng.randint(-8, 8)]
    elif tag == "near_disjoint":
        # close but separated rotated boxes: separation decided by the exact oracle
        es = _size(rng, 2, 24)
        gs = _size(rng, 2, 24)
        er = _rot(rng, 0.1)
        gr = _rot(rng, 0.1)
        ep = [gp[0] + rng.randint(-40, 40), gp[1] + rng.randint(-40, 40), gp[2] + rng.randint(-4, 4)]
    elif tag == "sliver":
        gs = [rng.randint(1, 2), rng.randint(100, 200), rng.randint(2, 16)]
        if rng.random() < 0.5:
            gs[0], gs[1] = gs[1], gs[0]
        es = _size(rng) if rng.random() < 0.5 else [rng.randint(100, 200), rng.randint(1, 2), rng.randint(2, 16)]
        er = _rot(rng)
        ep = [gp[0] + rng.randint(-20, 20), gp[1] + rng.randint(-20, 20), gp[2] + rng.randint(-2, 2)]
    elif tag == "identical":
        es, ep, er = list(gs), list(gp), list(gr)
        if rng.random() < 0.3:                       # same BEV footprint, other height / altitude
            es[2] = rng.randint(2, 32)
            ep[2] = gp[2] + rng.randint(-4, 4)
    elif tag == "height":
        es = [gs[0], gs[1], rng.randint(2, 32)]
        er = gr
        ep = [gp[0] + rng.randint(-2, 2), gp[1] + rng.randint(-2, 2), 0]
        mode = rng.choice(("above", "touch", "partial", "inside"))
        gs[2] += gs[2] % 2
        es[2] += es[2] % 2
        if mode == "above":
            ep[2] = gp[2] + (gs[2] + es[2]) // 2 + rng.randint(1, 16)
        elif mode == "touch":
            ep[2] = gp[2] + (gs[2] + es[2]) // 2
        elif mode == "partial":
            ep[2] = gp[2] + rng.randint(1, max(1, (gs[2] + es[2]) // 2 - 1))
        else:
            es[2] = max(2, gs[2] // 2)
            ep[2] = gp[2]
    elif tag == "tie":
        # ground truth whose corner distances to the ego are tied: centred on the ego, on an axis, or a
        # square on the diagonal; yaw = 0 so that the implementation's floats are exact
        gr = [1, 0, 1]
        er = [1, 0, 1]
        kind = rng.choice(("centre", "xaxis", "yaxis", "diag_square", "diag_square_neg"))
        gs[0] += gs[0] % 2
        gs[1] += gs[1] % 2
        if kind == "centre":
            gp = [0, 0, gp[2]]
        elif kind == "xaxis":
            gp = [rng.randint(-200, 200), 0, gp[2]]
        elif kind == "yaxis":
            gp = [0, rng.randint(-200, 200), gp[2]]
        else:
            gs[1] = gs[0]
            k = rng.randint(-200, 200)
            gp = [k, k if kind == "diag_square" else -k, gp[2]]
        es = [max(1, gs[0] + rng.randint(-6, 6)), max(1, gs[1] + rng.randint(-6, 6)), gs[2]]
        ep = [gp[0] + rng.randint(-8, 8), gp[1] + rng.randint(-8, 8), gp[2]]
    elif tag == "integral":
        # whole metres everywhere (multiples of 8 on the lattice), odd sizes included: these are handed to the library as Python ints
        gp = [8 * rng.randint(-40, 40), 8 * rng.randint(-40, 40), 8 * rng.randint(-2, 2)]
        gs = [8 * rng.randint(1, 7), 8 * rng.randint(1, 9), 8 * rng.randint(1, 4)]
        es = [8 * max(1, gs[0] // 8 + rng.randint(-1, 1)), 8 * max(1, gs[1] // 8 + rng.randint(-2, 2)), 8 * rng.randint(1, 4)]
        ep = [gp[0] + 8 * rng.randint(-3, 3), gp[1] + 8 * rng.randint(-2, 2), gp[2] + 8 * rng.randint(-1, 1)]
        er = gr if rng.random() < 0.4 else _rot(rng)
    else:
        raise ValueError(tag)
    return {"p": ep, "r": list(er), "s": es}, {"p": gp, "r": list(gr), "s": gs}


def gen_pair_float(rng):
    """continuous stream: arbitrary binary64 centres, sizes (log-uniform 0.05 .. 30 m) and yaw angles"""
    def size():
        return [math.exp(rng.uniform(math.log(0.05), math.log(30.0))) for _ in range(3)]

    gs, es = size(), size()
    gp = [rng.uniform(-120, 120), rng.uniform(-120, 120), rng.uniform(-3, 3)]
    k = rng.choice((0.0, 0.3, 1.0, 3.0))
    ep = [gp[0] + k * rng.uniform(-1, 1) * max(gs[1], es[1]), gp[1] + k * rng.uniform(-1, 1) * max(gs[0], es[0]),
          gp[2] + rng.uniform(-1, 1) * max(gs[2], es[2])]
    gy = rng.uniform(-math.pi, math.pi)
    ey = gy + rng.choice((0.0, rng.uniform(-0.3, 0.3), rng.uniform(-math.pi, math.pi)))
    return {"pf": ep, "yaw": ey, "sf": es}, {"pf": gp, "yaw": gy, "sf": gs}


TAGS = [("typical", 10), ("nested", 3), ("touching", 3), ("corner_touching", 1), ("corner_overlap", 3), ("disjoint", 2), ("near_disjoint", 3),
        ("sliver", 3), ("identical", 2), ("height", 3), ("tie", 3), ("integral", 3)]


def _exactly_representable(B):
    """is the real object built from exact inputs (yaw 0 or pi, lattice)?"""
    return B["s"] == 0 and all((v * 16).denominator == 1 for v in (B["x"], B["y"], B["z"], B["w"], B["l"], B["h"]))


def acceptable(case):
    """Reject pairs whose plane distance is numerically ill-defined on floats: the 2nd and 3rd nearest GT corner
    nearly (but not exactly, or not exactly representably) tied -- original and moved pair."""
    E, G = params(case["e"]), params(case["g"])
    for (EE, GG) in ((E, G), (moved(case["m"], E), moved(case["m"], G))):
        _, tie23, near, _ = plane_candidates(EE, GG)
        if near and not (tie23 and _exactly_representable(GG)):
            return False
    return True


REGRESSION = [
    # test/util/dummy_object.py pairs (yaw pi: Quaternion([0, 0, 0, 1]))
    ({"p": [8, 8, 8], "r": [-1, 0, 1], "s": [12, 12, 12]}, {"p": [8, 8, 8], "r": [-1, 0, 1], "s": [8, 8, 8]}),
    ({"p": [8, -8, 8], "r": [-1, 0, 1], "s": [4, 4, 4]}, {"p": [8, -8, 8], "r": [-1, 0, 1], "s": [8, 8, 8]}),
    ({"p": [-8, 8, 8], "r": [-1, 0, 1], "s": [8, 8, 8]}, {"p": [-8, 8, 8], "r": [-1, 0, 1], "s": [8, 8, 8]}),
    # the worked example of Props/C06.v
    ({"p": [8, 8, 8], "r": [1, 0, 1], "s": [12, 20, 12]}, {"p": [12, 10, 4], "r": [3, 4, 5], "s": [8, 16, 8]}),
    # 1:200 sliver across a square
    ({"p": [0, 0, 0], "r": [3, 4, 5], "s": [1, 200, 8]}, {"p": [1, 1, 0], "r": [1, 0, 1], "s": [40, 40, 8]}),
    # z differs only: BEV distance would be 0
    ({"p": [40, 16, 24], "r": [1, 0, 1], "s": [16, 32, 12]}, {"p": [40, 16, 0], "r": [1, 0, 1], "s": [16, 32, 12]}),
    # the same asymmetric pair with the ground truth in each quadrant around the ego: its nearest corner is footprint corner 2, 3, 0, 1 in turn
    ({"p": [323, 194, 0], "r": [3, 4, 5], "s": [12, 30, 12]}, {"p": [320, 192, 0], "r": [1, 0, 1], "s": [16, 32, 12]}),
    ({"p": [-317, 194, 0], "r": [3, 4, 5], "s": [12, 30, 12]}, {"p": [-320, 192, 0], "r": [1, 0, 1], "s": [16, 32, 12]}),
    ({"p": [-317, -190, 0], "r": [3, 4, 5], "s": [12, 30, 12]}, {"p": [-320, -192, 0], "r": [1, 0, 1], "s": [16, 32, 12]}),
    ({"p": [323, -190, 0], "r": [3, 4, 5], "s": [12, 30, 12]}, {"p": [320, -192, 0], "r": [1, 0, 1], "s": [16, 32, 12]}),
    # two 2 m squares sharing a 0.25 m x 0.25 m corner region (centres 2.47 m apart, beyond half the longest sides), axis-aligned and turned
    ({"p": [94, 54, 0], "r": [1, 0, 1], "s": [16, 16, 12]}, {"p": [80, 40, 0], "r": [1, 0, 1], "s": [16, 16, 12]}),
    ({"p": [66, 26, 0], "r": [0, 1, 1], "s": [16, 16, 12]}, {"p": [80, 40, 0], "r": [1, 0, 1], "s": [16, 16, 12]}),
]


class Box3dCorr(Corr):
    name = "box3d"
    header = ("From Coq Require Import List ZArith QArith Bool.\nFrom PE Require Import Base.CaseUtil Model.Geom2 Model.Clip.\n"
              "Import ListNotations.\nOpen Scope Q_scope.\n")
    requires = ["Model/Geom2.vo", "Model/Clip.vo", "Base/CaseUtil.vo"]
    shard = 40

    def cases(self, tier, rng):
        n = 520 if tier == "quick" else 8000
        out = []
        for i, (e, g) in enumerate(REGRESSION):
            for m in ({"r": [1, 0, 1], "t": [0, 0, 0]}, {"r": [5, 12, 13], "t": [0, 0, 0]}, {"r": [0, 1, 1], "t": [24, -40, 8]}):
                c = {"tag": "regression", "e": e, "g": g, "m": m}
                if acceptable(c):
                    out.append(c)
        n_reg = len(out)
        pool = [t for t, wgt in TAGS for _ in range(wgt)]
        n_float = n // 25
        while len(out) < n - n_float:
            tag = rng.choice(pool)
            e, g = gen_pair(rng, tag)
            c = {"tag": tag, "e": e, "g": g, "m": _mot(rng)}
            if tag == "integral":
                # integral motion too (axis rotation, whole metres), so that the moved and the map rendering are int-typed as well
                c["m"] = {"r": list(rng.choice(AXIS)), "t": [8 * rng.randint(-30, 30), 8 * rng.randint(-30, 30), 8 * rng.randint(-1, 1)]}
            self._representation(c, rng)
            if acceptable(c):
                out.append(c)
        while len(out) < n:
            e, g = gen_pair_float(rng)
            c = {"tag": "continuous", "e": e, "g": g, "m": _mot(rng)}
            self._representation(c, rng)
            if acceptable(c):
                out.append(c)
        head, tail = out[:n_reg], out[n_reg:]
        rng.shuffle(tail)                      # spread the (costlier) continuous cases over the coqc shards
        return head + tail

    @staticmethod
    def _representation(c, rng):
        """how the numbers are handed to the library (estimate, ground truth): tuple / list / numpy array of floats, Python ints when
        integral; and the sign of each quaternion (q and -q are the same rotation)"""
        if c["tag"] == "integral":
            c["rep"] = [rng.choice(("int", "int", "list", "ndarray")), rng.choice(("int", "int", "tuple"))]
        else:
            c["rep"] = [rng.choice(REPS[:3]) if rng.random() < 0.4 else "tuple", rng.choice(REPS[:3]) if rng.random() < 0.4 else "tuple"]
        c["qs"] = [rng.choice((1, 1, -1)), rng.choice((1, 1, -1))]
        c["warm"] = rng.random() < 0.5

    # -- implementation -------------------------------------------------------------------------
    def run_impl(self, case):
        E, G = params(case["e"]), params(case["g"])
        re_, rg_ = case.get("rep", ["tuple", "tuple"])
        qe, qg = case.get("qs", [1, 1])
        e, g = mk_obj(E, rep=re_, qsign=qe), mk_obj(G, rep=rg_, qsign=qg)
        obs = scores3d(e, g)
        sw = scores3d(g, e)
        obs["sw"] = {k: sw[k] for k in ("cd", "i2", "i3")}
        Em, Gm = moved(case["m"], E), moved(case["m"], G)
        # the moved pair: half of the cases build it the way the library derives objects (interpolation, frame conversion): a deepcopy of
        # the ALREADY SCORED object whose state is then updated -- the scores must follow the current state
        if (len(case["e"].get("p", case["e"].get("pf", [0]))) + int(abs(float(E["x"])) * 8) + int(abs(float(G["y"])) * 8)) % 2 == 0:
            obs["mv"] = scores3d(derive_obj(e, Em, rg_, qg), derive_obj(g, Gm, re_, qe))
            obs["mv_derived"] = True
        else:
            obs["mv"] = scores3d(mk_obj(Em, rep=rg_, qsign=qg), mk_obj(Gm, rep=re_, qsign=qe))
        # the SAME physical pair (E, G in the ego frame) rendered in the MAP frame through the ego pose m, with the frame's transforms:
        # the ground truth's nearest side must still be the one nearest to the EGO (object_matching.py: corners transformed back)
        # (skipped when the 2nd and 3rd nearest ground-truth corners are tied or nearly tied in the ego frame: the distances recovered
        # through the transform carry rounding noise, so the choice of the side is not determined on floats)
        _, tie23, near, _ = plane_candidates(E, G)
        if tie23 or near:
            obs["map"] = None
        elif case.get("warm"):
            obs["map"] = scores3d_map_derived(Em, Gm, case["m"], re_, rg_, qe, qg)
            obs["map_derived"] = True
        else:
            obs["map"] = scores3d(mk_obj(Em, "map", re_, -qe), mk_obj(Gm, "map", rg_, -qg), ego_transforms(case["m"]))
        return obs

    # -- model ----------------------------------------------------------------------------------
    @staticmethod
    def _box(b):
        B = params(b)
        return "(mkBox " + " ".join(qlit(B[k]) for k in ("x", "y", "z", "c", "s", "w", "l", "h")) + ")"

    @staticmethod
    def _mot(m):
        return "(mkMotion " + " ".join(qlit(v) for v in motion(m)) + ")"

    @staticmethod
    def _ordered(E, G):
        _, _, _, cr = plane_candidates(E, G)
        return abs(cr) > TIE_MARGIN

    def coq_term(self, case, obs):
        E, G = params(case["e"]), params(case["g"])
        Em, Gm = moved(case["m"], E), moved(case["m"], G)

        def chk(e, g, o, ordered):
            if min(o["gl"], o["gr"], o["el"], o["er"]) < 0:
                return "false"
            return (f"check_scores {e} {g} {blit(ordered)} {qlit(o['cd'])} {qlit(o['pd'])} {qlit(o['i2'])} {qlit(o['i3'])} "
                    f"{o['gl']} {o['gr']} {o['el']} {o['er']}")

        parts = [chk("e", "g", obs, self._ordered(E, G)),
                 chk("(move_box m e)", "(move_box m g)", obs["mv"], self._ordered(Em, Gm)),
                 # map rendering of (e, g) with transforms = the ego-frame scores of (e, g) (C07_plane_distance_invariant); left/right is
                 # decided in map coordinates by the code, so the reported side is compared as a set
                 chk("e", "g", obs["map"], False) if obs["map"] is not None else "true",
                 f"check_swapped e g {qlit(obs['sw']['cd'])} {qlit(obs['sw']['i2'])} {qlit(obs['sw']['i3'])}"]
        if E["s"] == 0 and G["s"] == 0 and E["c"] == 1 and G["c"] == 1:
            parts.append("check_aa_closed_form e g")
        return (f"(let e := {self._box(case['e'])} in let g := {self._box(case['g'])} in let m := {self._mot(case['m'])} in\n  "
                + " &&\n  ".join(parts) + ")")

    def coq_debug(self, case, obs):
        return (f"(let e := {self._box(case['e'])} in let g := {self._box(case['g'])} in let m := {self._mot(case['m'])} in "
                "(Qred (center_sq e g), plane_sq_box e g, plane_lr (corners g), Qred (iou2_clip e g), Qred (iou3_clip e g), "
                "Qred (center_sq (move_box m e) (move_box m g)), plane_sq_box (move_box m e) (move_box m g), "
                "plane_lr (corners (move_box m g)), Qred (iou2_clip (move_box m e) (move_box m g)), "
                "Qred (iou3_clip (move_box m e) (move_box m g))))")

    # -- property oracle (exact Fractions, no Coq) -----------------------------------------------
    @staticmethod
    def _pair_oracle(E, G, o, what):
        # centre distance = Euclidean distance of the centres (3D)
        d2 = (E["x"] - G["x"]) ** 2 + (E["y"] - G["y"]) ** 2 + (E["z"] - G["z"]) ** 2
        want = math.sqrt(d2)
        if abs(o["cd"] - want) > TOL * max(1.0, want):
            return f"{what}: centre distance {o['cd']!r} is not the Euclidean distance of the centres {want!r}"
        if d2 == 0 and o["cd"] != 0.0:
            return f"{what}: same centre but centre distance {o['cd']!r}"
        # IoU = true intersection over union
        ce, cg = corners_exact(E), corners_exact(G)
        inter = convex_intersection_area(ce, cg)
        ae, ag = E["l"] * E["w"], G["l"] * G["w"]
        iou2 = inter / (ae + ag - inter)
        hh = height_overlap(E, G)
        iou3 = inter * hh / (ae * E["h"] + ag * G["h"] - inter * hh)
        if abs(o["i2"] - float(iou2)) > TOL:
            return f"{what}: IoU 2D {o['i2']!r} differs from the true intersection over union {float(iou2)!r}"
        if abs(o["i3"] - float(iou3)) > TOL:
            return f"{what}: IoU 3D {o['i3']!r} differs from the true intersection over union {float(iou3)!r}"
        for k in ("i2", "i3"):
            if not (-1e-12 <= o[k] <= 1.0 + TOL):
                return f"{what}: {k} = {o[k]!r} outside [0, 1]"
        if o["i3"] > o["i2"] + 1e-12:
            return f"{what}: IoU 3D {o['i3']!r} exceeds BEV IoU {o['i2']!r}"
        same_bev = all(E[k] == G[k] for k in ("x", "y", "c", "s", "w", "l"))
        if same_bev and abs(o["i2"] - 1.0) > TOL:
            return f"{what}: identical footprints but IoU 2D = {o['i2']!r}"
        if same_bev and E["z"] == G["z"] and E["h"] == G["h"] and abs(o["i3"] - 1.0) > TOL:
            return f"{what}: identical boxes but IoU 3D = {o['i3']!r}"
        sep = separation(ce, cg)
        if sep > 1e-6 and (o["i2"] != 0.0 or o["i3"] != 0.0):
            return f"{what}: disjoint boxes (gap {sep:.3g}) but IoU 2D/3D = {o['i2']!r}/{o['i3']!r}"
        if hh == 0 and abs(o["i3"]) > 1e-12:
            return f"{what}: no common height but IoU 3D = {o['i3']!r}"
        # plane distance: RMS distance of corresponding corners over a nearest GT side
        if o["pd"] < 0:
            return f"{what}: negative plane distance {o['pd']!r}"
        if same_bev and o["pd"] != 0.0:
            return f"{what}: identical footprints but plane distance {o['pd']!r}"
        cands, _, _, _ = plane_candidates(E, G)
        ok = False
        for v, i, j in cands:
            w = math.sqrt(v)
            if abs(o["pd"] - w) <= TOL * max(1.0, w) + ROUND10:
                ok = True
        if not ok:
            return (f"{what}: plane distance {o['pd']!r} is not the RMS corner distance over the GT's nearest side "
                    f"(allowed: {[math.sqrt(v) for v, _, _ in cands]})")
        if min(o["gl"], o["gr"], o["el"], o["er"]) < 0:
            return f"{what}: reported nearest-plane points are not footprint corners"
        if (o["gl"], o["gr"]) != (o["el"], o["er"]):
            return f"{what}: estimate plane corners {o['el'], o['er']} do not correspond to GT plane corners {o['gl'], o['gr']}"
        if not any({o["gl"], o["gr"]} == {i, j} for _, i, j in cands):
            return f"{what}: reported GT plane corners {o['gl'], o['gr']} are not a nearest side"
        return None

    def oracle(self, case, obs):
        E, G = params(case["e"]), params(case["g"])
        Em, Gm = moved(case["m"], E), moved(case["m"], G)
        r = (self._pair_oracle(E, G, obs, "pair") or self._pair_oracle(Em, Gm, obs["mv"], "moved pair")
             or (self._pair_oracle(E, G, obs["map"], "pair rendered in the map frame (ego pose = the motion, transforms supplied)")
                 if obs["map"] is not None else None))
        if r:
            return r
        r = (via_result_mismatch(obs, "pair") or via_result_mismatch(obs["mv"], "moved pair")
             or (via_result_mismatch(obs["map"], "pair rendered in the map frame") if obs["map"] is not None else None))
        if r:
            return r
        # symmetry in the arguments
        for k in ("cd", "i2", "i3"):
            if abs(obs[k] - obs["sw"][k]) > TOL * max(1.0, abs(obs[k])):
                return f"{k} is not symmetric: {obs[k]!r} vs {obs['sw'][k]!r} with swapped arguments"
        # invariance under the common rigid motion
        for k in ("cd", "i2", "i3"):
            if abs(obs[k] - obs["mv"][k]) > TOL * max(1.0, abs(obs[k])):
                return f"{k} changes under a common rigid motion: {obs[k]!r} -> {obs['mv'][k]!r}"
        if case["m"]["t"][0] == 0 and case["m"]["t"][1] == 0:
            _, _, near, _ = plane_candidates(E, G)
            if not near and abs(obs["pd"] - obs["mv"]["pd"]) > TOL * max(1.0, obs["pd"]) + 2 * ROUND10:
                return f"plane distance changes under a common rotation about the ego: {obs['pd']!r} -> {obs['mv']['pd']!r}"
        return None

    def nontrivial(self, case, obs):
        return case["e"] != case["g"] and (0.0 < obs["i2"] < 1.0 or obs["pd"] > 0.0)

    def distribution(self, cases, obs):
        d = {"tags": {}, "rotated_pairs": 0, "axis_aligned_pairs": 0, "iou2_zero": 0, "iou2_between": 0, "iou2_one": 0,
             "iou3_zero_iou2_pos": 0, "exact_tie_2nd_3rd": 0, "tie_resolved_like_stable_sort": 0, "pure_rotation_motions": 0,
             "max_size_ratio": 0.0, "lr_compared_ordered": 0, "map_frame_renderings": 0, "moved_pair_derived_by_deepcopy_and_state_update": 0,
             "scores_also_read_off_DynamicObjectWithPerceptionResult": 0, "representations": {}, "negated_quaternion": 0, "int_typed_position_and_size": 0,
             "map_rendering_derived_from_scored_objects_and_updated_registry": 0,
             "nearest_gt_corner_index": {"0": 0, "1": 0, "2": 0, "3": 0}, "reported_nearest_gt_side": {},
             "overlapping_pairs_with_centres_beyond_half_the_longest_sides": 0, "of_those_sharing_less_than_2_percent_of_the_smaller_footprint": 0}
        for c, o in zip(cases, obs):
            if "__harness_exception__" in o:
                continue
            E_, G_ = params(c["e"]), params(c["g"])
            dg = [sqn(q) for q in corners_exact(G_)]
            d["nearest_gt_corner_index"][str(min(range(4), key=lambda k: (dg[k], k)))] += 1
            sd = "-".join(str(k) for k in sorted((o["gl"], o["gr"])))
            d["reported_nearest_gt_side"][sd] = d["reported_nearest_gt_side"].get(sd, 0) + 1
            if o["i2"] > 0 and (E_["x"] - G_["x"]) ** 2 + (E_["y"] - G_["y"]) ** 2 > ((max(E_["w"], E_["l"]) + max(G_["w"], G_["l"])) / 2) ** 2:
                d["overlapping_pairs_with_centres_beyond_half_the_longest_sides"] += 1
                ae_, ag_ = float(E_["w"] * E_["l"]), float(G_["w"] * G_["l"])
                inter_ = o["i2"] * (ae_ + ag_) / (1 + o["i2"])
                d["of_those_sharing_less_than_2_percent_of_the_smaller_footprint"] += inter_ < 0.02 * min(ae_, ag_)
            d["tags"][c["tag"]] = d["tags"].get(c["tag"], 0) + 1
            d["map_frame_renderings"] += o.get("map") is not None
            d["moved_pair_derived_by_deepcopy_and_state_update"] += bool(o.get("mv_derived"))
            d["map_rendering_derived_from_scored_objects_and_updated_registry"] += bool(o.get("map_derived"))
            d["scores_also_read_off_DynamicObjectWithPerceptionResult"] += ("via_result" in o) + ("via_result" in o["mv"]) + ("via_result" in (o.get("map") or {}))
            for rp in c.get("rep", ["tuple", "tuple"]):
                d["representations"][rp] = d["representations"].get(rp, 0) + 1
            d["negated_quaternion"] += sum(1 for q in c.get("qs", [1, 1]) if q < 0)
            d["int_typed_position_and_size"] += sum(
                1 for rp, b in zip(c.get("rep", []), (c["e"], c["g"])) if rp == "int" and "p" in b and all(k % 8 == 0 for k in b["p"] + b["s"]))
            E, G = params(c["e"]), params(c["g"])
            aa = E["s"] == 0 and G["s"] == 0
            d["axis_aligned_pairs" if aa else "rotated_pairs"] += 1
            d["iou2_zero" if o["i2"] == 0 else ("iou2_one" if abs(o["i2"] - 1) < 1e-12 else "iou2_between")] += 1
            if o["i3"] == 0 and o["i2"] > 0:
                d["iou3_zero_iou2_pos"] += 1
            cands, tie23, _, cr = plane_candidates(E, G)
            if tie23:
                d["exact_tie_2nd_3rd"] += 1
                if {o["gl"], o["gr"]} == {cands[0][1], cands[0][2]}:
                    d["tie_resolved_like_stable_sort"] += 1
            if abs(cr) > TIE_MARGIN:
                d["lr_compared_ordered"] += 1
            if c["m"]["t"][0] == 0 and c["m"]["t"][1] == 0:
                d["pure_rotation_motions"] += 1
            for B in (E, G):
                d["max_size_ratio"] = max(d["max_size_ratio"], float(max(B["w"], B["l"]) / min(B["w"], B["l"])))
        return d


# ------------------------------------------------------------------------------------------------
# 2D objects with integer ROIs
# ------------------------------------------------------------------------------------------------
def gen_roi_pair(rng, tag):
    gx, gy = rng.randint(0, 1800), rng.randint(0, 1000)
    gw, gh = rng.randint(1, 400), rng.randint(1, 300)
    if tag == "typical":
        a = [gx + rng.randint(-gw, gw), gy + rng.randint(-gh, gh), max(1, gw + rng.randint(-30, 30)), max(1, gh + rng.randint(-30, 30))]
    elif tag == "nested":
        w, h = max(1, gw // rng.randint(2, 5)), max(1, gh // rng.randint(2, 5))
        a = [gx + rng.randint(0, gw - w), gy + rng.randint(0, gh - h), w, h]
    elif tag == "touching":
        w, h = rng.randint(1, 300), rng.randint(1, 300)
        a = [gx + gw, gy + rng.randint(-h, gh), w, h] if rng.random() < 0.5 else [gx + rng.randint(-w, gw), gy - h, w, h]
    elif tag == "disjoint":
        w, h = rng.randint(1, 300), rng.randint(1, 300)
        a = [gx + gw + rng.randint(1, 300), gy + rng.randint(-400, 400), w, h]
    elif tag == "identical":
        a = [gx, gy, gw, gh]
    elif tag == "sliver":
        a = [gx + rng.randint(0, gw), gy - 5, 1, gh + 200]
    elif tag == "parity":
        # odd/even sizes: the integer centre offset + size // 2 is half a pixel off the middle for odd sizes
        gw, gh = 2 * rng.randint(1, 50) + 1, 2 * rng.randint(1, 50)
        a = [gx + rng.randint(-3, 3), gy + rng.randint(-3, 3), gw + 1, gh + 1]
    elif tag == "unit":
        gw, gh = rng.randint(1, 3), rng.randint(1, 3)
        a = [gx + rng.randint(-2, 2), gy + rng.randint(-2, 2), rng.randint(1, 3), rng.randint(1, 3)]
    else:
        raise ValueError(tag)
    return a, [gx, gy, gw, gh]


ROI_TAGS = [("typical", 8), ("nested", 2), ("touching", 2), ("disjoint", 2), ("identical", 1), ("sliver", 1), ("parity", 3), ("unit", 2)]
ROI_REGRESSION = [([100, 100, 200, 100], [100, 100, 200, 100]), ([0, 0, 50, 50], [0, 0, 50, 50]),
                  ([100, 100, 201, 101], [150, 120, 200, 100]), ([0, 0, 1, 1], [1, 1, 1, 1]), ([0, 0, 3, 3], [1, 1, 1, 1])]


class Roi2dCorr(Corr):
    name = "roi2d"
    header = Box3dCorr.header
    requires = Box3dCorr.requires
    shard = 100

    def cases(self, tier, rng):
        n = 300 if tier == "quick" else 5000
        out = [{"tag": "regression", "a": a, "b": b, "t": [7, -3]} for a, b in ROI_REGRESSION]
        pool = [t for t, wgt in ROI_TAGS for _ in range(wgt)]
        while len(out) < n:
            tag = rng.choice(pool)
            a, b = gen_roi_pair(rng, tag)
            c = {"tag": tag, "a": a, "b": b, "t": [rng.randint(-500, 500), rng.randint(-500, 500)]}
            # representation of the ROI (tuple / list of ints, numpy int64 array) and, for half of the pairs, a 3D position on the 2D
            # objects (k/8 m, unrelated to the ROI): "ROI centers in 2D" -- no 2D score may read it
            c["rep"] = [rng.choice(REPS[:3]) if rng.random() < 0.5 else "tuple" for _ in range(2)]
            if rng.random() < 0.5:
                c["pos"] = [[rng.randint(-400, 400) / 8 for _ in range(3)] if rng.random() < 0.8 else None for _ in range(2)]
            out.append(c)
        return out

    def run_impl(self, case):
        from perception_eval.evaluation.matching.object_matching import CenterDistanceMatching, IOU2dMatching
        from perception_eval.evaluation.result.object_result import DynamicObjectWithPerceptionResult

        ra, rb = case.get("rep", ["tuple", "tuple"])
        pa, pb = case.get("pos", [None, None])
        a, b = mk_obj2d(case["a"], ra, pa), mk_obj2d(case["b"], rb, pb)
        tx, ty = case["t"]
        at = mk_obj2d([case["a"][0] + tx, case["a"][1] + ty] + case["a"][2:], rb, pb)
        bt = mk_obj2d([case["b"][0] + tx, case["b"][1] + ty] + case["b"][2:], ra, pa)
        r = DynamicObjectWithPerceptionResult(a, b)
        return {
            "cd": float(CenterDistanceMatching(a, b).value), "iou": float(IOU2dMatching(a, b).value),
            "cd_sw": float(CenterDistanceMatching(b, a).value), "iou_sw": float(IOU2dMatching(b, a).value),
            "cd_mv": float(CenterDistanceMatching(at, bt).value), "iou_mv": float(IOU2dMatching(at, bt).value),
            "ca": [int(v) for v in a.roi.center], "cb": [int(v) for v in b.roi.center],
            # the second documented entry point (oracle only)
            "via_result": {"cd": float(r.center_distance.value), "iou": float(r.iou_2d.value),
                           "iou_3d_is_none": r.iou_3d is None, "plane_distance_is_none": r.plane_distance is None},
        }

    @staticmethod
    def _roi(r):
        return "(mkRoi " + " ".join(zlit(v) for v in r) + ")"

    def coq_term(self, case, obs):
        a, b = self._roi(case["a"]), self._roi(case["b"])
        tx, ty = case["t"]
        return (f"(let a := {a} in let b := {b} in\n  check_roi_center a b {qlit(obs['cd'])} && check_roi_iou a b {qlit(obs['iou'])} && "
                f"check_roi_center b a {qlit(obs['cd_sw'])} && check_roi_iou b a {qlit(obs['iou_sw'])} &&\n  "
                f"check_roi_center (shift_roi {zlit(tx)} {zlit(ty)} a) (shift_roi {zlit(tx)} {zlit(ty)} b) {qlit(obs['cd_mv'])} && "
                f"check_roi_iou (shift_roi {zlit(tx)} {zlit(ty)} a) (shift_roi {zlit(tx)} {zlit(ty)} b) {qlit(obs['iou_mv'])} &&\n  "
                f"check_roi_center_pt a {zlit(obs['ca'][0])} {zlit(obs['ca'][1])} && check_roi_center_pt b {zlit(obs['cb'][0])} {zlit(obs['cb'][1])})")

    def coq_debug(self, case, obs):
        a, b = self._roi(case["a"]), self._roi(case["b"])
        return f"(roi_center {a}, roi_center {b}, roi_center_sq {a} {b}, Qred (iou_roi {a} {b}), Qred (iou_roi_clip {a} {b}))"

    def oracle(self, case, obs):
        a, b = case["a"], case["b"]
        # documented centre: (offset + size // 2), integers
        for r, c, nm in ((a, obs["ca"], "estimate"), (b, obs["cb"], "ground truth")):
            want = [r[0] + r[2] // 2, r[1] + r[3] // 2]
            if c != want:
                return f"ROI centre of the {nm} {r} is {c}, expected {want}"
        n = (obs["ca"][0] - obs["cb"][0]) ** 2 + (obs["ca"][1] - obs["cb"][1]) ** 2
        rt = math.isqrt(n)
        want = float(rt) if rt * rt == n else math.sqrt(n)
        if abs(obs["cd"] - want) > 1e-12 * max(1.0, want):
            return f"centre distance {obs['cd']!r} is not the Euclidean distance {want!r} of the ROI centres"
        ix = max(0, min(a[0] + a[2], b[0] + b[2]) - max(a[0], b[0]))
        iy = max(0, min(a[1] + a[3], b[1] + b[3]) - max(a[1], b[1]))
        inter = ix * iy
        iou = Fraction(inter, a[2] * a[3] + b[2] * b[3] - inter)
        if abs(obs["iou"] - float(iou)) > 1e-12:
            return f"IoU {obs['iou']!r} differs from the true intersection over union {float(iou)!r} ({iou})"
        if not (0.0 <= obs["iou"] <= 1.0):
            return f"IoU {obs['iou']!r} outside [0, 1]"
        if a == b and obs["iou"] != 1.0:
            return f"identical ROIs but IoU = {obs['iou']!r}"
        if inter == 0 and obs["iou"] != 0.0:
            return f"disjoint ROIs but IoU = {obs['iou']!r}"
        v = obs.get("via_result")
        if v is not None:
            if v["cd"] != obs["cd"] or v["iou"] != obs["iou"]:
                return (f"DynamicObjectWithPerceptionResult(estimate, ground_truth).center_distance/iou_2d = ({v['cd']!r}, {v['iou']!r}) but the "
                        f"matching classes applied to (estimate, ground_truth) give ({obs['cd']!r}, {obs['iou']!r})")
            if not (v["iou_3d_is_none"] and v["plane_distance_is_none"]):
                return "DynamicObjectWithPerceptionResult of two 2D objects carries a 3D IoU / plane distance (documented: None in 2D evaluation)"
        if obs["cd"] != obs["cd_sw"] or obs["iou"] != obs["iou_sw"]:
            return f"not symmetric: ({obs['cd']!r}, {obs['iou']!r}) vs ({obs['cd_sw']!r}, {obs['iou_sw']!r}) with swapped arguments"
        if obs["cd"] != obs["cd_mv"] or abs(obs["iou"] - obs["iou_mv"]) > 1e-12:
            return f"changes under a common translation: ({obs['cd']!r}, {obs['iou']!r}) -> ({obs['cd_mv']!r}, {obs['iou_mv']!r})"
        return None

    def nontrivial(self, case, obs):
        return case["a"] != case["b"] and (0.0 < obs["iou"] < 1.0 or obs["cd"] > 0.0)

    def distribution(self, cases, obs):
        d = {"tags": {}, "iou_zero": 0, "iou_between": 0, "iou_one": 0, "odd_size": 0, "perfect_square_distance": 0,
             "roi_representations": {}, "objects_with_a_3d_position": 0, "scores_also_read_off_DynamicObjectWithPerceptionResult": 0}
        for c, o in zip(cases, obs):
            if "__harness_exception__" in o:
                continue
            d["tags"][c["tag"]] = d["tags"].get(c["tag"], 0) + 1
            for rp in c.get("rep", ["tuple", "tuple"]):
                d["roi_representations"][rp] = d["roi_representations"].get(rp, 0) + 1
            d["objects_with_a_3d_position"] += sum(1 for q in c.get("pos", []) if q is not None)
            d["scores_also_read_off_DynamicObjectWithPerceptionResult"] += "via_result" in o
            d["iou_zero" if o["iou"] == 0 else ("iou_one" if o["iou"] == 1 else "iou_between")] += 1
            if any(v % 2 for v in c["a"][2:] + c["b"][2:]):
                d["odd_size"] += 1
            if float(o["cd"]).is_integer():
                d["perfect_square_distance"] += 1
        return d


class C06(Prop):
    id = "C06"
    props_file = "Props/C06.v"
    # redundant tie (core.gen_tie): these functions, translated from the source on every run, equal the hand model for all inputs
    gen_tie_theorems = ['GenTie__get_height_intersection', 'GenTie__get_volume_intersection', 'GenTie_IOU3dMatching__calculate_matching_score', 'GenTie_IOU3dMatching__calculate_matching_score_outside', 'GenTie_IOU2dMatching__calculate_matching_score', 'GenTie_IOU2dMatching__calculate_matching_score_outside', 'GenTie_IOU2dMatching__calculate_matching_score_roi', 'GenTie_IOU2dMatching__calculate_matching_score_roi_outside', 'GenTie_CenterDistanceMatching__calculate_matching_score', 'GenTie_distance_objects', 'GenTie_get_position_error', 'GenTie_get_distance', 'GenTie_get_distance_bev']
    extra_props_files = ["Props/C06Clip.v"]
    gen_files = []
    design_ref = "DESIGN.md section 4, C06"
    technique = ("Rocq proofs over an exact rational model of yaw-only boxes / integer ROIs (squared distances, closed-form axis-aligned "
                 "intersection, IoU algebra, an exact Sutherland-Hodgman/shoelace evaluator of the intersection area with proved area laws (convexity preservation, Green's formula per clipping pass, additivity of cuts, monotonicity, symmetry, rigid invariance), plane distance with its argsort selection) + "
                 "in-Coq correspondence of the four MatchingMethod values against the model and against an exact Sutherland-Hodgman "
                 "clipper evaluated with vm_compute")
    level_text = ("Theorems (Props/C06.v, all closed under the global context), for ALL rationals: centre distance^2 is the Euclidean "
                  "one, symmetric, >= 0, 0 iff same centre, invariant under every common rigid motion (yaw rotation about the ego + "
                  "3D translation); ROI centres are floor(offset + size/2) and their distance has the same laws; for axis-aligned "
                  "rectangles and every pair of integer ROIs the intersection is characterised as a point set and IoU is in [0,1], "
                  "symmetric, 1 for identical, 0 for disjoint/touching, > 0 for overlapping, translation invariant -- unconditionally; "
                  "for arbitrary rotated boxes IoU2D/IoU3D in [0,1], symmetry, identical => 1, disjoint => 0, rigid invariance and "
                  "IoU3D <= IoU2D are proved RELATIVE to an intersection-area function with explicitly listed hypotheses; height "
                  "intersection is the length of the common z-interval; plane distance^2 is defined for every pair, >= 0, 0 for "
                  "identical footprints, equals the mean of the squared distances of corresponding corners over two ADJACENT ground-truth "
                  "corners that are nearest to the ego (British-flag argument), and is invariant under a common rotation about the ego. "
                  "The exact clipper returns the footprint itself (area l*w, IoU 1) when a box is clipped by itself, and for any two polygons "
                  "every vertex of its result lies inside every clip edge and inside the subject's convex hull (soundness half). "
                  "Props/C06Clip.v discharges every one of those hypotheses for the EXECUTABLE exact evaluator inter_clip (Sutherland-Hodgman clip + "
                  "shoelace over Q): 0 <= inter_clip <= min(area e, area g), symmetric, = area for identical footprints, 0 for disjoint/touching boxes, "
                  "invariant under every common rigid motion -- so IoU2D/IoU3D of the evaluator lie in [0,1], are symmetric, 1 / 0 in the two "
                  "cases, rigid-invariant and IoU3D <= IoU2D with NO hypothesis (general polygon lemmas: a clipping pass keeps convex CCW polygons "
                  "convex CCW and never increases the shoelace sum, a line cut is additive, Green's formula for one pass, monotonicity under "
                  "containment). What ties shapely to that evaluator is the correspondence: every run compares IoU2D/IoU3D with the exact "
                  "clipper inside Coq and with an independent exact hull-based intersection in the Python oracle, within 1e-9. "
                  "Oracle-only observations: the scores held by DynamicObjectWithPerceptionResult equal the matching classes' values exactly; input "
                  "representation (tuple/list/ndarray/int), quaternion sign, a 3D position on 2D objects and a re-used registry / derived objects do not change any score.")
    level_note = ("partial in one respect only: that the shoelace sum of the clipped polygon IS the Lebesgue measure of the intersection of two "
                  "rotated rectangles is not stated (no measure theory installed); all IoU laws of the property are theorems about the exact "
                  "evaluator, and shapely is tied to the evaluator by the per-run comparison (1e-9). Distances are compared squared (no sqrt in Q). "
                  "Yaw-only boxes; BASE_LINK frame and MAP frame with the ego transform; BOUNDING_BOX shapes.")
    rule = ("box3d: pairs of real DynamicObjects on the k/8 lattice with yaw from 32 rational circle points + 4 axis directions, streams "
            "typical/nested/touching/corner-touching/corner-overlap (a small shared region at one of the four corners, centres beyond half the longest sides, half of them near-square)/disjoint/near-disjoint/sliver (to 1:200)/identical/height/tie + a continuous stream (1/25 of "
            "the cases: arbitrary binary64 centres, yaw angles and sizes 0.05..30 m, passed to Coq as exact rationals), each also swapped and after a "
            "common rigid motion (half of them pure rotations about the ego) and rendered in the MAP frame through that motion as ego pose with the frame's transforms; roi2d: integer ROI pairs incl. odd/even sizes, 1-pixel ROIs, "
            "touching, nested, each also swapped and translated; non-trivial = different boxes with 0 < IoU < 1 or a positive distance; "
            "every score is also read off DynamicObjectWithPerceptionResult(estimate, ground truth, transforms) (3D and 2D; iou_3d / plane_distance None in 2D) "
            "and must be the identical number; positions / sizes / ROIs are handed over as tuple, list or numpy array and, in the `integral` stream (whole "
            "metres, odd sizes, axis motions), as Python ints; either sign of each quaternion (the map rendering carries the opposite sign of the ego one); "
            "half of the map renderings are derived by deepcopy + state update from map objects already scored under ANOTHER ego pose through a registry "
            "that is then updated in place; half of the ROI pairs carry an unrelated 3D position on the 2D objects (ROI centres, not state.position); "
            "regression inputs put one asymmetric pair into each quadrant around the ego (nearest ground-truth corner = footprint corner 2, 3, 0, 1 in turn; the distribution counts it per run) "
            "and two 2 m squares sharing a 0.25 m corner region")
    assumptions = [
        "shapely's footprint.intersection(footprint).area agrees with the exact evaluator inter_clip within 1e-9 (checked on every generated pair, "
        "every run); the hypotheses of the abstract C06_iou_* theorems are PROVED for inter_clip (Props/C06Clip.v: C06_clip_inter_satisfies_hypotheses)",
        "yaw-only orientation given by a rational point of the unit circle; the implementation receives the nearest binary64 quaternion",
        "numpy argsort of the 4 corner distances: ties between the 2nd and 3rd nearest corner may resolve either way (AVX-512 argsort is "
        "not stable); both resolutions are accepted on exactly tied inputs, near-ties are excluded from the generated inputs",
        "binary64 rounding in numpy/shapely/pyquaternion is covered by the 1e-9 tolerance, PlaneDistanceMatching's round(.,10) by 6e-11",
    ]
    trusted_base_extra = [
        "the abstract C06_iou_* theorems quantify over an intersection-area function with explicit premises; Props/C06Clip.v instantiates them with the "
        "executable evaluator and proves the premises, so no premise about `inter` remains in the C06_clip_* theorems",
        "Python oracle: exact Fraction geometry in harness/props/C06.py (convex hull of candidate vertices + shoelace; separating-axis gap)",
    ]
    not_proved = [
        "that shapely's intersection().area -- or the Sutherland-Hodgman evaluator clip_area -- equals the Lebesgue measure of the "
        "intersection of two ROTATED rectangles (needs measure theory; mathcomp-analysis is not installed): validated against clip_area "
        "and an independent exact hull computation on every run instead",
        "that shapely itself satisfies the laws (it is compared with the evaluator that provably does); point-set completeness of the clipper "
        "as such (its area laws -- bounds, symmetry, additivity of cuts, monotonicity -- are proved instead)",
        "roll/pitch != 0, POLYGON shapes (BEV centre distance fallback): outside the model",
        "binary64 rounding: theorems are over Q; agreement with the floats is measured (1e-9), not proved",
    ]

    def correspondences(self):
        return [Box3dCorr(), Roi2dCorr()]


READY = True
PROP = C06()
