"""C05 / C13 -- the tracking glue between the manager and CLEAR.

`TrackingPipelineCorr` drives the REAL `PerceptionEvaluationManager` with `evaluation_task = "tracking"` over
generated multi-frame histories (persistent tracks, identity swaps, new ids on continuing targets, track gaps,
FP-labelled ground truths, unknown-labelled estimates, several target labels with different thresholds, estimates
outside the range filters, BASE_LINK and MAP renderings), reads the facts of every frame's object results AFTER
matching and filtering through public attributes and lets the Coq model `Model/TrackingPipeline.v` reproduce
  (a) every frame result's `metrics_score.tracking_scores[k].clears[j].results` and `num_ground_truth`,
  (b) `_sum_clear()` of every TrackingMetricsScore,
  (c) the same for `manager.get_scene_result().tracking_scores`,
  (d) `MetricsScore.num_ground_truth` of every frame and of the scene.
The oracle re-states the property on the implementation's outputs without the Coq model (an independent
re-implementation of the CLEAR definitions applied to the per-label buckets of consecutive manager frames; scene
counters are the sums of the frame counters; renaming track ids leaves every score unchanged).

Theorems: coq/theories/Props/C05Pipeline.v.

Wiring (done by the owner of harness/props/C05.py): add `TrackingPipelineCorr()` to `C05.correspondences()`,
`extra_props_files = ["Props/C05Pipeline.v"]`, a `cleanup` that calls `MC.cleanup_tmp(all_pids=True)`, and -- only if the
cross-label observation below is listed as a known finding of C05 with class `CROSS_CLASS` -- `known_match` /
`known_probe` of this module.  LEVEL_TEXT / RULE / ASSUMPTIONS / NOT_PROVED at the end of this file are the metadata.
"""
import math

from harness.lib.core import Corr, blit, llit, olit, qlit
from harness.props import manager_common as MC

LABEL_IDX = {"unknown": 0, "car": 1, "truck": 2, "bus": 3, "bicycle": 4, "motorbike": 5, "pedestrian": 6, "animal": 7, "false_positive": 8}
# MetricsScore.evaluate_tracking builds the scores in this order (3D task)
MODE_ORDER = [("center", "Center Distance", "MCenter"), ("iou2d", "IoU 2D", "MIou2d"), ("iou3d", "IoU 3D", "MIou3d"), ("plane", "Plane Distance", "MPlane")]
DIST = ("center", "plane")
CFG_KEY = {"center": "center_distance_thresholds", "iou2d": "iou_2d_thresholds", "iou3d": "iou_3d_thresholds", "plane": "plane_distance_thresholds"}
EPS = 1e-9
KEYERROR_MSG = "add_frame_result raised KeyError on a legitimate tracking history"
# An observation that is reported only if the main session lists it as a known finding of C05 (class below); otherwise it is
# tallied in the evidence distribution (`cross_label_pairs_skipped_by_clear`).  See C05_pipeline_skipped_are_cross_label.
CROSS_CLASS = "cross-label-pair-skipped-by-clear"
CROSS_PREFIX = "[" + CROSS_CLASS + "] "
_listed = {}


def finding_listed(cls):
    if cls not in _listed:
        from harness.lib.core import load_known

        _listed[cls] = any(f.get("property") == "C05" and f.get("status") == "known" and f.get("class") == cls for f in load_known())
    return _listed[cls]


def known_match(finding, corr_name, case, obs, msg):
    """to be called from C05.known_match: oracle messages of TrackingPipelineCorr that fall under a listed finding"""
    return finding.get("class") == CROSS_CLASS and isinstance(msg, str) and msg.startswith(CROSS_PREFIX)


def known_probe(finding):
    """is the cross-label observation still reproducible?  (a car estimate paired with a pedestrian ground truth by the
    second matching stage is in the CAR bucket and is neither TP nor FP of any CLEAR)"""
    if finding.get("class") != CROSS_CLASS:
        return False
    case = _case("probe", [_frame(0, [_obj("pedestrian", [5.0, 5.0, 0.0], "g0")], [_obj("car", [5.25, 5.0, 0.0], "t0")])], ["car", "pedestrian"],
                 {"center": [[1.0, 0.5]], "iou2d": [], "iou3d": [], "plane": []})
    try:
        o = run_history(case, tag="trkprobe")
    finally:
        MC.cleanup_tmp()
    c = o["frames"][0]["scores"][0]["clears"][0]
    return c["predict_num"] == 1 and c["tp"] == 0 and c["fp"] == 0


# ------------------------------------------------------------------------------------------------
# the implementation side
# ------------------------------------------------------------------------------------------------
def crit_spec(kind, n):
    return [
        {"max_x_position_list": [30.0] * n, "max_y_position_list": [30.0] * n},
        {"max_x_position_list": [100.0] * n, "max_y_position_list": [100.0] * n},
        {"max_distance_list": [35.0] * n, "min_distance_list": [3.0] * n},
        {"max_x_position_list": ([12.5, 30.0, 20.0, 30.0] * 2)[:n], "max_y_position_list": ([30.0, 12.5, 20.0, 30.0] * 2)[:n]},
    ][kind]


N_CRIT = 4


def policy_of(case):
    """the label policy of the case: an explicit `matching_label_policy` (DEFAULT / ALLOW_UNKNOWN / ALLOW_ANY) or, without one, the legacy
    `allow_matching_unknown` switch"""
    return case.get("policy") or ("ALLOW_UNKNOWN" if case["unknown"] else "DEFAULT")


def make_manager(case, tag="trk"):
    n = len(case["targets"])
    over = {"target_labels": list(case["targets"]), "min_point_numbers": [0] * n, "allow_matching_unknown": bool(case["unknown"])}
    if case.get("policy"):
        del over["allow_matching_unknown"]
        over["matching_label_policy"] = case["policy"]          # the documented key; the legacy switch is then not consulted
    for k, _, _ in MODE_ORDER:
        over[CFG_KEY[k]] = [list(t) for t in case["cfg"][k]]
    if case.get("dim") == "2d":
        # a tracking2d evaluator on the front camera (no dataset: the fixture has no camera annotations); plane-distance and IoU-3D
        # thresholds stay configured -- a 2D task must not build scores from them
        from perception_eval.config import PerceptionEvaluationConfig
        from perception_eval.manager import PerceptionEvaluationManager

        cfg = MC.base_config("tracking2d", **over)
        if "matching_label_policy" in over:
            cfg.pop("allow_matching_unknown", None)
        for k in ("max_x_position", "max_y_position", "min_point_numbers"):
            cfg.pop(k, None)
        return PerceptionEvaluationManager(PerceptionEvaluationConfig([], "cam_front", MC.tmp_dir(tag), cfg, False))
    if "matching_label_policy" in over:
        over["allow_matching_unknown"] = None                    # dropped by MC.base_config
    return MC.make_manager("tracking", case["frame"], tag=tag, **over)


def make_object2d(spec, t):
    """the scene object as a ROI on the front camera: 8 px per metre, top-left corner from (x, y), width / height from the box"""
    from perception_eval.common.object2d import DynamicObject2D
    from perception_eval.common.schema import FrameID

    x, y = spec["pos"][0], spec["pos"][1]
    roi = (int(round(8 * x)) + 4000, int(round(8 * y)) + 4000, max(1, int(round(8 * spec["size"][0]))), max(1, int(round(8 * spec["size"][1]))))
    return DynamicObject2D(unix_time=t, frame_id=FrameID.CAM_FRONT, semantic_score=spec.get("conf", 1.0), semantic_label=MC.label_of(spec["label"]),
                           roi=roi, uuid=spec.get("uuid"))


def _fin(x):
    if isinstance(x, float) and math.isinf(x):
        return None
    if isinstance(x, float) and math.isnan(x):
        return "nan"
    return x


def score_obs(ms):
    out = []
    for t in ms.tracking_scores:
        mota, motp, sw = t._sum_clear()
        cl = []
        for c in t.clears:
            d = {k: _fin(v) for k, v in c.results.items()}
            d["num_gt"] = int(c.num_ground_truth)
            d["label"] = c.target_labels[0].value
            d["thr"] = float(c.matching_threshold_list[0])
            d["types"] = [type(c.tp).__name__, type(c.fp).__name__, type(c.id_switch).__name__]
            cl.append(d)
        out.append({"mode": t.matching_mode.value, "clears": cl, "sum": [_fin(mota), _fin(motp), int(sw)], "str_ok": isinstance(str(t), str)})
    return out


def _mval(m):
    """value of a matching; a mode that does not exist for the object type (IoU 3D / plane distance of a ROI) is reported as 0 and is
    never looked at: no score of that mode may be built"""
    return 0.0 if m is None or m.value is None else float(m.value)


def run_history(case, ren=None, tag="trk"):
    """Run the real manager over the case's frames.  ren = (est uuid -> uuid, gt uuid -> uuid) renames the tracks."""
    from perception_eval.evaluation.matching.object_matching import MatchingMode

    mgr = make_manager(case, tag)
    modes = {"center": MatchingMode.CENTERDISTANCE, "iou2d": MatchingMode.IOU2D, "iou3d": MatchingMode.IOU3D, "plane": MatchingMode.PLANEDISTANCE}
    n = len(case["targets"])
    crit_targets = case.get("crit_targets") or case["targets"]
    e_ids, g_ids = {}, {}
    frames = []
    for fr in case["frames"]:
        f2 = fr
        if ren is not None:
            f2 = dict(fr, gts=[dict(g, uuid=ren[1](g["uuid"])) for g in fr["gts"]], ests=[dict(e, uuid=ren[0](e["uuid"])) for e in fr["ests"]])
        if case.get("dim") == "2d":
            from perception_eval.common.dataset import FrameGroundTruth

            gt = FrameGroundTruth(f2["t"], str(f2["index"]), [make_object2d(g, f2["t"]) for g in f2["gts"]])
            ests = [make_object2d(e, f2["t"]) for e in f2["ests"]]
        else:
            gt = MC.make_gt_frame(f2, case["frame"])
            ests = MC.make_estimates(f2, case["frame"])
        crit = MC.critical_cfg(mgr, crit_spec(fr.get("crit", case["crit"]), n), targets=crit_targets)
        try:
            r = mgr.add_frame_result(f2["t"], gt, ests, crit, MC.passfail_cfg(mgr, case["pf"], targets=case["targets"]))
        except KeyError as e:
            return {"error": f"KeyError: {e}", "at_frame": len(frames), "frames": frames}
        except (AttributeError, TypeError, IndexError, ValueError, AssertionError) as e:     # a (mutated) evaluator may raise: an observation
            return {"error": f"{type(e).__name__}: {e}", "at_frame": len(frames), "frames": frames}
        res = []
        for x in r.object_results:
            eo, go = x.estimated_object, x.ground_truth_object
            e = e_ids.setdefault(eo.uuid, len(e_ids))
            if go is None:
                res.append([e, eo.semantic_label.label.value, None])
            else:
                g = g_ids.setdefault(go.uuid, len(g_ids))
                res.append([e, eo.semantic_label.label.value,
                            [g, go.semantic_label.label.value, bool(go.semantic_label.is_fp()), bool(x.is_label_correct)]
                            + [_mval(x.get_matching(modes[k])) for k, _, _ in MODE_ORDER]])
        frames.append({"results": res, "gts": [g.semantic_label.label.value for g in r.frame_ground_truth.objects],
                       "bl": [l.value for l in crit.target_labels], "scores": score_obs(r.metrics_score),
                       "num_gt": int(r.metrics_score.num_ground_truth),
                       "n_in": [len(fr["ests"]), len(fr["gts"])]})
    sc = mgr.get_scene_result()
    return {"frames": frames, "scene": {"scores": score_obs(sc), "num_gt": int(sc.num_ground_truth)},
            "tl": [l.value for l in mgr.target_labels], "n_frame_results": len(mgr.frame_results)}


# ------------------------------------------------------------------------------------------------
# Coq literals
# ------------------------------------------------------------------------------------------------
def _lab(name):
    return f"{LABEL_IDX[name]}%nat"


def coq_pres(r):
    e, el, g = r
    if g is None:
        gt = "None"
    else:
        gid, gl, isfp, labok, c, i2, i3, p = g
        gt = f"(Some (mkPG {gid} {LABEL_IDX[gl]} {blit(isfp)} {blit(labok)} {qlit(c)} {qlit(i2)} {qlit(i3)} {qlit(p)}))"
    return f"(mkPR {e} {LABEL_IDX[el]} {gt})"


def coq_frame(f):
    return f"(mkF {llit([_lab(l) for l in f['bl']])} {llit([coq_pres(r) for r in f['results']])} {llit([_lab(l) for l in f['gts']])})"


def coq_cfg(case):
    # tracking2d: the configured IoU-3D / plane-distance lists yield no score -- the model is run with them empty
    skip = ("iou3d", "plane") if case.get("dim") == "2d" else ()
    parts = [llit([llit([qlit(t) for t in thr]) for thr in ([] if k in skip else case["cfg"][k])]) for k, _, _ in MODE_ORDER]
    return "(mkCfg " + " ".join(parts) + ")"


def coq_sobs(scores):
    out = []
    for s in scores:
        cl = [f"(mkO {c['predict_num']} {qlit(c['tp'])} {qlit(c['fp'])} {c['id_switch']} {qlit(c['tp_matching_score'])} "
              f"{olit(c['MOTA'], qlit)} {olit(c['MOTP'], qlit)} {c['num_gt']})" for c in s["clears"]]
        out.append(f"(mkS {llit(cl)} {olit(s['sum'][0], qlit)} {olit(s['sum'][1], qlit)} {s['sum'][2]})")
    return llit(out)


def coq_run_term(case, obs):
    if "error" in obs:
        return "false"
    tl = llit([_lab(l) for l in case["targets"]])
    names = [f"f{i}" for i in range(len(obs["frames"]))]
    lets = "".join(f"let {n} := {coq_frame(f)} in " for n, f in zip(names, obs["frames"]))
    fobs = llit([f"({coq_sobs(f['scores'])}, {f['num_gt']}%nat)" for f in obs["frames"]])
    return (f"({lets}check_run {tl} {coq_cfg(case)} {llit(names)} {fobs} {coq_sobs(obs['scene']['scores'])} {obs['scene']['num_gt']}%nat)")


# ------------------------------------------------------------------------------------------------
# the direct property predicate (independent of the Coq model, of CLEAR and of is_result_correct)
# ------------------------------------------------------------------------------------------------
def _labok(policy, el, gl):
    """policy: "DEFAULT" | "ALLOW_UNKNOWN" | "ALLOW_ANY" (or the legacy bool allow_matching_unknown)"""
    if isinstance(policy, bool):
        policy = "ALLOW_UNKNOWN" if policy else "DEFAULT"
    if gl == "false_positive" or policy == "ALLOW_ANY":
        return True
    if policy == "ALLOW_UNKNOWN":
        return el == gl or el == "unknown"
    return el == gl


def _bucket_label(r, bl):
    if r[1] in bl:
        return r[1]
    return r[2][1] if r[2] is not None else None


def o_bucket(results, bl, L):
    return [r for r in results if _bucket_label(r, bl) == L]


def _thr_label(r):
    return r[2][1] if r[2] is not None else r[1]


def _value(r, mi):
    return r[2][4 + mi]


def _correct(r, mi, thr, allow_unknown):
    if r[2] is None:
        return False
    v = _value(r, mi)
    b = v < thr if MODE_ORDER[mi][0] in DIST else v > thr
    if r[2][1] == "false_positive":
        return not b
    return b and _labok(allow_unknown, r[1], r[2][1])


def _unique(frame):
    ek = [(r[0], r[1]) for r in frame]
    gk = [r[2][0] for r in frame if r[2] is not None]
    return len(set(ek)) == len(ek) and len(set(gk)) == len(gk)


def recount(history, L, mi, thr, allow_unknown, own):
    """TP / FP / switches / assigned score of label L over a history of buckets, from the property text:
    every result of the evaluated label in every frame after the first is exactly one of TP / FP; TP = correct, or
    continues the pairing (estimated uuid+label, ground-truth uuid) of a TP of the previous frame (then with the
    previous score); a switch is counted for a new TP whose pairing differs from the pairing a previous TP had.
    own=False: a previous result is a TP when it is correct by this label's threshold (what CLEAR does);
    own=True: additionally it must itself be a result of the evaluated label (known finding F14's other reading)."""
    tp = fp = sw = n_eval = 0
    score = 0.0
    for i in range(1, len(history)):
        prev, cur = history[i - 1], history[i]
        prev_tp = [p for p in prev if _correct(p, mi, thr, allow_unknown) and (not own or _thr_label(p) == L)]
        for r in cur:
            if _thr_label(r) != L:
                continue
            n_eval += 1
            cont = [p for p in prev_tp if r[2] is not None and (p[0], p[1], p[2][0]) == (r[0], r[1], r[2][0])]
            if cont:
                tp += 1
                score += _value(cont[0], mi)
            elif _correct(r, mi, thr, allow_unknown):
                tp += 1
                score += _value(r, mi)
                if r[2] is not None and any(((p[0], p[1]) == (r[0], r[1])) != (p[2][0] == r[2][0]) for p in prev_tp):
                    sw += 1
            else:
                fp += 1
    return tp, fp, sw, score, n_eval


def _close(a, b):
    if a is None or b is None:
        return a is None and b is None
    if isinstance(a, str) or isinstance(b, str):
        return False
    return abs(a - b) <= EPS * max(1.0, abs(a), abs(b))


def expected_specs(case):
    """[(mode index, reported mode name, threshold list)] in the order evaluate_tracking must produce"""
    out = []
    for mi, (k, name, _) in enumerate(MODE_ORDER):
        if case.get("dim") == "2d" and k in ("iou3d", "plane"):
            continue            # not defined on an image: a tracking2d evaluation has centre-distance and IoU-2D scores only
        for thr in case["cfg"][k]:
            out.append((mi, name, list(thr)))
    return out


def check_clear_obs(where, c, history, L, mi, thr, ngt, allow_unknown, tally):
    if c["types"] != ["float", "float", "int"]:
        return f"{where}: counter types changed: {c['types']}"
    tp, fp, sw, sc, mota, motp = c["tp"], c["fp"], c["id_switch"], c["tp_matching_score"], c["MOTA"], c["MOTP"]
    if "nan" in (tp, fp, sc, mota, motp):
        return f"{where}: nan in CLEAR results"
    if c["label"] != L or c["thr"] != thr:
        return f"{where}: CLEAR is for ({c['label']}, {c['thr']}) but the configuration says ({L}, {thr})"
    n_pred = sum(len(f) for f in history[1:])
    if c["predict_num"] != n_pred:
        return f"{where}: predict_num {c['predict_num']} but the label's buckets after the first frame hold {n_pred} results"
    if c["num_gt"] != ngt:
        return f"{where}: num_ground_truth {c['num_gt']} but {ngt} critical ground truths of that label"
    a = recount(history, L, mi, thr, allow_unknown, own=False)
    b = recount(history, L, mi, thr, allow_unknown, own=True)
    if tp + fp != a[4]:
        return f"{where}: TP+FP = {tp}+{fp} but {a[4]} results of the evaluated label after the first frame (each counts exactly once)"
    if a[4] != n_pred and "_known" not in tally and finding_listed(CROSS_CLASS):
        cross = [r for f in history[1:] for r in f if _thr_label(r) != L and r[2] is not None and r[2][1] != "false_positive"]
        if cross:
            tally["_known"] = (f"{CROSS_PREFIX}{where}: {n_pred} results in the label's buckets after the first frame but TP+FP = {tp}+{fp}: "
                               f"{len(cross)} estimate(s) of label {L} paired with a ground truth of another label are neither TP nor FP of any CLEAR")
    if all(_unique(f) for f in history):
        if (tp, fp, sw) != a[:3] and (tp, fp, sw) != b[:3]:
            return f"{where}: (tp, fp, id_switch) = ({tp}, {fp}, {sw}) but the definitions give {a[:3]}"
        if not _close(sc, a[3] if (tp, fp, sw) == a[:3] else b[3]):
            return f"{where}: tp_matching_score {sc} but the assigned scores of the TPs sum to {a[3]}"
        if a[:3] != b[:3]:
            tally["prev_tp_reading_differs"] = tally.get("prev_tp_reading_differs", 0) + 1
    want_mota = None if ngt == 0 else max(0.0, (tp - fp - sw) / ngt)
    if not _close(mota, want_mota):
        return f"{where}: MOTA {mota} != max(0, (TP-FP-IDsw)/GT) = {want_mota} (tp={tp} fp={fp} sw={sw} gt={ngt})"
    want_motp = None if tp == 0 else sc / tp
    if not _close(motp, want_motp):
        return f"{where}: MOTP {motp} != sum of TP scores / TP = {want_motp}"
    return None


def check_sum_obs(where, s):
    mota, motp, sw = s["sum"]
    if "nan" in (mota, motp):
        return f"{where}: nan in _sum_clear"
    cl = s["clears"]
    if sw != sum(c["id_switch"] for c in cl):
        return f"{where}: total id switches {sw} != sum over labels"
    ngt = sum(c["num_gt"] for c in cl)
    ntp = sum(c["tp"] for c in cl)
    num = sum(max(0.0, c["tp"] - c["fp"] - c["id_switch"]) for c in cl if c["num_gt"] > 0)
    if not _close(mota, None if ngt == 0 else num / ngt):
        return f"{where}: total MOTA {mota} != ground-truth-weighted mean of the label MOTAs {None if ngt == 0 else num / ngt}"
    want = None if ntp == 0 else sum(c["tp_matching_score"] for c in cl) / ntp
    if not _close(motp, want):
        return f"{where}: total MOTP {motp} != sum of TP scores / number of TPs = {want}"
    if not s["str_ok"]:
        return f"{where}: str(TrackingMetricsScore) failed"
    return None


def check_scores_obs(where, scores, case, hist_of, ngt_of, tally):
    specs = expected_specs(case)
    if len(scores) != len(specs):
        return f"{where}: {len(scores)} tracking scores but {len(specs)} configured (mode, threshold list) pairs"
    for k, (s, (mi, name, thrs)) in enumerate(zip(scores, specs)):
        if s["mode"] != name:
            return f"{where}: tracking_scores[{k}] is {s['mode']} but the configured order gives {name}"
        if len(s["clears"]) != len(case["targets"]):
            return f"{where}: one CLEAR per target label expected"
        for j, (c, L, thr) in enumerate(zip(s["clears"], case["targets"], thrs)):
            msg = check_clear_obs(f"{where} tracking_scores[{k}].clears[{j}] ({name}, {L})", c, hist_of(L), L, mi, thr, ngt_of(L),
                                  policy_of(case), tally)
            if msg:
                return msg
        msg = check_sum_obs(f"{where} tracking_scores[{k}]", s)
        if msg:
            return msg
    return None


def same_scores(a, b):
    """first difference between two score observations (None: all numbers agree)"""
    for k, (x, y) in enumerate(zip(a, b)):
        for j, (c, d) in enumerate(zip(x["clears"], y["clears"])):
            for key in ("predict_num", "tp", "fp", "id_switch", "num_gt"):
                if c[key] != d[key]:
                    return f"tracking_scores[{k}].clears[{j}].{key}: {c[key]} -> {d[key]}"
            for key in ("tp_matching_score", "MOTA", "MOTP"):
                if not _close(c[key], d[key]):
                    return f"tracking_scores[{k}].clears[{j}].{key}: {c[key]} -> {d[key]}"
        if x["sum"][2] != y["sum"][2] or not _close(x["sum"][0], y["sum"][0]) or not _close(x["sum"][1], y["sum"][1]):
            return f"tracking_scores[{k}]._sum_clear(): {x['sum']} -> {y['sum']}"
    if len(a) != len(b):
        return "number of tracking scores"
    return None


def oracle_history(case, obs, tally=None):
    tally = {} if tally is None else tally
    if "error" in obs:
        if not obs["error"].startswith("KeyError"):
            return f"add_frame_result raised on a legitimate {'tracking2d' if case.get('dim') == '2d' else 'tracking'} history (frame {obs['at_frame']}: {obs['error']})"
        return f"{KEYERROR_MSG} (frame {obs['at_frame']}: {obs['error']})"
    frames = obs["frames"]
    if obs["n_frame_results"] != len(frames):
        return f"manager.frame_results holds {obs['n_frame_results']} results after {len(frames)} add_frame_result calls"
    tl = case["targets"]
    if obs["tl"] != tl:
        return f"manager.target_labels {obs['tl']} != configured {tl}"
    # frame level: the two-frame history [bucket(previous frame), bucket(this frame)], bucketed with this frame's
    # critical target labels; first frame: the empty predecessor
    for i, f in enumerate(frames):
        prev = frames[i - 1]["results"] if i > 0 else []
        bl = f["bl"]
        msg = check_scores_obs(f"frame {i}", f["scores"], case, lambda L: [o_bucket(prev, bl, L), o_bucket(f["results"], bl, L)],
                               lambda L: sum(1 for g in f["gts"] if g == L), tally)
        if msg:
            return msg
        want = sum(1 for g in f["gts"] if g in bl)
        if f["num_gt"] != want:
            return f"frame {i}: MetricsScore.num_ground_truth {f['num_gt']} but {want} critical ground truths of the target labels"
    # scene level: [[]] + the buckets of every frame, ground truths summed
    sc = obs["scene"]
    msg = check_scores_obs("scene", sc["scores"], case, lambda L: [[]] + [o_bucket(f["results"], tl, L) for f in frames],
                           lambda L: sum(1 for f in frames for g in f["gts"] if g == L), tally)
    if msg:
        return msg
    want = sum(1 for f in frames for g in f["gts"] if g in tl)
    if sc["num_gt"] != want:
        return f"scene: MetricsScore.num_ground_truth {sc['num_gt']} but the frames hold {want} critical ground truths of the target labels"
    # scene = sum of the frames (stated on the implementation's numbers only)
    if all(set(f["bl"]) == set(tl) for f in frames):
        for k, s in enumerate(sc["scores"]):
            for j, c in enumerate(s["clears"]):
                for key in ("tp", "fp", "id_switch", "predict_num", "num_gt"):
                    tot = sum(f["scores"][k]["clears"][j][key] for f in frames)
                    if c[key] != tot:
                        return (f"scene tracking_scores[{k}].clears[{j}].{key} = {c[key]} but the frame-level values "
                                f"{[f['scores'][k]['clears'][j][key] for f in frames]} sum to {tot}")
                tot = sum(f["scores"][k]["clears"][j]["tp_matching_score"] for f in frames)
                if not _close(c["tp_matching_score"], tot):
                    return f"scene tracking_scores[{k}].clears[{j}].tp_matching_score = {c['tp_matching_score']} but the frame-level values sum to {tot}"
    # renaming of track ids
    rn = obs.get("renamed")
    if rn is not None:
        if "error" in rn:
            return f"{KEYERROR_MSG} (renamed history, frame {rn['at_frame']}: {rn['error']})"
        for i, (f, g) in enumerate(zip(frames, rn["frames"])):
            d = same_scores(f["scores"], g["scores"])
            if d:
                return f"renaming track ids consistently changes frame {i} {d}"
        d = same_scores(sc["scores"], rn["scene"]["scores"])
        if d:
            return f"renaming track ids consistently changes scene {d}"
    exp = case.get("expect")
    if exp:
        c = sc["scores"][0]["clears"][exp.get("label_index", 0)]
        for key, v in exp.items():
            if key in ("label_index", "shape"):
                continue
            if not _close(None if c[key] is None else float(c[key]), None if v is None else float(v)):
                return f"{exp.get('shape', 'shape')}: expected scene {key} = {v} for {c['label']}, got {c[key]}"
    return tally.get("_known")


# ------------------------------------------------------------------------------------------------
# generators
# ------------------------------------------------------------------------------------------------
TARGET_SETS = [["car", "bicycle", "pedestrian", "motorbike"], ["car", "pedestrian"], ["pedestrian", "car", "bicycle"], ["car"]]
OFFSETS = [(0.0, 0.0), (0.25, 0.0), (0.0, 0.5), (0.375, 0.5), (0.75, 1.0), (0.0, 1.0), (1.5, 2.0), (3.0, 4.0), (0.5, -0.25)]
EGO0 = {"t": [0.0, 0.0, 0.0], "cs": (1.0, 0.0)}


def gen_cfg(rng, n, rich=True):
    def thr(pool):
        # every tenth entry: the falsy-but-valid 0 (no distance is below it: every result of that label is an FP; every overlap is above it)
        return [0.0 if (rich and rng.random() < 0.1) else rng.choice(pool) for _ in range(n)]

    d = {"center": [thr([0.5, 1.0, 1.25, 2.0])], "iou2d": [thr([0.25, 0.5, 0.75])], "iou3d": [thr([0.25, 0.5])], "plane": [thr([1.0, 2.0, 3.0])]}
    if rich:
        if rng.random() < 0.6:
            d["center"].append(thr([1.0, 2.0, 4.0]))
        if rng.random() < 0.2:
            d["iou2d"].append(thr([0.125, 0.5]))
        if rng.random() < 0.2:
            d["plane"] = []
        if rng.random() < 0.15:
            d["iou3d"] = []
    return d


def _obj(label, pos, uuid, size=(2.0, 4.0, 2.0), yaw_cs=(1.0, 0.0), conf=0.5, points=10):
    return {"label": label, "pos": [float(pos[0]), float(pos[1]), float(pos[2]) if len(pos) > 2 else 0.0], "size": list(size),
            "yaw_cs": list(yaw_cs), "uuid": uuid, "conf": conf, "points": points}


def _frame(i, gts, ests, ego=None, crit=None):
    fr = {"index": i, "t": 1000000 + 100000 * i, "gts": gts, "ests": ests, "ego": ego or dict(EGO0)}
    if crit is not None:
        fr["crit"] = crit
    return fr


def _case(stream, frames, targets=None, cfg=None, frame="base_link", unknown=True, crit=1, pf=1.0, rename=False, **kw):
    targets = list(targets or TARGET_SETS[0])
    n = len(targets)
    cfg = cfg or {"center": [[1.0] * n, [2.0] * n], "iou2d": [[0.5] * n], "iou3d": [[0.5] * n], "plane": [[2.0] * n]}
    d = {"stream": stream, "frame": frame, "targets": targets, "unknown": unknown, "cfg": cfg, "crit": crit, "pf": pf, "frames": frames,
         "rename": rename}
    d.update(kw)
    return d


def gen_random_scene(rng, tier):
    targets = list(rng.choice(TARGET_SETS))
    n = len(targets)
    unknown = rng.random() < 0.75
    n_frames = rng.randint(2, 8 if tier == "quick" else 14)
    crowded = rng.random() < 0.25
    pool_gt = targets * 4 + ["false_positive"] * 2 + ["truck"]
    pool_est = targets * 3 + ["unknown"]
    next_id = [0, 0]

    def new_g():
        next_id[0] += 1
        return f"g{next_id[0] - 1}"

    def new_e():
        next_id[1] += 1
        return f"t{next_id[1] - 1}"

    tracks = []
    spurious = []
    frames = []

    def birth():
        lab = rng.choice(pool_gt)
        if crowded:
            pos = [rng.randint(-24, 24) / 4, rng.randint(-24, 24) / 4, 0.0]
        else:
            pos = [8.0 * rng.randint(-4, 4) + rng.randint(-8, 8) / 8, 8.0 * rng.randint(-4, 4) + rng.randint(-8, 8) / 8, rng.randint(-4, 4) / 8]
        if rng.random() < 0.06:
            pos[0] += rng.choice([120.0, 40.0])          # beyond the manager's / the critical filter's range
        el = lab if lab != "false_positive" else rng.choice(pool_est)
        if rng.random() < 0.12:
            el = rng.choice(pool_est)
        tracks.append({"g": new_g(), "gl": lab, "pos": pos, "vel": [rng.randint(-4, 4) / 8, rng.randint(-4, 4) / 8],
                       "size": [rng.randint(8, 24) / 8, rng.randint(8, 40) / 8, rng.randint(8, 16) / 8], "yaw": rng.choice(MC.CIRCLE),
                       "e": new_e(), "el": el, "has_est": rng.random() < 0.9, "points": rng.choice([1, 5, 50])})

    for fi in range(n_frames):
        tracks = [t for t in tracks if rng.random() > 0.07]
        while len(tracks) < 7 and rng.random() < (0.75 if fi == 0 else 0.2):
            birth()
        for t in tracks:
            t["pos"] = [t["pos"][0] + t["vel"][0], t["pos"][1] + t["vel"][1], t["pos"][2]]
            if rng.random() < 0.08:
                t["e"] = new_e()                          # a new id on a continuing target
            if rng.random() < 0.04:
                t["el"] = rng.choice(pool_est)            # the tracker changes its mind about the class
        if len(tracks) >= 2 and rng.random() < 0.2:       # identity swap
            a, b = rng.sample(range(len(tracks)), 2)
            tracks[a]["e"], tracks[b]["e"] = tracks[b]["e"], tracks[a]["e"]
        gts, ests = [], []
        for t in tracks:
            if rng.random() > 0.08:                       # ground truth present in this frame
                gts.append(_obj(t["gl"], t["pos"], t["g"], t["size"], t["yaw"], points=t["points"]))
            if t["has_est"] and rng.random() > 0.15:      # track gap otherwise
                dx, dy = rng.choice(OFFSETS[:6] if rng.random() < 0.75 else OFFSETS)
                same = rng.random() < 0.7
                ests.append(_obj(t["el"], [t["pos"][0] + dx, t["pos"][1] + dy, t["pos"][2]], t["e"],
                                 t["size"] if same else [1.0, 2.0, 1.5], t["yaw"] if same else rng.choice(MC.CIRCLE)))
        spurious = [s for s in spurious if rng.random() > 0.3]
        while len(spurious) < 2 and rng.random() < 0.25:
            spurious.append({"e": new_e(), "el": rng.choice(pool_est), "pos": [rng.randint(-300, 300) / 8, rng.randint(-300, 300) / 8, 0.0]})
        for s in spurious:
            ests.append(_obj(s["el"], s["pos"], s["e"], (1.0, 2.0, 1.5)))
        if rng.random() < 0.05:
            ests = []
        if rng.random() < 0.04:
            gts = []
        rng.shuffle(ests)
        rng.shuffle(gts)
        ego = {"t": [rng.randint(-800, 800) / 8, rng.randint(-800, 800) / 8, rng.randint(-16, 16) / 8], "cs": list(rng.choice(MC.CIRCLE))}
        frames.append(_frame(fi, gts, ests, ego, crit=rng.randrange(N_CRIT) if rng.random() < 0.2 else None))
    k = 0
    for fr in frames:                                     # distinct confidences
        for e in fr["ests"]:
            k += 1
            e["conf"] = (k % 1000 + 1) / 1024
    crit_targets = None
    if rng.random() < 0.15:
        crit_targets = list(targets)
        rng.shuffle(crit_targets)
    return _case("random", frames, targets, gen_cfg(rng, n), frame=rng.choice(["base_link", "map"]), unknown=unknown,
                 crit=rng.randrange(N_CRIT), pf=rng.choice([0.5, 1.0, 2.0]), rename=rng.random() < 0.3, crit_targets=crit_targets)


def to_2d(case):
    """the same history as ROI objects on the front camera for a tracking2d evaluator (8 px per metre: centre-distance thresholds in pixels)"""
    c = dict(case, dim="2d", frame="base_link", stream=case["stream"] + "-2d", pf=min(case["pf"], 0.5))     # pass/fail by IoU 2D: within [0, 1]
    c["cfg"] = dict(case["cfg"], center=[[8.0 * t for t in thr] for thr in case["cfg"]["center"]])
    return c


def gen_shapes(rng, tier):
    """perfect tracker / one new id / one swap on well-separated targets: the scene totals the property text demands"""
    out = []
    for i in range(9 if tier == "quick" else 90):
        shape = ["perfect", "new-id", "swap"][i % 3]
        n_frames = rng.randint(2, 7)
        ntr = rng.randint(2, 5)
        k = rng.randint(1, n_frames - 1)
        trk = {g: f"t{g}" for g in range(ntr)}
        frames = []
        total = 0
        for fi in range(n_frames):
            if fi == k and shape == "new-id":
                trk[0] = "t100"
            if fi == k and shape == "swap":
                trk[0], trk[1] = trk[1], trk[0]
            present = [g for g in range(ntr) if g in (0, 1) or rng.random() < 0.85]
            gts = [_obj("car", [10.0 * g - 20.0 + 0.5 * fi, 4.0, 0.0], f"g{g}") for g in present]
            ests = [_obj("car", [10.0 * g - 20.0 + 0.5 * fi + rng.choice([0.0, 0.25, 0.5]), 4.0, 0.0], trk[g]) for g in present]
            rng.shuffle(ests)
            total += len(present)
            frames.append(_frame(fi, gts, ests, {"t": [rng.randint(-80, 80) / 8, 3.0, 0.0], "cs": list(rng.choice(MC.CIRCLE))}))
        exp = {"shape": shape, "label_index": 0, "fp": 0, "tp": total, "id_switch": {"perfect": 0, "new-id": 1, "swap": 2}[shape]}
        if shape == "perfect":
            exp["MOTA"] = 1.0
        out.append(_case("shape-" + shape, frames, ["car", "pedestrian"], frame=rng.choice(["base_link", "map"]), rename=(i % 2 == 0), expect=exp))
    return out


def keyerror_witness():
    """regression input of the repaired defect (repo commit 49c9006): the previous frame holds a result bucketed under a
    non-target key (unknown estimate on an FP-labelled ground truth), the current frame does not"""
    g_fp = _obj("false_positive", [10.0, 2.0, 0.0], "gfp")
    g_car = _obj("car", [20.0, 2.0, 0.0], "gcar")
    e_unk = _obj("unknown", [10.25, 2.0, 0.0], "e0")
    e_car = _obj("car", [20.25, 2.0, 0.0], "e1")
    return _case("witness-prev-extra-bucket", [_frame(0, [g_fp, g_car], [e_unk, e_car]), _frame(1, [dict(g_car)], [dict(e_car)]),
                                                _frame(2, [dict(g_fp), dict(g_car)], [dict(e_unk), dict(e_car)])])


def gen_boundary(rng, tier):
    out = [keyerror_witness()]
    C, P, B = "car", "pedestrian", "bicycle"

    def g(label, x, y, uuid):
        return _obj(label, [x, y, 0.0], uuid)

    T2 = [C, P]
    cfg2 = {"center": [[1.0, 0.5], [2.0, 2.0]], "iou2d": [[0.5, 0.25]], "iou3d": [[0.5, 0.25]], "plane": [[2.0, 1.0]]}
    scen = []
    # empty histories / frames
    scen.append([_frame(0, [], [])])
    scen.append([_frame(0, [g(C, 5, 5, "g0")], []), _frame(1, [], [g(C, 5, 5, "t0")]), _frame(2, [], [])])
    # the same pairing beyond the threshold is carried over with the previous score; then lost (gap) and found again
    scen.append([_frame(0, [g(C, 5, 5, "g0")], [g(C, 5.5, 5, "t0")]), _frame(1, [g(C, 5, 5, "g0")], [g(C, 8, 9, "t0")]),
                 _frame(2, [g(C, 5, 5, "g0")], []), _frame(3, [g(C, 5, 5, "g0")], [g(C, 5.25, 5, "t0")])])
    # score exactly on the threshold (strict comparison), in both frames
    for d0 in (0.875, 1.0, 1.125):
        for d1 in (0.875, 1.0, 1.125):
            scen.append([_frame(0, [g(C, 5, 5, "g0"), g(P, -5, 5, "g1")], [g(C, 5 + d0, 5, "t0"), g(P, -5, 5 + d0 / 2, "t1")]),
                         _frame(1, [g(C, 5, 5, "g0"), g(P, -5, 5, "g1")], [g(C, 5 + d1, 5, "t0"), g(P, -5, 5 + d1 / 2, "t1")])])
    # new id, swap, swap back
    scen.append([_frame(0, [g(C, 5, 5, "g0"), g(C, -5, 5, "g1")], [g(C, 5, 5, "t0"), g(C, -5, 5, "t1")]),
                 _frame(1, [g(C, 5, 5, "g0"), g(C, -5, 5, "g1")], [g(C, 5, 5, "t1"), g(C, -5, 5, "t0")]),
                 _frame(2, [g(C, 5, 5, "g0"), g(C, -5, 5, "g1")], [g(C, 5, 5, "t0"), g(C, -5, 5, "t9")])])
    # the estimate keeps its uuid but changes its label; two estimates share a uuid across labels
    scen.append([_frame(0, [g(C, 5, 5, "g0"), g(P, -5, 5, "g1")], [g(C, 5, 5, "t0"), g(P, -5, 5, "t0")]),
                 _frame(1, [g(C, 5, 5, "g0"), g(P, -5, 5, "g1")], [g(P, 5, 5, "t0"), g(C, -5, 5, "t0")]),
                 _frame(2, [g(C, 5, 5, "g0"), g(P, -5, 5, "g1")], [g(C, 5, 5, "t0"), g(P, -5, 5, "t0")])])
    # cross-label pair from the second matching stage (car estimate on the pedestrian), unknown estimate on a car,
    # unknown estimate without ground truth (dropped by divide_objects)
    scen.append([_frame(0, [g(P, 5, 5, "g0")], [g(C, 5.25, 5, "t0")]), _frame(1, [g(P, 5, 5, "g0"), g(C, 9, 9, "g1")], [g(C, 5.25, 5, "t0")]),
                 _frame(2, [g(C, 9, 9, "g1")], [g(C, 9, 9, "t0")])])
    scen.append([_frame(0, [g(C, 5, 5, "g0")], [g("unknown", 5.25, 5, "t0"), g("unknown", 20, 20, "t1")]),
                 _frame(1, [g(C, 5, 5, "g0")], [g("unknown", 5.25, 5, "t0"), g("unknown", 20, 20, "t1")]),
                 _frame(2, [g(C, 5, 5, "g0")], [g(C, 5.25, 5, "t0")])])
    # FP-labelled ground truths: estimate near / far; a car estimate first on the FP-labelled ground truth, then on a car
    scen.append([_frame(0, [g("false_positive", 5, 5, "g0")], [g(C, 5.25, 5, "t0")]), _frame(1, [g("false_positive", 5, 5, "g0")], [g(C, 9, 8, "t0")]),
                 _frame(2, [g("false_positive", 5, 5, "g0"), g(C, 9, 8, "g1")], [g(C, 9, 8, "t0")])])
    scen.append([_frame(0, [g("false_positive", 5, 5, "g0"), g(C, -9, 8, "g1")], [g("unknown", 5, 5, "t0"), g(C, -9, 8, "t1")]),
                 _frame(1, [g(C, -9, 8, "g1")], [g(C, -9, 8, "t1")]), _frame(2, [g("false_positive", 5, 5, "g0")], [g("unknown", 5, 5, "t0")])])
    # outside the manager's range (x > 100) and outside the critical range (crit 0: 30 m), non-target ground truth
    scen.append([_frame(0, [g(C, 5, 5, "g0"), g(C, 120, 5, "g1"), g("truck", 0, 9, "g2")], [g(C, 5, 5, "t0"), g(C, 120, 5, "t1"), g("truck", 0, 9, "t2")], crit=0),
                 _frame(1, [g(C, 5, 5, "g0"), g(C, 40, 5, "g1")], [g(C, 5, 5, "t0"), g(C, 40, 5, "t1")], crit=0),
                 _frame(2, [g(C, 5, 5, "g0"), g(C, 29, 5, "g1")], [g(C, 5, 5, "t0"), g(C, 29, 5, "t1")], crit=0)])
    # ONE ground-truth uuid carried by two annotations of the previous frame (a duplicated annotation), each matched by its own track and both
    # within the threshold: the current result of that ground truth has two previous TP results with its ground-truth id; then a frame without
    # estimates and a frame without anything in between
    scen.append([_frame(0, [g(C, 5, 5, "g0"), g(C, -5, 5, "g0")], [g(C, 5.25, 5, "t0"), g(C, -5, 5.5, "t1")]),
                 _frame(1, [g(C, 5, 5, "g0")], [g(C, 5, 5, "t0")]),
                 _frame(2, [g(C, 5, 5, "g0"), g(C, -5, 5, "g0")], [g(C, 5.25, 5, "t1"), g(C, -5, 5.5, "t0")]),
                 _frame(3, [g(C, 5, 5, "g0")], []), _frame(4, [], []),
                 _frame(5, [g(C, 5, 5, "g0"), g(C, -5, 5, "g0")], [g(C, 5.25, 5, "t1"), g(C, -5, 5.5, "t0")]),
                 _frame(6, [g(C, 5, 5, "g0")], [g(C, 5, 5, "t1")])])
    for fr in scen:
        for frame in ("base_link", "map"):
            for unknown in (True, False):
                out.append(_case("boundary", [dict(f, ego={"t": [3.0, -2.0, 0.5], "cs": [0.6, 0.8]}) for f in fr] if frame == "map" else fr,
                                 T2, cfg2, frame=frame, unknown=unknown, rename=True))
    # the label policy given by the documented key: ALLOW_ANY makes the cross-label pairs label-compatible; and the 2D evaluator
    for fr in (scen[12], scen[13], scen[14], scen[15], scen[16]):
        out.append(_case("boundary", fr, T2, cfg2, policy="ALLOW_ANY", rename=True))
        out.append(_case("boundary", fr, T2, cfg2, policy="DEFAULT", unknown=True))
        out.append(to_2d(_case("boundary", fr, T2, cfg2, rename=True)))
    # critical target labels given in another order than the evaluator's
    out.append(_case("boundary", scen[4], T2, cfg2, crit_targets=[P, C]))
    # a single configured score, three labels with three thresholds
    out.append(_case("boundary", scen[4], [P, C, B], {"center": [[0.5, 1.0, 2.0]], "iou2d": [], "iou3d": [], "plane": []}))
    return out


# ------------------------------------------------------------------------------------------------
# the correspondence
# ------------------------------------------------------------------------------------------------
HEADER = ("From Coq Require Import List Bool Arith ZArith QArith.\n"
          "From PE Require Import Base.QUtil Base.CaseUtil Model.Clear Model.TrackingPipeline.\n"
          "Import ListNotations.\nOpen Scope Q_scope.\n")


def _ren_maps(case):
    a = 3 + len(case["frames"]) % 4
    return (lambda u: f"track-{a * int(u[1:]) + 1}" if u[1:].isdigit() else "track-" + u, lambda u: f"gt-{(a + 1) * int(u[1:]) + 2}" if u[1:].isdigit() else "gt-" + u)


class TrackingPipelineCorr(Corr):
    """manager (tracking task): frame_result.metrics_score.tracking_scores, get_scene_result().tracking_scores
    vs  Model.TrackingPipeline.run_frames / scene_tracking"""
    name = "tracking_pipeline"
    header = HEADER
    requires = ["Model/TrackingPipeline.vo", "Model/Clear.vo", "Base/CaseUtil.vo"]
    shard = 10
    parallel_min = 4

    def cases(self, tier, rng):
        out = gen_boundary(rng, tier) + gen_shapes(rng, tier)
        for k in range(100 if tier == "quick" else 1200):
            c = gen_random_scene(rng, tier)
            if k % 5 == 2:
                # the label policy through the documented `matching_label_policy` key (ALLOW_ANY is not reachable through the legacy switch)
                c["policy"] = rng.choice(["ALLOW_ANY", "ALLOW_ANY", "ALLOW_UNKNOWN", "DEFAULT"])
            if k % 7 == 3:
                c = to_2d(c)
            out.append(c)
        return out

    def run_impl(self, case):
        try:
            obs = run_history(case)
            if case.get("rename") and "error" not in obs:
                rn = run_history(case, ren=_ren_maps(case), tag="trkren")
                obs["renamed"] = rn if "error" in rn else {"frames": [{"scores": f["scores"]} for f in rn["frames"]], "scene": rn["scene"]}
            return obs
        finally:
            MC.cleanup_tmp()

    def coq_term(self, case, obs):
        return coq_run_term(case, obs)

    def coq_debug(self, case, obs):
        if "error" in obs:
            return None
        tl = llit([_lab(l) for l in case["targets"]])
        fr = llit([coq_frame(f) for f in obs["frames"]])
        return f"(let r := run_frames {tl} {coq_cfg(case)} [] {fr} in (snd r, scene_tracking {tl} {coq_cfg(case)} (fst r)))"

    def oracle(self, case, obs):
        return oracle_history(case, obs)

    def nontrivial(self, case, obs):
        if "error" in obs or "frames" not in obs:
            return False
        return len(obs["frames"]) >= 2 and any(c["tp"] + c["fp"] > 0 for s in obs["scene"]["scores"] for c in s["clears"])

    def describe(self, case, obs):
        d = {"case": {k: v for k, v in case.items() if k != "frames"}}
        d["case"]["frames"] = [{"n_gt": len(f["gts"]), "n_est": len(f["ests"]), "ego": f.get("ego")} for f in case["frames"]]
        if "error" in obs:
            d["observed"] = obs["error"]
        else:
            d["observed"] = {"scene_first_score": obs["scene"]["scores"][:1], "results_per_frame": [len(f["results"]) for f in obs["frames"]]}
        return d

    def distribution(self, cases, obs):
        d = {"streams": {}, "frames": {"base_link": 0, "map": 0}, "frames_total": 0, "frames_max": 0, "results_total": 0, "scores_per_metrics_score": {},
             "id_switches_scene": 0, "fp_scene": 0, "tp_scene": 0, "frame_label_gaps": 0, "results_without_gt": 0, "results_on_fp_gt": 0,
             "unknown_estimates_bucketed_by_gt": 0, "cross_label_pairs_skipped_by_clear": 0, "dropped_by_divide": 0,
             "estimates_filtered_out": 0, "renamed_runs": 0, "tracking2d_histories": 0, "label_policy_key": {}, "mota_inf": 0, "mota_clamped": 0, "non_target_bucket_keys": 0}
        tally = {}
        for c, o in zip(cases, obs):
            if not isinstance(o, dict) or "frames" not in o or "error" in o:
                continue
            d["streams"][c["stream"]] = d["streams"].get(c["stream"], 0) + 1
            d["frames"][c["frame"]] += 1
            d["frames_total"] += len(o["frames"])
            d["frames_max"] = max(d["frames_max"], len(o["frames"]))
            d["renamed_runs"] += o.get("renamed") is not None
            d["tracking2d_histories"] += c.get("dim") == "2d"
            d["histories_with_a_threshold_of_exactly_0"] = d.get("histories_with_a_threshold_of_exactly_0", 0) + any(0 in t for l in c["cfg"].values() for t in l)
            d["frames_without_estimates"] = d.get("frames_without_estimates", 0) + sum(1 for f in c["frames"] if not f["ests"])
            if c.get("policy"):
                d["label_policy_key"][c["policy"]] = d["label_policy_key"].get(c["policy"], 0) + 1
            ns = len(o["scene"]["scores"])
            d["scores_per_metrics_score"][ns] = d["scores_per_metrics_score"].get(ns, 0) + 1
            for s in o["scene"]["scores"][:1]:
                for cl in s["clears"]:
                    d["id_switches_scene"] += cl["id_switch"]
                    d["fp_scene"] += int(cl["fp"])
                    d["tp_scene"] += int(cl["tp"])
                    d["mota_inf"] += cl["MOTA"] is None
                    d["mota_clamped"] += (cl["MOTA"] == 0.0 and cl["tp"] - cl["fp"] - cl["id_switch"] < 0)
            for i, f in enumerate(o["frames"]):
                d["results_total"] += len(f["results"])
                d["estimates_filtered_out"] += f["n_in"][0] - len(f["results"])
                for r in f["results"]:
                    b = _bucket_label(r, f["bl"])
                    d["results_without_gt"] += r[2] is None
                    d["results_on_fp_gt"] += r[2] is not None and r[2][2]
                    d["dropped_by_divide"] += b is None
                    d["unknown_estimates_bucketed_by_gt"] += (r[1] not in f["bl"] and b is not None)
                    d["cross_label_pairs_skipped_by_clear"] += (b is not None and b in f["bl"] and _thr_label(r) != b)
                    d["non_target_bucket_keys"] += (b is not None and b not in f["bl"])
                if i > 0:
                    for L in c["targets"]:
                        d["frame_label_gaps"] += (not o_bucket(f["results"], f["bl"], L)) and bool(o_bucket(o["frames"][i - 1]["results"], f["bl"], L))
            oracle_history(c, o, tally)
        tally.pop("_known", None)
        d.update(tally)
        return d


# ------------------------------------------------------------------------------------------------
# metadata for the property that hosts this correspondence
# ------------------------------------------------------------------------------------------------
LEVEL_TEXT = ("Tracking glue (Props/C05Pipeline.v, closed under the global context), for ALL histories of frame results, all configured threshold "
              "lists and target labels: the loop model of divide_objects / evaluate_frame's tracking branch / evaluate_tracking / TrackingMetricsScore "
              "equals, per (mode, threshold list) and label L, CLEAR([L],[t]) of the two-frame history [bucket L (frame i-1); bucket L (frame i)] "
              "with the current frame's critical ground-truth count (first frame: empty predecessor), so every result of the bucket whose threshold "
              "label is L is exactly one of TP/FP and the skipped ones are exactly the cross-label pairs; add_frame_result threads the immediately "
              "preceding frame; get_scene_result is CLEAR of [[]; b1; ...; bn] with summed ground truths and its TP/FP/switch/result/score/ground-truth "
              "counters are the SUMS of the frame-level counters, hence scene MOTA/MOTP are the formulas on the sums; the buckets partition the object "
              "results (Permutation with the dropped ones, duplicate-free keys, d[L] = filter); under per-frame uniqueness the counters are the "
              "declarative TP/FP/switch counts; every injective renaming of estimated / ground-truth ids leaves every frame score, the scene score and "
              "the whole manager run unchanged; totals are the weighted formulas. Tie: the real manager in tracking mode on generated multi-frame "
              "histories, every frame's and the scene's tracking_scores / _sum_clear() / num_ground_truth reproduced by the model inside Coq.")
RULE = ("real PerceptionEvaluationManager(evaluation_task=tracking) on the bundled fixture; hand-built boundary histories (KeyError regression witness, "
        "empty frames, one ground-truth uuid matched by two previous results, carry-over beyond the threshold, scores exactly on the threshold, new id / swap / swap back, uuid shared across labels, cross-label "
        "pairs, unknown estimates, FP-labelled ground truths, range filters, permuted critical target labels) x {base_link, map} x {allow_matching_unknown}; "
        "tracker shapes with the totals the property text demands; random scenes of 2-8 (quick) / 2-14 (thorough) frames, <= 7 persistent ground-truth tracks "
        "with births, deaths, misses, ground-truth gaps, id changes, identity swaps, label changes, spurious and out-of-range estimates, 1-4 target labels with "
        "per-label thresholds (every tenth entry exactly 0), 1-6 configured scores, 4 critical filters (also changing per frame), random rational ego pose; a consistently renamed copy of "
        "the history is run in 35-60% of the cases; every fifth random history configures the label policy through the documented `matching_label_policy` "
        "key (ALLOW_ANY / ALLOW_UNKNOWN / DEFAULT) instead of the legacy switch; every seventh random history (and five boundary ones) is rendered as ROI "
        "objects for a tracking2d evaluator on the front camera (centre-distance thresholds in pixels; plane-distance / IoU-3D thresholds stay configured "
        "and must yield no score: exactly the centre-distance and IoU-2D scores, in that order; the model runs with the two lists empty); "
        "non-trivial = at least two frames and at least one TP or FP in the scene")
ASSUMPTIONS = ["3D tracking task: scores in the order centre distance, IoU 2D, IoU 3D, plane distance; tracking2d: centre distance, IoU 2D only "
               "(checked by the oracle and by the model run with empty IoU-3D / plane-distance lists; no separate theorem)",
               "every configured threshold list has one entry per target label (asserted by TrackingMetricsScore)",
               "the evaluated target labels are among the critical filter's target labels (otherwise the dictionary lookup fails: model None); "
               "scene = sum of frames additionally needs the same label membership in both lists and duplicate-free target labels",
               "facts (uuids, labels, is_fp, is_label_correct, get_matching(mode).value, critical ground-truth labels) are read after matching and "
               "filtering through public attributes; matching and filtering themselves are C01/C02/C10/C03"]
NOT_PROVED = ["the matcher and the filters in front of the glue (other properties); float rounding of score sums (1e-9)",
              "observation, not claimed as a violation: an estimate of target label L paired by the second matching stage with a ground truth of another "
              "label sits in bucket L but CLEAR([L]) looks up the GROUND TRUTH's label and skips it -- it is neither TP nor FP of any CLEAR "
              "(C05_pipeline_skipped_are_cross_label; tallied as cross_label_pairs_skipped_by_clear)",
              "known finding F14 is reachable through the manager with FP-labelled ground truths (tallied as prev_tp_reading_differs; the oracle accepts either reading)"]
