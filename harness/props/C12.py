"""C12 -- sensing counts exactly the points inside each box; every object classified once.

Correspondences (model Model/Winding.v + Model/Sensing.v vs the real code, compared inside Coq):
  crop     crop_pointcloud(cloud, area, inside=True/False) on lattice prisms (convex, non-convex, CW/CCW,
           horizontal edges, exotic multiply-wound rings, malformed inputs)
  box      DynamicObject.get_corners / crop_pointcloud / get_inside_pointcloud_num / point_exist, get_bbox_scale
  frame    SensingFrameResult(...).evaluate_frame(...)
  manager  SensingEvaluationManager.crop_pointcloud + add_frame_result on a manager built on the bundled fixture
Python oracles are independent of the Coq model: exact-Fraction slab inequalities in the box frame, an
even-odd crossing-number evaluator for general prisms, partition, scale monotonicity, trichotomy, and
the non-detection rule.  All cloud points are lattice points kept >= 1/8 away from every face, so that
float rounding inside numpy / pyquaternion cannot flip a decision."""
import math
import os
import shutil
from fractions import Fraction as F

from harness.lib.core import BUILD, Corr, Prop, blit, llit, olit, qlit, zlit

MARGIN2 = F(1, 64)          # squared distance 1/8 from every face
TOL = F(1, 10 ** 9)

# (w, z) of yaw-only quaternions: c = (w^2 - z^2)/(w^2 + z^2), s = 2wz/(w^2 + z^2)  (rational circle points)
YAW_WZ = [(1, 0), (1, 1), (0, 1), (1, -1),                       # axis-aligned: 0, 90, 180, -90 degrees
          (2, 1), (3, 2), (4, 1), (5, 2),                          # quadrant 1: (3,4)/5 (5,12)/13 (15,8)/17 (21,20)/29
          (1, 2), (2, 3), (1, 4), (2, 5),                          # quadrant 2
          (2, -1), (3, -2), (4, -1), (5, -2),                      # quadrant 4
          (1, -2), (2, -3), (1, -4), (2, -5),                      # quadrant 3
          (-2, -1), (-1, 2)]                                       # the other quaternion sign
TILTED = [(4, 1, 0, 2), (3, 1, 1, 2), (5, 1, -1, 2), (2, 0, 1, 1), (6, -1, 2, 3), (8, 1, 1, -4)]
VIS = ["full", "most", "partial", "none", "not available", None, "v0-40", "v60-80"]     # values and aliases as a dataset spells them
VIS_COQ = {"full": "V_FULL", "most": "V_MOST", "partial": "V_PARTIAL", "none": "V_NONE", "not available": "V_UNAVAILABLE",
           "v0-40": "V_NONE", "v60-80": "V_MOST"}

HEADER = ("From Coq Require Import List Bool ZArith QArith.\n"
          "From PE Require Import Base.QUtil Base.CaseUtil Model.Winding Model.Sensing.\n"
          "Import ListNotations.\nOpen Scope Q_scope.\n"
          "Definition P := mkPoint.\nDefinition B := mkBox.\n")
REQUIRES = ["Model/Winding.vo", "Model/Sensing.vo", "Base/CaseUtil.vo"]


# ------------------------------------------------------------------------------------------------
# exact geometry (Fractions) used by generators and oracles
# ------------------------------------------------------------------------------------------------
def rot_entries(q):
    w, x, y, z = [F(v) for v in q]
    n2 = w * w + x * x + y * y + z * z
    return ((w * w + x * x - y * y - z * z) / n2, 2 * (x * y - w * z) / n2,
            2 * (x * y + w * z) / n2, (w * w - x * x + y * y - z * z) / n2)


def is_yaw_only(q):
    return q[1] == 0 and q[2] == 0


def box_footprint(bx, k):
    """exact corners of the scaled footprint (k a Fraction), z range"""
    r00, r01, r10, r11 = rot_entries(bx["quat"])
    x, y, z = [F(v) for v in bx["pos"]]
    w, l, h = [F(v) for v in bx["size"]]
    a, b = l / 2 * k, w / 2 * k
    loc = [(a, b), (-a, b), (-a, -b), (a, -b)]
    return [(r00 * u + r01 * v + x, r10 * u + r11 * v + y) for u, v in loc], z - h / 2, z + h / 2


def seg_dist2(p, a, b):
    px, py = p
    ax, ay = a
    bx_, by_ = b
    dx, dy = bx_ - ax, by_ - ay
    l2 = dx * dx + dy * dy
    if l2 == 0:
        return (px - ax) ** 2 + (py - ay) ** 2
    t = ((px - ax) * dx + (py - ay) * dy) / l2
    t = max(F(0), min(F(1), t))
    qx, qy = ax + t * dx, ay + t * dy
    return (px - qx) ** 2 + (py - qy) ** 2


def far_from_ring(p, ring):
    """generator filter only (floats are enough: anything >= 0.124 away is as good as 1/8)"""
    px, py = float(p[0]), float(p[1])
    n = len(ring)
    rf = ring if isinstance(ring[0][0], float) else [(float(x), float(y)) for x, y in ring]
    for i in range(n):
        ax, ay = rf[i]
        bx_, by_ = rf[(i + 1) % n]
        dx, dy = bx_ - ax, by_ - ay
        l2 = dx * dx + dy * dy
        t = 0.0 if l2 == 0 else max(0.0, min(1.0, ((px - ax) * dx + (py - ay) * dy) / l2))
        qx, qy = ax + t * dx, ay + t * dy
        if (px - qx) ** 2 + (py - qy) ** 2 < 0.015624:
            return False
    return True


def crossing_inside(p, ring):
    """independent even-odd crossing-number evaluator (ray towards +x), exact"""
    px, py = p
    n = len(ring)
    odd = False
    for i in range(n):
        ax, ay = ring[i]
        bx_, by_ = ring[(i + 1) % n]
        if (ay > py) != (by_ > py):
            xi = ax + (py - ay) * (bx_ - ax) / (by_ - ay)
            if px < xi:
                odd = not odd
    return odd


def slab_inside_xy(bx, k, p):
    """slab inequalities in the box frame (yaw-only), convex same-side test otherwise; exact"""
    q = bx["quat"]
    px, py = p
    if is_yaw_only(q):
        r00, _, r10, _ = rot_entries(q)
        c, s = r00, r10
        du, dv = px - F(bx["pos"][0]), py - F(bx["pos"][1])
        u, v = c * du + s * dv, -s * du + c * dv
        return abs(u) < F(bx["size"][1]) / 2 * k and abs(v) < F(bx["size"][0]) / 2 * k
    ring, _, _ = box_footprint(bx, k)
    sg = []
    for i in range(4):
        ax, ay = ring[i]
        bx_, by_ = ring[(i + 1) % 4]
        sg.append((bx_ - ax) * (py - ay) - (by_ - ay) * (px - ax))
    return all(v > 0 for v in sg) or all(v < 0 for v in sg)


def box_inside(bx, k, row):
    """the property's notion of 'inside': footprint scaled by k, height not scaled, z range closed"""
    if not slab_inside_xy(bx, k, (F(row[0]), F(row[1]))):
        return False
    if len(row) < 3:
        return True
    z, h = F(bx["pos"][2]), F(bx["size"][2])
    return z - h / 2 <= F(row[2]) <= z + h / 2


def exact_distance(bx):
    """distance from the ego vehicle: |pos| for a BASE_LINK object, |rel| = |pos - translation of BASE_LINK->MAP| for a MAP object"""
    d2 = sum(F(v) ** 2 for v in bx.get("rel", bx["pos"]))
    n, d = math.isqrt(d2.numerator), math.isqrt(d2.denominator)
    if n * n == d2.numerator and d * d == d2.denominator:
        return F(n, d)
    return F(math.sqrt(float(d2)))


def ideal_scale(bx, s0, s100):
    return F(1, 100) * (F(s100) - F(s0)) * exact_distance(bx) + F(s0)


def ring_is_simple(ring):
    n = len(ring)

    def orient(a, b, c):
        v = (b[0] - a[0]) * (c[1] - a[1]) - (b[1] - a[1]) * (c[0] - a[0])
        return (v > 0) - (v < 0)

    def on(a, b, c):
        return min(a[0], b[0]) <= c[0] <= max(a[0], b[0]) and min(a[1], b[1]) <= c[1] <= max(a[1], b[1])

    def inter(a, b, c, d):
        o1, o2, o3, o4 = orient(a, b, c), orient(a, b, d), orient(c, d, a), orient(c, d, b)
        if o1 != o2 and o3 != o4:
            return True
        return (o1 == 0 and on(a, b, c)) or (o2 == 0 and on(a, b, d)) or (o3 == 0 and on(c, d, a)) or (o4 == 0 and on(c, d, b))

    if len(set(ring)) != n:
        return False
    for i in range(n):
        a, b = ring[i], ring[(i + 1) % n]
        if orient(ring[i - 1], a, b) == 0:
            return False
        for j in range(i + 1, n):
            if j == i or (j + 1) % n == i or (i + 1) % n == j:
                continue
            if inter(a, b, ring[j], ring[(j + 1) % n]):
                return False
    return True


# ------------------------------------------------------------------------------------------------
# generators
# ------------------------------------------------------------------------------------------------
def lat(rng, lo, hi):
    return rng.randint(int(lo * 8), int(hi * 8)) / 8.0


def gen_cloud(rng, n, rings, xr, yr, zs, ncols, extra_xy=()):
    """n distinct lattice points in the window, >= 1/8 from every ring in `rings`; z drawn from `zs`"""
    seen, rows = set(), []
    rings = [[(float(x), float(y)) for x, y in r] for r in rings]
    cand = list(extra_xy)
    tries = 0
    while len(rows) < n and tries < 6 * n + 50:
        tries += 1
        if cand:
            x, y = cand.pop()
        else:
            x, y = lat(rng, *xr), lat(rng, *yr)
        z = rng.choice(zs)
        key = (x, y, z) if ncols >= 3 else (x, y)
        if key in seen:
            continue
        if not all(far_from_ring((x, y), r) for r in rings):
            continue
        seen.add(key)
        row = [x, y]
        if ncols >= 3:
            row.append(z)
        for _ in range(ncols - 3):
            row.append(rng.randint(0, 255) / 1.0)
        rows.append(row)
    return rows


def z_values(zlo, zhi):
    zs = [zlo, zhi, zlo - 0.125, zhi + 0.125, (zlo + zhi) / 2, zlo + 0.125, zhi - 0.125, zlo - 2.0, zhi + 2.0]
    return zs + [(zlo + zhi) / 2] * 6


_POS_TABLE = {}


def gen_pos(rng, max_xy, max_z):
    """lattice position (multiples of 1/8) whose distance from the origin is rational (so that the
    distance-dependent scale factor is an exact small rational and sqrt is exact in binary64)"""
    key = (max_xy, max_z)
    if key not in _POS_TABLE:
        import numpy as np

        n, m = int(max_xy * 8), int(max_z * 8)
        X, Y, Z = np.meshgrid(np.arange(n + 1), np.arange(n + 1), np.arange(m + 1), indexing="ij")
        S = X * X + Y * Y + Z * Z
        R = np.rint(np.sqrt(S)).astype(np.int64)
        ok = np.argwhere(R * R == S)
        _POS_TABLE[key] = [tuple(int(v) for v in r) for r in ok]
    x, y, z = rng.choice(_POS_TABLE[key])
    if rng.random() < 0.5:
        x, y = y, x
    return [rng.choice([-1, 1]) * x / 8.0, rng.choice([-1, 1]) * y / 8.0, rng.choice([-1, 1]) * z / 8.0]


def gen_box(rng, kind=None):
    kind = kind or rng.choice(["yaw"] * 8 + ["tilt"])
    if kind == "tilt":
        quat = list(rng.choice(TILTED))
    else:
        w, z = rng.choice(YAW_WZ)
        quat = [w, 0, 0, z]
    pos = gen_pos(rng, 30, 2)
    if rng.random() < 0.12:
        # beyond 100 m: the documented scale law is linear in the distance everywhere (no clamping at the 100 m reference point)
        x, y, z = rng.choice([(96.0, 72.0, 0.0), (120.0, 50.0, 0.0), (0.0, 104.0, 0.0), (112.5, 60.0, 0.0), (144.0, 42.0, 0.0), (100.0, 0.0, 0.0),
                              (60.0, 80.0, 0.0), (100.0, 10.5, 0.0)])
        if rng.random() < 0.5:
            x, y = y, x
        pos = [rng.choice([-1, 1]) * x, rng.choice([-1, 1]) * y, z]
    return {"pos": pos,
            "size": [lat(rng, 0.5, 4), lat(rng, 0.5, 8), rng.choice([0.0, 0.25]) if rng.random() < 0.08 else lat(rng, 0.5, 3)],
            "quat": quat}


def window(rings, pad):
    xs = [float(x) for r in rings for x, _ in r]
    ys = [float(y) for r in rings for _, y in r]
    return (math.floor(min(xs)) - pad, math.ceil(max(xs)) + pad), (math.floor(min(ys)) - pad, math.ceil(max(ys)) + pad)


def vertex_level_points(rng, ring, xr, yr):
    """lattice points sharing y (or x) with a vertex: the half-open tests are hit with equality"""
    out = []
    for (vx, vy) in ring:
        if (vy * 8).denominator == 1:
            for _ in range(3):
                out.append((lat(rng, *xr), float(vy)))
        if (vx * 8).denominator == 1:
            out.append((float(vx), lat(rng, *yr)))
    rng.shuffle(out)
    return out


# ------------------------------------------------------------------------------------------------
# implementation side helpers
# ------------------------------------------------------------------------------------------------
def rows_to_idx(cloud, out):
    """rows of the returned array as indices into the input (order preserved); None if not a sub-array"""
    out = [list(map(float, r)) for r in out.tolist()]
    idx, j = [], 0
    for r in out:
        while j < len(cloud) and [float(v) for v in cloud[j]] != r:
            j += 1
        if j == len(cloud):
            return None
        idx.append(j)
        j += 1
    return idx


def np_cloud(rows, ncols, dtype="float64"):
    """lattice values k/8 (|k/8| < 2^20) and intensities 0..255 are exact in float32 as well as in float64"""
    import numpy as np

    if not rows:
        return np.zeros((0, ncols), dtype=dtype)
    return np.array(rows, dtype=dtype)


def as_area(vertices, inner):
    """the documented container List[Sequence[float]]: the frame evaluation passes tuples, the object path lists"""
    return [list(v) for v in vertices] if inner == "lists" else [tuple(v) for v in vertices]


def make_object(bx, vis=None, uuid=None, frame="base_link"):
    from pyquaternion import Quaternion
    from perception_eval.common.label import AutowareLabel, Label
    from perception_eval.common.object import DynamicObject
    from perception_eval.common.schema import FrameID, Visibility
    from perception_eval.common.shape import Shape, ShapeType

    q = bx["quat"]
    n = math.sqrt(sum(v * v for v in q))
    visibility = None if vis is None else Visibility.from_value(vis)
    return DynamicObject(
        unix_time=0, frame_id=FrameID.MAP if frame == "map" else FrameID.BASE_LINK, position=tuple(bx["pos"]),
        orientation=Quaternion(q[0] / n, q[1] / n, q[2] / n, q[3] / n),
        shape=Shape(ShapeType.BOUNDING_BOX, tuple(bx["size"])), velocity=(0.0, 0.0, 0.0),
        semantic_score=1.0, semantic_label=Label(AutowareLabel.CAR, "car"), uuid=uuid, visibility=visibility)


# ------------------------------------------------------------------------------------------------
# Coq literals
# ------------------------------------------------------------------------------------------------
def c_point(row):
    return f"P {qlit(row[0])} {qlit(row[1])} {llit([qlit(v) for v in row[2:]])}"


def c_cloud(rows):
    return llit([c_point(r) for r in rows])


def c_vertex(v):
    return f"({qlit(v[0])}, {qlit(v[1])}, {qlit(v[2])})"


def c_box(bx):
    r = rot_entries(bx["quat"])
    return "(B " + " ".join(qlit(v) for v in list(bx["pos"]) + list(bx["size"]) + list(r)) + ")"


def c_nats(l):
    return "(" + llit([str(int(i)) for i in l]) + "%nat)"


def c_gt(g, dist):
    vis = g.get("vis")
    return f"(mkGT {c_box(g)} {qlit(dist)} {'None' if vis is None else '(Some ' + VIS_COQ[vis] + ')'})"


def c_cfg(cfg):
    return f"(mkCfg {qlit(cfg['s0'])} {qlit(cfg['s100'])} {zlit(cfg['min_points'])})"


# ------------------------------------------------------------------------------------------------
# 1. crop_pointcloud on general prisms
# ------------------------------------------------------------------------------------------------
TEMPLATES = {
    "L": [(0, 0), (4, 0), (4, 1), (1, 1), (1, 3), (0, 3)],
    "U": [(0, 0), (5, 0), (5, 4), (4, 4), (4, 1), (1, 1), (1, 4), (0, 4)],
    "plus": [(1, 0), (2, 0), (2, 1), (3, 1), (3, 2), (2, 2), (2, 3), (1, 3), (1, 2), (0, 2), (0, 1), (1, 1)],
    "tri": [(0, 0), (4, 0), (1, 3)],
    "square": [(0, 0), (2, 0), (2, 2), (0, 2)],
    "diamond": [(2, 0), (4, 2), (2, 4), (0, 2)],
    "arrow": [(0, 0), (2, 1), (4, 0), (2, 4)],
    "zig": [(0, 0), (1, 2), (2, 0), (3, 2), (4, 0), (4, 4), (0, 4)],
}


def gen_ring(rng):
    """simple lattice polygon: scaled/translated template or a random star-shaped polygon"""
    for _ in range(50):
        if rng.random() < 0.55:
            name = rng.choice(sorted(TEMPLATES))
            sx, sy = rng.choice([0.5, 1, 1.5, 2, 3]), rng.choice([0.5, 1, 1.5, 2, 3])
            ox, oy = lat(rng, -10, 10), lat(rng, -10, 10)
            ring = [(F(x) * F(sx) + F(ox), F(y) * F(sy) + F(oy)) for x, y in TEMPLATES[name]]
            if rng.random() < 0.3:   # transpose: swaps horizontal and vertical edges
                ring = [(y, x) for x, y in ring][::-1]
        else:
            name = "star"
            n = rng.randint(3, 9)
            cx, cy = lat(rng, -10, 10), lat(rng, -10, 10)
            angs = sorted(rng.sample(range(24), n))
            ring = []
            for a in angs:
                r = rng.uniform(1.0, 6.0)
                th = 2 * math.pi * a / 24
                ring.append((F(round((cx + r * math.cos(th)) * 8), 8), F(round((cy + r * math.sin(th)) * 8), 8)))
        if ring_is_simple(ring):
            k = rng.randrange(len(ring))
            ring = ring[k:] + ring[:k]
            return name, ring
    return "square", [(F(0), F(0)), (F(2), F(0)), (F(2), F(2)), (F(0), F(2))]


class CropCorr(Corr):
    name = "crop"
    header = HEADER
    requires = REQUIRES
    shard = 6

    def cases(self, tier, rng):
        out = []
        n_rand = 60 if tier == "quick" else 400
        npts = 150 if tier == "quick" else 600
        # regression / documentation witnesses first: the repository's own unit-test prisms
        unit = [(0.0, 0.0), (0.2, 0.0), (0.2, 0.2), (0.0, 0.2)]
        out.append({"kind": "unit_test", "ncols": 3, "simple": True,
                    "area": [[x, y, 0.0] for x, y in unit] + [[x, y, 0.2] for x, y in unit],
                    "cloud": [[0.0, 0.0, 0.0], [0.05, 0.05, 0.05], [0.1, 0.1, 0.1], [0.3, 0.3, 0.3]], "margin_ok": False})
        out[-1]["simple"] = False        # has points on the boundary: model vs code only
        for i in range(n_rand):
            name, ring = gen_ring(rng)
            cw = rng.random() < 0.5
            if cw:
                ring = ring[::-1]
            ncols = rng.choice([2, 3, 3, 4, 5])
            z1, z0 = lat(rng, -2, 3), lat(rng, -4, 2)       # upper plane may lie below the lower plane
            if rng.random() < 0.1:
                z0 = z1
            up = [[float(x), float(y), z1] for x, y in ring]
            lo = [[float(x), float(y), z0] for x, y in ring]
            if rng.random() < 0.15:                          # z not constant per plane: min/max over ALL vertices
                for v in up + lo:
                    v[2] = lat(rng, -3, 3)
            area = up + lo
            zlo, zhi = min(v[2] for v in area), max(v[2] for v in area)
            xr, yr = window([ring], 2)
            cloud = gen_cloud(rng, npts if i % 7 else 12, [ring], xr, yr, z_values(zlo, zhi), ncols,
                              vertex_level_points(rng, ring, xr, yr))
            if i % 23 == 5:
                cloud = []
            # degenerate selections: EVERY point within the footprint in xy (the heights still spread below / within / above the prism), or
            # every point outside it, or everything inside the prism -- the inside / outside calls must still partition the cloud
            fring = [(float(x), float(y)) for x, y in ring]
            if i % 6 == 1:
                cloud = [r for r in cloud if crossing_inside((r[0], r[1]), fring)]
            elif i % 6 == 3:
                cloud = [r for r in cloud if not crossing_inside((r[0], r[1]), fring)]
            elif i % 12 == 4 and ncols >= 3:
                cloud = [r for r in cloud if crossing_inside((r[0], r[1]), fring) and zlo < r[2] < zhi]
            out.append({"kind": name + ("_cw" if cw else "_ccw"), "ncols": ncols, "simple": True, "area": area, "cloud": cloud,
                        "margin_ok": True, "dtype": rng.choice(["float64", "float32"]), "inner": rng.choice(["tuples", "lists"])})
        # exotic rings (model vs code only for the geometry, the partition is still checked):
        sq = [(0.0, 0.0), (4.0, 0.0), (4.0, 4.0), (0.0, 4.0)]
        bow = [(0.0, 0.0), (4.0, 4.0), (4.0, 0.0), (0.0, 4.0)]
        penta = [(2.0, 0.0), (3.0, 4.0), (0.0, 1.5), (4.0, 1.5), (1.0, 4.0)]
        for nm, ring in (("twice_ccw", sq + sq), ("twice_cw", (sq + sq)[::-1]), ("thrice_cw", (sq * 3)[::-1]), ("bowtie", bow),
                         ("pentagram", penta), ("pentagram_cw", penta[::-1])):
            fr = [(F(x), F(y)) for x, y in ring]
            for ncols in (2, 3):
                area = [[x, y, 1.0] for x, y in ring] + [[x, y, -1.0] for x, y in ring]
                cloud = gen_cloud(rng, 120, [fr], (-2, 6), (-2, 6), z_values(-1.0, 1.0), ncols, vertex_level_points(rng, fr, (-2, 6), (-2, 6)))
                out.append({"kind": nm, "ncols": ncols, "simple": False, "area": area, "cloud": cloud, "margin_ok": True,
                            "dtype": "float32" if ncols == 3 else "float64", "inner": "lists" if nm.endswith("cw") else "tuples"})
        # the uint8 wrap witness of Props/C12.v (C12_general_polygon_uint8_refuted): 256 windings -> counter 0 -> "outside"
        for n in (255, 256):
            ring = sq * n
            out.append({"kind": f"wound_{n}", "ncols": 3, "simple": False, "margin_ok": True,
                        "area": [[x, y, 1.0] for x, y in ring] + [[x, y, 0.0] for x, y in ring],
                        "cloud": [[1.0, 1.0, 0.5], [3.0, 3.0, 0.5], [5.0, 1.0, 0.5], [1.0, 1.0, 2.0]]})
        # malformed: too few vertices, odd length, too few columns
        sq3 = [[x, y, 0.0] for x, y in sq]
        for area, ncols, cloud in (([], 3, [[0.0, 0.0, 0.0]]), (sq3, 3, [[1.0, 1.0, 0.0]]), (sq3[:3] + sq3[:2], 3, [[1.0, 1.0, 0.0]]),
                                   (sq3 + sq3[:3], 3, [[1.0, 1.0, 0.0]]), (sq3 + sq3, 1, [[1.0]]), (sq3[:2] * 2, 1, [[1.0]]),
                                   (sq3[:3] * 2, 2, [[1.0, 0.5], [3.0, 0.5]])):
            out.append({"kind": "malformed", "ncols": ncols, "simple": False, "area": area, "cloud": cloud, "margin_ok": True})
        # malformed rank: the cloud is not a 2-D array at all (a flat (N,) array, 3-D arrays); the prism is well-formed
        for raw in ([1.0, 1.0, 0.0], [[[1.0], [1.0], [0.0]]], [[[1.0, 1.0], [1.0, 0.5]], [[3.0, 0.5], [3.0, 1.0]]]):
            out.append({"kind": "malformed", "ncols": 3, "simple": False, "area": sq3 + [[x, y, 1.0] for x, y in sq], "cloud": [],
                        "cloud_raw": raw, "margin_ok": True})
        return out

    def run_impl(self, case):
        from perception_eval.common.point import crop_pointcloud

        if case.get("cloud_raw") is not None:
            import numpy as np

            pc = np.array(case["cloud_raw"], dtype=float)
        else:
            pc = np_cloud(case["cloud"], case["ncols"], case.get("dtype", "float64"))
        area = as_area(case["area"], case.get("inner", "tuples"))
        res = {}
        for key, inside in (("ins", True), ("outs", False)):
            try:
                r = crop_pointcloud(pc, area, inside=inside)
            except RuntimeError as e:
                res[key] = None
                res["error"] = str(e)[:60]
                res["error_type"] = "RuntimeError"
                continue
            except Exception as e:
                if case.get("cloud_raw") is None:
                    raise
                res[key] = None          # a cloud that is not 2-D failed somewhere else than at the documented shape test
                res["error"] = str(e)[:60]
                res["error_type"] = type(e).__name__
                continue
            res[key] = rows_to_idx(case["cloud"], r) if r.ndim == 2 else None
            if res[key] is None:
                res[key] = [-1]
            res[key + "_shape"] = list(r.shape)
            res[key + "_dtype"] = str(r.dtype)
        return res

    def coq_term(self, case, obs):
        if case.get("cloud_raw") is not None:      # an array that is not 2-D has no model counterpart at all: the model's answer is "rejected"
            return blit(obs["ins"] is None and obs["outs"] is None)
        if case["ncols"] < 2:
            cloud = "[]"      # rows with fewer than two columns have no model counterpart; only the error is compared
        else:
            cloud = c_cloud(case["cloud"])
        if (obs["ins"] is not None and -1 in obs["ins"]) or (obs["outs"] is not None and -1 in obs["outs"]):
            return "false"
        return (f"check_crop {case['ncols']} {cloud} {llit([c_vertex(v) for v in case['area']])} "
                f"{olit(obs['ins'], c_nats)} {olit(obs['outs'], c_nats)}")

    def coq_debug(self, case, obs):
        if case["ncols"] < 2 or case.get("cloud_raw") is not None:
            return None
        a = llit([c_vertex(v) for v in case["area"]])
        return f"(crop_idx {a} true {c_cloud(case['cloud'])}, crop_idx {a} false {c_cloud(case['cloud'])})"

    def oracle(self, case, obs):
        n = len(case["cloud"])
        area = case["area"]
        bad_area = len(area) // 2 < 3 or len(area) % 2 != 0
        if case.get("cloud_raw") is not None:
            if obs["ins"] is not None or obs["outs"] is not None:
                return "malformed input accepted: the cloud is not a 2-D array"
            if obs.get("error_type") != "RuntimeError":
                return (f"a cloud that is not 2-D was not rejected with crop_pointcloud's RuntimeError 'it needs (N, k>=2)' but failed with "
                        f"{obs.get('error_type')}: {obs.get('error')}")
            return None
        if case["ncols"] < 2 or bad_area:
            if obs["ins"] is not None or obs["outs"] is not None:
                return "malformed input accepted"
            return None
        if obs["ins"] is None or obs["outs"] is None:
            return f"well-formed input rejected: {obs.get('error')}"
        ins, outs = obs["ins"], obs["outs"]
        if -1 in ins or -1 in outs:
            return "returned rows are not an order-preserving sub-array of the input rows"
        if obs["ins_shape"][1] != case["ncols"] or obs["outs_shape"][1] != case["ncols"]:
            return "columns were dropped"
        dt = case.get("dtype", "float64")
        if obs.get("ins_dtype") != dt or obs.get("outs_dtype") != dt:
            return f"a {dt} cloud came back as {obs.get('ins_dtype')} / {obs.get('outs_dtype')}: the returned rows are not the rows of the input array"
        if sorted(ins + outs) != list(range(n)):
            return f"inside/outside do not partition the cloud: |in|={len(ins)} |out|={len(outs)} n={n}, overlap={sorted(set(ins) & set(outs))[:5]}"
        if not case["simple"]:
            return None
        h = len(area) // 2
        ring = [(F(v[0]), F(v[1])) for v in area[:h]]
        zlo, zhi = min(v[2] for v in area), max(v[2] for v in area)
        want = []
        for i, row in enumerate(case["cloud"]):
            inside = crossing_inside((F(row[0]), F(row[1])), ring)
            if len(row) >= 3:
                inside = inside and zlo <= row[2] <= zhi
            if inside:
                want.append(i)
        if want != ins:
            d = sorted(set(want) ^ set(ins))
            return f"inside selection differs from the geometric test at rows {d[:5]} (points {[case['cloud'][i] for i in d[:3]]})"
        return None

    def nontrivial(self, case, obs):
        return bool(obs.get("ins")) and bool(obs.get("outs"))

    def distribution(self, cases, obs):
        d = {"kinds": {}, "points": 0, "inside": 0, "errors": 0, "ncols": {}, "clouds_with_no_point_outside_the_footprint": 0,
             "clouds_entirely_inside": 0, "clouds_entirely_outside": 0}
        for c, o in zip(cases, obs):
            if c["cloud"] and o.get("ins") is not None and o.get("outs") is not None:
                d["clouds_entirely_inside"] += len(o["ins"]) == len(c["cloud"])
                d["clouds_entirely_outside"] += len(o["outs"]) == len(c["cloud"])
                n2 = len(c["area"]) // 2
                if n2 >= 3 and c.get("simple"):
                    ring = [(float(v[0]), float(v[1])) for v in c["area"][:n2]]
                    d["clouds_with_no_point_outside_the_footprint"] += all(crossing_inside((r[0], r[1]), ring) for r in c["cloud"])
            k = c["kind"].replace("_cw", "").replace("_ccw", "")
            d["kinds"][k] = d["kinds"].get(k, 0) + 1
            d["ncols"][str(c["ncols"])] = d["ncols"].get(str(c["ncols"]), 0) + 1
            d["points"] += len(c["cloud"])
            d["inside"] += len(o.get("ins") or [])
            d["errors"] += 1 if o.get("ins") is None else 0
        d["clockwise"] = sum(1 for c in cases if c["kind"].endswith("_cw"))
        d["cloud_dtype"] = {k: sum(1 for c in cases if c.get("dtype", "float64") == k) for k in ("float64", "float32")}
        d["area_vertices_as"] = {k: sum(1 for c in cases if c.get("inner", "tuples") == k) for k in ("tuples", "lists")}
        d["clouds_not_2d"] = sum(1 for c in cases if c.get("cloud_raw") is not None)
        return d


# ------------------------------------------------------------------------------------------------
# 2. DynamicObject: corners, crop, count
# ------------------------------------------------------------------------------------------------
def box_cloud(rng, boxes_k, n, ncols, zs=None):
    rings = []
    for bx, k in boxes_k:
        ring, zlo, zhi = box_footprint(bx, k)
        rings.append(ring)
    xr, yr = window(rings, 1)
    if zs is None:
        bx = boxes_k[0][0]
        zs = z_values(bx["pos"][2] - bx["size"][2] / 2, bx["pos"][2] + bx["size"][2] / 2)
    extra = []
    for r in rings:
        extra += vertex_level_points(rng, r, xr, yr)
    return gen_cloud(rng, n, rings, xr, yr, zs, ncols, extra)


class BoxCorr(Corr):
    name = "box"
    header = HEADER
    requires = REQUIRES
    shard = 7

    def cases(self, tier, rng):
        out = []
        n_rand = 110 if tier == "quick" else 560
        npts = 200 if tier == "quick" else 600
        combos = [("yaw", wz) for wz in YAW_WZ] + [("tilt", q) for q in TILTED]
        for i in range(n_rand):
            kind, rot = combos[i % len(combos)] if i < 2 * len(combos) else rng.choice(combos)
            bx = gen_box(rng, kind)
            bx["quat"] = [rot[0], 0, 0, rot[1]] if kind == "yaw" else list(rot)
            if rng.random() < 0.45:
                k = rng.choice([0.5, 0.75, 1.0, 1.0, 1.0, 1.125, 1.25, 1.5, 2.0])
                sc = {"k": k}
                if k == 1.0 and rng.random() < 0.75:     # the documented default scale: the argument is left out altogether
                    sc["omit"] = True
                kf = F(k)
            else:
                s0, s100 = rng.choice([1.0, 0.75, 1.25, 1.5]), rng.choice([1.0, 1.5, 2.0, 0.5, 3.0])
                sc = {"s0": s0, "s100": s100}
                kf = ideal_scale(bx, s0, s100)
            dk = rng.choice([0.0, 0.125, 0.25, 0.5, 1.0])
            ncols = rng.choice([2, 3, 3, 3, 4, 5])
            cloud = box_cloud(rng, [(bx, kf), (bx, kf + F(dk))], npts if i % 9 else 10, ncols)
            if i % 31 == 7:
                cloud = []
            if i % 50 == 4:          # a large box holding more than 255 rows (get_inside_pointcloud_num beyond 8 bits)
                bx["size"] = [4.0, 8.0, 3.0]
                ncols = max(ncols, 3)
                cloud = dense_rows(rng, bx, kf, ncols)
                ring2 = box_footprint(bx, kf + F(dk))[0]
                cloud = [r for r in cloud if far_from_ring((F(r[0]), F(r[1])), ring2)]
            out.append({"box": bx, "scale": sc, "dk": dk, "ncols": ncols, "cloud": cloud, "dtype": rng.choice(["float64", "float32"])})
        return out

    def run_impl(self, case):
        from perception_eval.util.math import get_bbox_scale

        bx = case["box"]
        obj = make_object(bx)
        sc = case["scale"]
        if "k" in sc:
            k = sc["k"]
        else:
            k = float(get_bbox_scale(obj.get_distance(), sc["s0"], sc["s100"]))
        pc = np_cloud(case["cloud"], case["ncols"], case.get("dtype", "float64"))
        if sc.get("omit"):        # k == 1.0 is the documented default of get_corners / crop_pointcloud / get_inside_pointcloud_num
            ins = obj.crop_pointcloud(pc)
            outs = obj.crop_pointcloud(pc, inside=False)
            corners = obj.get_corners()
            num = obj.get_inside_pointcloud_num(pc)
        else:
            ins = obj.crop_pointcloud(pc, k, inside=True)
            outs = obj.crop_pointcloud(pc, k, inside=False)
            corners = obj.get_corners(k)
            num = obj.get_inside_pointcloud_num(pc, k)
        ins2 = obj.crop_pointcloud(pc, k + case["dk"], inside=True)
        idx = [rows_to_idx(case["cloud"], a) for a in (ins, outs, ins2)]
        return {"k": k, "dist": float(obj.get_distance()),
                "corners": [[float(v) for v in r] for r in corners.tolist()],
                "ins": idx[0] if idx[0] is not None else [-1], "outs": idx[1] if idx[1] is not None else [-1],
                "ins2": idx[2] if idx[2] is not None else [-1],
                "num": int(num), "exist": bool(obj.point_exist(pc, k)),
                "ncols_out": int(ins.shape[1]) if ins.ndim == 2 else -1,
                "dtypes_out": sorted({str(a.dtype) for a in (ins, outs, ins2)})}

    def coq_term(self, case, obs):
        if -1 in obs["ins"] or -1 in obs["outs"]:
            return "false"
        sc = case["scale"]
        if "k" in sc:
            k = qlit(sc["k"])
        else:       # the model computes the scale from the (exact, rational) distance itself
            k = f"(bbox_scale {qlit(obs['dist'])} {qlit(sc['s0'])} {qlit(sc['s100'])})"
        p = case["box"]["pos"]
        d2 = F(p[0]) ** 2 + F(p[1]) ** 2 + F(p[2]) ** 2
        return (f"(check_box {c_box(case['box'])} {k} {c_cloud(case['cloud'])} {llit([c_vertex(v) for v in obs['corners']])} "
                f"{c_nats(obs['ins'])} {c_nats(obs['outs'])} {obs['num']} {blit(obs['exist'])}"
                f" && Qclose (1 # 1000000000) {k} {qlit(obs['k'])}"
                f" && Qclose (1 # 1000000) ({qlit(obs['dist'])} * {qlit(obs['dist'])}) {qlit(d2)})")

    def coq_debug(self, case, obs):
        return (f"(box_corners {c_box(case['box'])} {qlit(obs['k'])}, box_crop_idx {c_box(case['box'])} {qlit(obs['k'])} true {c_cloud(case['cloud'])})")

    def oracle(self, case, obs):
        bx, sc = case["box"], case["scale"]
        n = len(case["cloud"])
        k = F(sc["k"]) if "k" in sc else ideal_scale(bx, sc["s0"], sc["s100"])
        if abs(F(obs["k"]) - k) > TOL:
            return f"scale factor {obs['k']} differs from 0.01*(s100-s0)*distance+s0 = {float(k)}"
        ring, zlo, zhi = box_footprint(bx, k)
        for i, c in enumerate(obs["corners"]):
            ex, ey = ring[i % 4]
            ez = zhi if i < 4 else zlo
            if len(obs["corners"]) != 8 or abs(F(c[0]) - ex) > TOL or abs(F(c[1]) - ey) > TOL or F(c[2]) != ez:
                return f"corner {i} is {c}, expected ({float(ex)}, {float(ey)}, {float(ez)}): footprint scaled by k, height not scaled"
        ins, outs, ins2 = obs["ins"], obs["outs"], obs["ins2"]
        if -1 in ins or -1 in outs or -1 in ins2:
            return "returned rows are not an order-preserving sub-array of the input rows"
        if n and obs["ncols_out"] != case["ncols"]:
            return "columns were dropped"
        if obs.get("dtypes_out") != [case.get("dtype", "float64")]:
            return f"a {case.get('dtype', 'float64')} cloud came back as {obs.get('dtypes_out')}: the returned rows are not the rows of the input array"
        if sorted(ins + outs) != list(range(n)):
            return f"inside/outside do not partition the cloud: |in|={len(ins)} |out|={len(outs)} n={n}"
        want = [i for i, row in enumerate(case["cloud"]) if box_inside(bx, k, row)]
        if want != ins:
            d = sorted(set(want) ^ set(ins))
            return f"inside rows differ from the slab test in the box frame at rows {d[:5]} (points {[case['cloud'][i] for i in d[:3]]})"
        if not set(ins) <= set(ins2):
            return f"enlarging the scale by {case['dk']} removed inside rows {sorted(set(ins) - set(ins2))[:5]}"
        want2 = [i for i, row in enumerate(case["cloud"]) if box_inside(bx, k + F(case["dk"]), row)]
        if want2 != ins2:
            return "inside rows at the enlarged scale differ from the slab test"
        if obs["num"] != len(ins) or obs["exist"] != (len(ins) > 0):
            return f"get_inside_pointcloud_num={obs['num']} / point_exist={obs['exist']} disagree with the {len(ins)} inside rows"
        return None

    def nontrivial(self, case, obs):
        return len(obs.get("ins", [])) > 0 and len(obs.get("outs", [])) > 0

    def distribution(self, cases, obs):
        d = {"points": 0, "inside": 0, "rotation": {"axis_aligned": 0, "q1": 0, "q2": 0, "q3": 0, "q4": 0, "tilted": 0},
             "scale": {"fixed": 0, "distance_dependent": 0, "argument_left_at_its_default": 0}, "ncols": {}, "monotonicity_strict_growth": 0,
             "cloud_dtype": {"float64": 0, "float32": 0}, "boxes_holding_more_than_255_rows": 0}
        for c, o in zip(cases, obs):
            d["boxes_holding_more_than_255_rows"] += o.get("num", 0) > 255
            d["scale"]["argument_left_at_its_default"] += bool(c["scale"].get("omit"))
            d["cloud_dtype"][c.get("dtype", "float64")] += 1
            d["points"] += len(c["cloud"])
            d["inside"] += len(o.get("ins", []))
            q = c["box"]["quat"]
            if not is_yaw_only(q):
                d["rotation"]["tilted"] += 1
            else:
                r = rot_entries(q)
                cc, ss = r[0], r[2]
                key = "axis_aligned" if cc == 0 or ss == 0 else ("q1" if cc > 0 and ss > 0 else "q2" if ss > 0 else "q3" if cc < 0 else "q4")
                d["rotation"][key] += 1
            d["scale"]["fixed" if "k" in c["scale"] else "distance_dependent"] += 1
            d["ncols"][str(c["ncols"])] = d["ncols"].get(str(c["ncols"]), 0) + 1
            if len(o.get("ins2", [])) > len(o.get("ins", [])):
                d["monotonicity_strict_growth"] += 1
        return d


# ------------------------------------------------------------------------------------------------
# 3. SensingFrameResult.evaluate_frame
# ------------------------------------------------------------------------------------------------
def elevated_pos(rng):
    """a lattice position HIGH above / below the ego vehicle (|z| >= 8 m, |x|, |y| <= 6 m) with a rational 3-D distance: the distance the
    scale law speaks about is the distance to the object, which here is far from its bird's-eye-view distance"""
    for _ in range(200):
        p = gen_pos(rng, 14, 14)
        x, y, z = sorted(abs(v) for v in p)
        if z >= 8.0 and y <= 6.0:
            sx, sy = rng.choice([-1, 1]), rng.choice([-1, 1])
            return [sx * x, sy * y, rng.choice([-1, 1]) * z] if rng.random() < 0.5 else [sx * y, sy * x, rng.choice([-1, 1]) * z]
    return [3.0, 4.0, 12.0]


def bev_box(g):
    """the same box as the ego vehicle would scale it if it measured the distance in the ground plane only (generator use: rows between the
    two candidate boxes make the difference visible)"""
    return {"pos": [g["pos"][0], g["pos"][1], 0.0]}


def gen_scene(rng, n_obj, cfg):
    gts = []
    for _ in range(n_obj):
        g = gen_box(rng)
        if max(abs(g["pos"][0]), abs(g["pos"][1])) < 50:      # (gen_box places every eighth object beyond 100 m: kept)
            g["pos"] = gen_pos(rng, 12, 1)
            if rng.random() < 0.12:
                g["pos"] = elevated_pos(rng)
                g["elevated"] = True
        g["vis"] = rng.choice(VIS + ["none", "full"])
        gts.append(g)
    if n_obj >= 2 and rng.random() < 0.3:      # overlapping boxes
        gts[1]["pos"] = [gts[0]["pos"][0], gts[0]["pos"][1], -gts[0]["pos"][2]]
        gts[1]["quat"] = [gts[0]["quat"][0], 0, 0, -gts[0]["quat"][3]] if is_yaw_only(gts[0]["quat"]) else gts[1]["quat"]
    return gts


def scene_rings(gts, cfg):
    return [(g, ideal_scale(g, cfg["s0"], cfg["s100"])) for g in gts]


def scene_cloud(rng, gts, cfg, n, ncols, seen=None):
    bk = scene_rings(gts, cfg)
    zs = [0.0, 0.0, 0.0, 0.25, -0.25, 0.5, 1.0, -1.0, 2.5, -2.5]
    if not bk:
        return gen_cloud(rng, n, [], (-5, 5), (-5, 5), zs, ncols)
    rows = []
    # half of the points near the objects (so that boxes collect points), half anywhere
    for g, k in bk:
        rows += box_cloud(rng, [(g, k)], max(2, n // (2 * len(bk))), ncols,
                          zs=z_values(g["pos"][2] - g["size"][2] / 2, g["pos"][2] + g["size"][2] / 2))
        if g.get("elevated") and n:
            # rows around the box as scaled at the 3-D distance AND as it would be scaled at the ground-plane distance
            rows += box_cloud(rng, [(g, k), (g, ideal_scale(bev_box(g), cfg["s0"], cfg["s100"]))], 60, ncols,
                              zs=z_values(g["pos"][2] - g["size"][2] / 2, g["pos"][2] + g["size"][2] / 2)[:7])
    rows += gen_cloud(rng, n // 2, [box_footprint(g, k)[0] for g, k in bk], (-16, 16), (-16, 16), zs, ncols)
    # keep only rows that respect the margin of EVERY box and are distinct
    rings = [box_footprint(g, k)[0] for g, k in bk]
    out, keys = [], seen if seen is not None else set()
    for r in rows:
        key = tuple(r[:3]) if ncols >= 3 else tuple(r[:2])
        if key in keys or not all(far_from_ring((F(r[0]), F(r[1])), ring) for ring in rings):
            continue
        keys.add(key)
        out.append(r)
    rng.shuffle(out)
    return out


def dense_rows(rng, g, k, ncols, want=270, others=60):
    """> 255 distinct lattice rows INSIDE the box scaled by k (counts beyond what an 8-bit counter holds) + a few rows outside"""
    zlo, zhi = g["pos"][2] - g["size"][2] / 2, g["pos"][2] + g["size"][2] / 2
    ins, outs, seen = [], [], set()
    for _ in range(8):
        for r in box_cloud(rng, [(g, k)], 900, ncols, zs=[zlo, zhi, (zlo + zhi) / 2, zlo + 0.125, zhi - 0.125, zlo + 0.5, zhi - 0.5, zlo - 0.125, zhi + 0.125]):
            key = tuple(r[:3]) if ncols >= 3 else tuple(r[:2])
            if key in seen:
                continue
            seen.add(key)
            (ins if box_inside(g, k, r) else outs).append(r)
        if len(ins) >= want:
            break
    rows = ins[: want + rng.randint(0, 40)] + outs[:others]
    rng.shuffle(rows)
    return rows


def res_obs(r, gts_objs, cloud):
    idx = rows_to_idx(cloud, r.inside_pointcloud)
    return {"obj": next(i for i, o in enumerate(gts_objs) if o is r.ground_truth_object),
            "rows": idx if idx is not None else [-1], "num": int(r.inside_pointcloud_num),
            "detected": bool(r.is_detected), "occluded": bool(r.is_occluded)}


def c_res(o):
    return f"({o['obj']}%nat, {c_nats(o['rows'])}, {o['num']}%nat, {blit(o['detected'])}, {blit(o['occluded'])})"


def locate_rows(pcs, arr):
    """a reported non-detection array as (index of the input cloud it is a sub-array of, rows)"""
    for ci, pc in enumerate(pcs):
        idx = rows_to_idx(pc, arr)
        if idx is not None and len(idx) > 0:
            return [ci, idx]
    return [-1, []]


def frame_oracle(cfg, gts, cloud, pcs, obs, who):
    n = len(gts)
    ks = [ideal_scale(g, cfg["s0"], cfg["s100"]) for g in gts]
    for i, (k, ko) in enumerate(zip(ks, obs["scales"])):
        if abs(F(ko) - k) > TOL:
            return f"{who}: scale factor of object {i} is {ko}, expected {float(k)}"
    lists = {"success": obs["success"], "fail": obs["fail"], "warning": obs["warning"]}
    seen = [r["obj"] for l in lists.values() for r in l]
    if sorted(seen) != list(range(n)):
        return f"{who}: objects are not classified exactly once: success={[r['obj'] for r in lists['success']]} fail={[r['obj'] for r in lists['fail']]} warning={[r['obj'] for r in lists['warning']]} of {n}"
    for name, l in lists.items():
        if [r["obj"] for r in l] != sorted(r["obj"] for r in l):
            return f"{who}: {name} results are not in ground-truth order"
        for r in l:
            g = gts[r["obj"]]
            want_rows = [i for i, row in enumerate(cloud) if box_inside(g, ks[r["obj"]], row)]
            if r["rows"] != want_rows or r["num"] != len(want_rows):
                return f"{who}: object {r['obj']}: inside rows {r['rows'][:8]} (num={r['num']}) differ from the slab test {want_rows[:8]}"
            occl = g.get("vis") in ("none", "v0-40")
            want = "warning" if occl else ("success" if len(want_rows) >= cfg["min_points"] else "fail")
            if name != want:
                return f"{who}: object {r['obj']} (visibility={g.get('vis')}, {len(want_rows)} points, threshold {cfg['min_points']}) reported as {name}, expected {want}"
    want_nd = []
    for ci, pc in enumerate(pcs):
        rows = [i for i, row in enumerate(pc) if not any(box_inside(g, k, row) for g, k in zip(gts, ks))]
        if rows:
            want_nd.append([ci, rows])
    if obs["nondet"] != want_nd:
        return f"{who}: non-detection failures {str(obs['nondet'])[:200]} differ from 'in the cloud and outside every scaled box' {str(want_nd)[:200]}"
    return None


class FrameCorr(Corr):
    name = "frame"
    header = HEADER
    requires = REQUIRES
    shard = 4

    def cases(self, tier, rng):
        out = []
        n_rand = 60 if tier == "quick" else 256
        npts = 160 if tier == "quick" else 500
        for i in range(n_rand):
            cfg = {"s0": rng.choice([1.0, 1.0, 1.25, 0.75]), "s100": rng.choice([1.0, 1.5, 2.0, 3.0]), "min_points": 1}
            n_obj = rng.choice([0, 1, 2, 3, 4, 6]) if i % 10 else 0
            gts = gen_scene(rng, n_obj, cfg)
            if any(g.get("elevated") for g in gts) and rng.random() < 0.7:
                cfg["s100"] = 5.0          # a steep scale law: the 3-D and the ground-plane distance give clearly different boxes
            ncols = rng.choice([3, 3, 4, 2])
            seen = set()
            cloud = scene_cloud(rng, gts, cfg, npts, ncols, seen)
            # threshold: often exactly the count of some object (the >= boundary), sometimes 0 / negative / huge
            counts = [sum(1 for row in cloud if box_inside(g, k, row)) for g, k in scene_rings(gts, cfg)]
            r = rng.random()
            if counts and r < 0.6:
                cfg["min_points"] = rng.choice(counts) + rng.choice([0, 0, 0, 1, -1])
            elif r < 0.7:
                cfg["min_points"] = rng.choice([0, -1, 10 ** 6])
            else:
                cfg["min_points"] = rng.choice([1, 1, 2, 5])
            pcs = []
            for j in range(rng.choice([0, 1, 2, 3])):
                pc_cols = rng.choice([ncols, 3])
                pc = scene_cloud(rng, gts, cfg, rng.choice([0, 6, npts // 3]), pc_cols, seen)
                if j == 1 and gts and rng.random() < 0.5:   # a cloud entirely inside one box: nothing remains, nothing reported
                    pc = [row for row in pc if box_inside(gts[0], ideal_scale(gts[0], cfg["s0"], cfg["s100"]), row)]
                pcs.append({"ncols": pc_cols, "rows": pc})
            out.append({"cfg": cfg, "gts": gts, "ncols": ncols, "cloud": cloud, "pcs": pcs, "dtype": rng.choice(["float64", "float32"])})
        # dense scenes: one large object collects MORE THAN 255 rows; thresholds at 256 / 257 / the count / the count +- 1 / count - 200
        # (a count kept in 8 bits wraps to count - 256 and falls below it)
        for j in range(2 if tier == "quick" else 8):
            cfg = {"s0": 1.0, "s100": rng.choice([1.0, 1.5]), "min_points": 1}
            g = gen_box(rng, "yaw")
            g["pos"], g["size"], g["vis"] = gen_pos(rng, 12, 1), [4.0, 8.0, 3.0], rng.choice(["full", "most", None])
            gts = [g]
            if j % 2:
                g2 = gen_box(rng, "yaw")
                g2["pos"], g2["vis"] = [-g["pos"][0] + 20.0, g["pos"][1], 0.0], "partial"
                gts.insert(0, g2)       # the dense object is not the first one
            ncols = rng.choice([3, 4])
            cloud = dense_rows(rng, g, ideal_scale(g, cfg["s0"], cfg["s100"]), ncols)
            rings = [box_footprint(gg, kk)[0] for gg, kk in scene_rings(gts, cfg)]
            cloud = [r for r in cloud if all(far_from_ring((F(r[0]), F(r[1])), ring) for ring in rings)]
            cnt = sum(1 for row in cloud if box_inside(g, ideal_scale(g, cfg["s0"], cfg["s100"]), row))
            cfg["min_points"] = [256, cnt - 200, 257, cnt, cnt + 1, cnt - 1][j % 6]
            out.append({"cfg": cfg, "gts": gts, "ncols": ncols, "cloud": cloud, "pcs": [{"ncols": ncols, "rows": cloud[:40]}], "dtype": rng.choice(["float64", "float32"]),
                        "dense": True})
        return out

    def run_impl(self, case):
        from perception_eval.evaluation.sensing.sensing_frame_config import SensingFrameConfig
        from perception_eval.evaluation.sensing.sensing_frame_result import SensingFrameResult

        cfg = case["cfg"]
        fc = SensingFrameConfig(target_uuids=None, box_scale_0m=cfg["s0"], box_scale_100m=cfg["s100"], min_points_threshold=cfg["min_points"])
        objs = [make_object(g, g.get("vis")) for g in case["gts"]]
        dt = case.get("dtype", "float64")
        pcs = [np_cloud(p["rows"], p["ncols"], dt) for p in case["pcs"]]
        pc = np_cloud(case["cloud"], case["ncols"], dt)

        def observe():
            res = SensingFrameResult(fc, 0, "0")
            res.evaluate_frame(objs, pc, pcs)
            lists = (res.detection_success_results, res.detection_fail_results, res.detection_warning_results)
            return {"success": [res_obs(r, objs, case["cloud"]) for r in lists[0]],
                    "fail": [res_obs(r, objs, case["cloud"]) for r in lists[1]],
                    "warning": [res_obs(r, objs, case["cloud"]) for r in lists[2]],
                    "nondet": [locate_rows([p["rows"] for p in case["pcs"]], a) for a in res.pointcloud_failed_non_detection],
                    "dtypes_out": sorted({str(r.inside_pointcloud.dtype) for l in lists for r in l}
                                         | {str(a.dtype) for a in res.pointcloud_failed_non_detection})}

        out = observe()
        # a second frame result over the SAME objects, configuration and arrays: nothing may have been left behind by the first evaluation
        try:
            out["again_same"] = observe() == out
        except StopIteration:      # results of the first evaluation showed up in the second result object
            out["again_same"] = False
        out["scales"] = [float(fc.get_scale_factor(o.get_distance())) for o in objs]
        out["dists"] = [float(o.get_distance()) for o in objs]
        return out

    def coq_term(self, case, obs):
        if any(-1 in r["rows"] for k in ("success", "fail", "warning") for r in obs[k]) or any(ci < 0 for ci, _ in obs["nondet"]):
            return "false"
        gts = llit([c_gt(g, d) for g, d in zip(case["gts"], obs["dists"])])
        pcs = llit([c_cloud(p["rows"]) for p in case["pcs"]])
        dist_ok = " && ".join(
            [f"Qclose (1 # 1000000) ({qlit(d)} * {qlit(d)}) {qlit(sum(F(v) ** 2 for v in g['pos']))}" for g, d in zip(case["gts"], obs["dists"])] or ["true"])
        return (f"(check_frame {c_cfg(case['cfg'])} {gts} {c_cloud(case['cloud'])} {pcs} {llit([qlit(s) for s in obs['scales']])} "
                f"{llit([c_res(r) for r in obs['success']])} {llit([c_res(r) for r in obs['fail']])} {llit([c_res(r) for r in obs['warning']])} "
                f"{llit([c_nats(rows) for _, rows in obs['nondet']])} && {dist_ok})")

    def oracle(self, case, obs):
        msg = frame_oracle(case["cfg"], case["gts"], case["cloud"], [p["rows"] for p in case["pcs"]], obs, "evaluate_frame")
        if msg:
            return msg
        dt = case.get("dtype", "float64")
        if obs.get("dtypes_out", [dt]) not in ([dt], []):
            return f"evaluate_frame: a {dt} cloud came back as {obs['dtypes_out']}: the reported rows are not the rows of the input arrays"
        if not obs.get("again_same", True):
            return ("evaluate_frame: a second SensingFrameResult over the same objects, configuration and clouds reports different lists than the "
                    "first one (state left behind in the objects, the configuration or the arrays)")
        return None

    def nontrivial(self, case, obs):
        return len(case["gts"]) > 0 and sum(1 for k in ("success", "fail", "warning") if obs.get(k)) >= 2

    def distribution(self, cases, obs):
        d = {"objects": 0, "success": 0, "fail": 0, "warning": 0, "threshold_hit_with_equality": 0, "nondet_reported": 0, "nondet_clouds": 0,
             "nondet_dropped_empty": 0, "points": 0, "cloud_dtype": {"float64": 0, "float32": 0}, "evaluated_twice": 0,
             "objects_holding_more_than_255_rows": 0, "objects_high_above_or_below_the_ego(3d_distance>>ground_distance)": 0,
             "rows_between_the_3d_distance_box_and_the_ground_distance_box": 0}
        for c, o in zip(cases, obs):
            for g in c["gts"]:
                if g.get("elevated"):
                    d["objects_high_above_or_below_the_ego(3d_distance>>ground_distance)"] += 1
                    k3, k2 = ideal_scale(g, c["cfg"]["s0"], c["cfg"]["s100"]), ideal_scale(bev_box(g), c["cfg"]["s0"], c["cfg"]["s100"])
                    d["rows_between_the_3d_distance_box_and_the_ground_distance_box"] += sum(
                        1 for row in c["cloud"] if box_inside(g, k3, row) != box_inside(g, k2, row))
            d["objects_holding_more_than_255_rows"] += sum(1 for k in ("success", "fail", "warning") for r in o.get(k, []) if r["num"] > 255)
            d["cloud_dtype"][c.get("dtype", "float64")] += 1
            d["evaluated_twice"] += "again_same" in o
            d["objects"] += len(c["gts"])
            d["points"] += len(c["cloud"]) + sum(len(p["rows"]) for p in c["pcs"])
            for k in ("success", "fail", "warning"):
                d[k] += len(o.get(k, []))
                d["threshold_hit_with_equality"] += sum(1 for r in o.get(k, []) if r["num"] == c["cfg"]["min_points"])
            d["nondet_reported"] += len(o.get("nondet", []))
            d["nondet_clouds"] += len(c["pcs"])
            d["nondet_dropped_empty"] += len(c["pcs"]) - len(o.get("nondet", []))
        return d


# ------------------------------------------------------------------------------------------------
# 4. SensingEvaluationManager.crop_pointcloud / add_frame_result on the bundled fixture
# ------------------------------------------------------------------------------------------------
_MANAGERS = {}


def _manager(s0, s100, min_points):
    from perception_eval.config.sensing_evaluation_config import SensingEvaluationConfig
    from perception_eval.manager.sensing_evaluation_manager import SensingEvaluationManager

    key = (s0, s100, min_points)
    if key not in _MANAGERS:
        from harness.lib import core

        root = os.path.join(BUILD, f"c12_manager_{os.getpid()}")
        cfg = SensingEvaluationConfig(
            dataset_paths=[os.path.join(core.REPO, "perception_eval", "test", "sample_data")], frame_id="base_link",
            result_root_directory=os.path.join(root, f"r{len(_MANAGERS)}"),
            evaluation_config_dict={"evaluation_task": "sensing", "target_uuids": None, "box_scale_0m": s0, "box_scale_100m": s100,
                                    "min_points_threshold": min_points}, load_raw_data=False)
        import contextlib
        import io

        with contextlib.redirect_stderr(io.StringIO()):      # the dataset loader draws tqdm progress bars
            _MANAGERS[key] = SensingEvaluationManager(cfg)
        shutil.rmtree(root, ignore_errors=True)
    return _MANAGERS[key]


class ManagerCorr(Corr):
    name = "manager"
    header = HEADER
    requires = REQUIRES
    shard = 2

    def cases(self, tier, rng):
        out = []
        n_rand = 24 if tier == "quick" else 96
        n_map = 6 if tier == "quick" else 24
        npts = 220 if tier == "quick" else 800
        for i in range(n_rand + n_map):
            cfg = {"s0": rng.choice([1.0, 1.25]), "s100": rng.choice([1.0, 2.0, 3.0]), "min_points": rng.choice([1, 2, 3])}
            in_map = i >= n_rand
            # the frame config handed to add_frame_result: left out (None -> built from the manager's own parameters), a copy of the
            # manager's parameters, or DIFFERENT scales / threshold (crop_pointcloud keeps using the manager's, evaluate_frame the frame's)
            mode = "map_crop_only" if in_map else ("none", "same", "different")[i % 3]
            fc = None
            if mode == "same":
                fc = dict(cfg)
            elif mode == "different":
                while fc is None or (fc["s0"], fc["s100"]) == (cfg["s0"], cfg["s100"]):
                    fc = {"s0": rng.choice([1.0, 1.5, 2.0, 0.75]), "s100": rng.choice([1.0, 2.0, 3.0, 0.5]), "min_points": rng.choice([1, 2, 3, 5])}
                if i % 6 == 2:
                    # every other such case: the frame configuration's boxes are LARGER than the manager's at every distance, so that the
                    # second cut (evaluate_frame, frame configuration) removes rows the manager's cut left in the areas
                    fc["s0"], fc["s100"] = cfg["s0"] + rng.choice([0.25, 0.5]), cfg["s100"] + rng.choice([0.5, 1.0])
            gts = gen_scene(rng, rng.choice([1, 2, 3]) if in_map else rng.choice([0, 1, 2, 3, 5]), cfg)
            if not in_map and any(g.get("elevated") for g in gts) and rng.random() < 0.7:
                cfg["s100"] = 5.0          # a steep scale law: the 3-D and the ground-plane distance give clearly different boxes
                if mode == "same":
                    fc = dict(cfg)
                elif mode == "different" and i % 6 == 2:
                    fc["s100"] = cfg["s100"] + 1.0
            tf = None
            if in_map:
                # ground truths given in the MAP frame together with the BASE_LINK -> MAP transform of the frame: the scale depends on the
                # distance from the ego vehicle (= |position - translation|, rational by construction), the box is the box as given
                cfg["s100"] = rng.choice([2.0, 3.0])
                wz = (1, 0) if i == n_rand else rng.choice(YAW_WZ)
                tf = {"t": [0.0, 0.0, 0.0] if i == n_rand else [lat(rng, -20, 20), lat(rng, -20, 20), lat(rng, -1, 1)], "q": [wz[0], 0, 0, wz[1]]}
                for g in gts:
                    g["rel"] = list(g["pos"])
                    g["pos"] = [g["rel"][j] + tf["t"][j] for j in range(3)]
            ncols = rng.choice([3, 4, 3, 2])
            both = scene_rings(gts, cfg) + (scene_rings(gts, fc) if mode == "different" else [])
            box_rings = [box_footprint(g, k)[0] for g, k in both]
            areas, rings = [], []
            for _ in range(rng.choice([0, 1, 2, 2, 3])):
                _, ring = gen_ring(rng)
                if in_map:
                    ring = [(x + F(tf["t"][0]), y + F(tf["t"][1])) for x, y in ring]
                if rng.random() < 0.5:
                    ring = ring[::-1]
                rings.append(ring)
                z1, z0 = rng.choice([1.0, 2.0, 0.5]), rng.choice([-1.0, -0.5, -2.0])
                areas.append([[float(x), float(y), z1] for x, y in ring] + [[float(x), float(y), z0] for x, y in ring])
            if gts and mode in ("different", "map_crop_only"):
                # an area around the first object, so that the rows between its differently scaled boxes are in a non-detection area
                (x0, x1), (y0, y1) = window([r for r, (g, _) in zip(box_rings, both) if g is gts[0]], 1)
                ring = [(F(x0), F(y0)), (F(x1), F(y0)), (F(x1), F(y1)), (F(x0), F(y1))]
                rings.append(ring)
                zc = math.floor(gts[0]["pos"][2])
                areas.append([[float(x), float(y), zc + 3.0] for x, y in ring] + [[float(x), float(y), zc - 3.0] for x, y in ring])
            if i % 11 == 10:
                areas.append(areas[0][:5] if areas else [[0.0, 0.0, 0.0]])      # malformed area -> RuntimeError
            frings = [[(float(x), float(y)) for x, y in r] for r in rings + box_rings]
            seen, cloud = set(), []

            def add(rows):
                for r in rows:
                    key = tuple(r[:3]) if ncols >= 3 else tuple(r[:2])
                    if key not in seen and all(far_from_ring((r[0], r[1]), ring) for ring in frings):
                        seen.add(key)
                        cloud.append(r)

            if in_map:      # scene_cloud's far-away half is drawn around the origin: draw it around the objects instead
                for g, k in both:
                    add(box_cloud(rng, [(g, k)], max(2, npts // (2 * len(both))), ncols,
                                  zs=z_values(g["pos"][2] - g["size"][2] / 2, g["pos"][2] + g["size"][2] / 2)))
            else:
                add(scene_cloud(rng, gts, cfg, npts, ncols, set()))
            if mode == "different":
                for g in gts:       # rows between (and around) the two scaled boxes of every object
                    add(box_cloud(rng, [(g, ideal_scale(g, cfg["s0"], cfg["s100"])), (g, ideal_scale(g, fc["s0"], fc["s100"]))],
                                  max(8, npts // (3 * len(gts))), ncols,
                                  zs=z_values(g["pos"][2] - g["size"][2] / 2, g["pos"][2] + g["size"][2] / 2)))
            if rings:    # more points where the areas are
                zs = [0.0, 0.25, -0.25, 0.5, 1.0, 3.0]
                add(gen_cloud(rng, npts // 2, rings + box_rings, *window(rings, 1), [z + tf["t"][2] for z in zs] if in_map else zs, ncols))
            case = {"cfg": cfg, "gts": gts, "ncols": ncols, "cloud": cloud, "areas": areas, "fc": fc, "mode": mode,
                    "dtype": rng.choice(["float64", "float32"]), "inner": rng.choice(["tuples", "lists"])}
            if in_map:
                case["map"] = tf
            elif fc is not None and len(gts) >= 2 and i % 5 in (1, 3):
                # target_uuids on the frame configuration (round 5 of DESIGN section 9): only the listed objects are evaluated for detection
                # and cut out of the reported non-detection arrays by the FRAME scales, while the manager's own crop still removes the
                # rows inside EVERY object's box (scaled with the manager's parameters)
                case["targets"] = sorted(rng.sample(range(len(gts)), rng.randint(1, len(gts) - 1)))
            out.append(case)
        return out

    def run_impl(self, case):
        from perception_eval.common.dataset import FrameGroundTruth
        from perception_eval.evaluation.sensing.sensing_frame_config import SensingFrameConfig

        cfg = case["cfg"]
        m = _manager(cfg["s0"], cfg["s100"], cfg["min_points"])
        tf = case.get("map")
        objs = [make_object(g, g.get("vis"), uuid=str(i), frame="map" if tf else "base_link") for i, g in enumerate(case["gts"])]
        pc = np_cloud(case["cloud"], case["ncols"], case.get("dtype", "float64"))
        areas = [as_area(a, case.get("inner", "tuples")) for a in case["areas"]]
        transforms = None
        if tf:
            from perception_eval.common.schema import FrameID
            from perception_eval.common.transform import HomogeneousMatrix, TransformDict

            n = math.sqrt(sum(v * v for v in tf["q"]))
            transforms = TransformDict(HomogeneousMatrix(tuple(tf["t"]), tuple(v / n for v in tf["q"]), src=FrameID.BASE_LINK, dst=FrameID.MAP))
        try:
            cropped = m.crop_pointcloud(objs, pc, areas, transforms) if tf else m.crop_pointcloud(objs, pc, areas)
        except RuntimeError as e:
            return {"error": str(e)[:60], "cropped": None}
        rows = []
        for a in cropped:
            idx = rows_to_idx(case["cloud"], a)
            rows.append(idx if idx is not None else [-1])
        dtypes = sorted({str(a.dtype) for a in cropped})
        if tf:
            # add_frame_result is not run on MAP-frame ground truths: evaluate_frame asks for get_distance() without the transforms
            # and raises ValueError on the unchanged code (reported as a defect candidate, not part of this oracle)
            return {"cropped": rows, "dists": [float(o.get_distance(transforms)) for o in objs], "dtypes_out": dtypes}
        # the whole public pipeline: add_frame_result = crop_pointcloud + filter_objects + evaluate_frame
        n_before = len(m.frame_results)
        fcfg = case.get("fc", cfg)
        if fcfg is None:
            res = m.add_frame_result(0, FrameGroundTruth(0, "0", objs), pc, areas)
        else:
            tu = None if case.get("targets") is None else [str(i) for i in case["targets"]]
            fc = SensingFrameConfig(target_uuids=tu, box_scale_0m=fcfg["s0"], box_scale_100m=fcfg["s100"], min_points_threshold=fcfg["min_points"])
            res = m.add_frame_result(0, FrameGroundTruth(0, "0", objs), pc, areas, fc)
        appended = len(m.frame_results) - n_before
        stored = appended == 1 and m.frame_results[-1] is res
        del m.frame_results[n_before:]
        nd = []
        for a in res.pointcloud_failed_non_detection:
            idx = rows_to_idx(case["cloud"], a)
            nd.append(idx if idx is not None else [-1])
        used = res.sensing_frame_config        # the configuration the frame was evaluated with (the manager's own when none was given)
        all_objs = objs
        if case.get("targets") is not None:    # results are identified within the sub-list of target objects (the documented selection)
            objs = [objs[i] for i in case["targets"]]
            foreign = [r for k in ("detection_success_results", "detection_fail_results", "detection_warning_results") for r in getattr(res, k)
                       if not any(o is r.ground_truth_object for o in objs)]
            if foreign:
                return {"cropped": rows, "foreign": len(foreign), "dists": [float(o.get_distance()) for o in all_objs]}
        return {"cropped": rows, "scales": [float(used.get_scale_factor(o.get_distance())) for o in objs],
                "dists": [float(o.get_distance()) for o in all_objs],
                "success": [res_obs(r, objs, case["cloud"]) for r in res.detection_success_results],
                "fail": [res_obs(r, objs, case["cloud"]) for r in res.detection_fail_results],
                "warning": [res_obs(r, objs, case["cloud"]) for r in res.detection_warning_results],
                "nondet_rows": nd, "stored": bool(stored),
                "dtypes_out": sorted(set(dtypes) | {str(a.dtype) for a in res.pointcloud_failed_non_detection})}

    def coq_term(self, case, obs):
        cfg = c_cfg(case["cfg"])
        fcfg = c_cfg(case.get("fc", case["cfg"]) or case["cfg"])     # evaluate_frame reads the frame configuration, the crop the manager's
        areas = llit([llit([c_vertex(v) for v in a]) for a in case["areas"]])
        cloud = c_cloud(case["cloud"])
        if obs["cropped"] is None:
            gts = llit([c_gt(g, 0) for g in case["gts"]])
            return f"check_manager {case['ncols']} {cfg} {gts} {cloud} {areas} None"
        if obs.get("foreign"):
            return "false"
        if any(-1 in r for r in obs["cropped"] + obs.get("nondet_rows", [])) or any(-1 in r["rows"] for k in ("success", "fail", "warning") for r in obs.get(k, [])):
            return "false"
        gts = llit([c_gt(g, d) for g, d in zip(case["gts"], obs["dists"])])
        crop = f"(Some {llit([c_nats(r) for r in obs['cropped']])})"
        if case.get("map"):      # crop only; the model gets the distance the implementation measured, tied to |position - translation|
            dist_ok = " && ".join(f"Qclose (1 # 1000000) ({qlit(d)} * {qlit(d)}) {qlit(sum(F(v) ** 2 for v in g['rel']))}"
                                  for g, d in zip(case["gts"], obs["dists"]))
            return f"(check_manager {case['ncols']} {cfg} {gts} {cloud} {areas} {crop} && {dist_ok or 'true'})"
        # evaluate_frame is then run on the arrays the manager produced (given to the model as the implementation returned them)
        pcs = llit([c_cloud([case["cloud"][i] for i in r]) for r in obs["cropped"]])
        nd_local, ptr = [], 0
        for r in obs["nondet_rows"]:      # reported arrays come in the order of the (non-empty) arrays they were cut from
            while ptr < len(obs["cropped"]) and not (obs["cropped"][ptr] and set(r) <= set(obs["cropped"][ptr])):
                ptr += 1
            if ptr == len(obs["cropped"]):
                nd_local.append([10 ** 9])
                continue
            nd_local.append([obs["cropped"][ptr].index(i) for i in r])
            ptr += 1
        gts_f = gts if case.get("targets") is None else llit([c_gt(case["gts"][i], obs["dists"][i]) for i in case["targets"]])
        return (f"(check_manager {case['ncols']} {cfg} {gts} {cloud} {areas} {crop} && "
                f"check_frame {fcfg} {gts_f} {cloud} {pcs} {llit([qlit(s) for s in obs['scales']])} "
                f"{llit([c_res(r) for r in obs['success']])} {llit([c_res(r) for r in obs['fail']])} {llit([c_res(r) for r in obs['warning']])} "
                f"{llit([c_nats(r) for r in nd_local])})")

    def oracle(self, case, obs):
        bad = any(len(a) // 2 < 3 or len(a) % 2 for a in case["areas"])
        if obs["cropped"] is None:
            return None if bad else f"well-formed areas rejected: {obs.get('error')}"
        if bad:
            return "malformed non-detection area accepted"
        cfg, gts = case["cfg"], case["gts"]
        fcfg = case.get("fc", cfg) or cfg        # no frame configuration given: "parameters specified in initialization will be used"
        ks = [ideal_scale(g, cfg["s0"], cfg["s100"]) for g in gts]       # crop_pointcloud: the manager's scales
        kf = [ideal_scale(g, fcfg["s0"], fcfg["s100"]) for g in gts]     # evaluate_frame: the frame configuration's scales
        want = []
        for a in case["areas"]:
            h = len(a) // 2
            ring = [(F(v[0]), F(v[1])) for v in a[:h]]
            zlo, zhi = min(v[2] for v in a), max(v[2] for v in a)
            rows = []
            for i, row in enumerate(case["cloud"]):
                inside = crossing_inside((F(row[0]), F(row[1])), ring) and (len(row) < 3 or zlo <= row[2] <= zhi)
                if inside and not any(box_inside(g, k, row) for g, k in zip(gts, ks)):
                    rows.append(i)
            want.append(rows)
        if obs["cropped"] != want:
            j = next(i for i in range(len(want)) if i >= len(obs["cropped"]) or obs["cropped"][i] != want[i])
            return (f"manager.crop_pointcloud: area {j}: rows {str(obs['cropped'][j] if j < len(obs['cropped']) else None)[:120]} differ from 'inside the "
                    f"area and outside every box scaled with the manager's box_scale_0m/100m at the object's distance from the ego vehicle' {str(want[j])[:120]}")
        dt = case.get("dtype", "float64")
        if obs.get("dtypes_out", [dt]) not in ([dt], []):
            return f"a {dt} cloud came back as {obs['dtypes_out']}: the returned rows are not the rows of the input array"
        if case.get("map"):
            for i, (g, d) in enumerate(zip(gts, obs["dists"])):
                if abs(F(d) - exact_distance(g)) > TOL:
                    return f"object {i} (MAP frame): get_distance(transforms) = {d}, the object is {float(exact_distance(g))} from the ego vehicle"
            return None
        if obs.get("foreign"):
            return f"add_frame_result with target_uuids {case.get('targets')}: {obs['foreign']} detection result(s) refer to objects that are no targets"
        if case.get("targets") is not None:      # evaluate_frame sees the target objects only
            gts = [gts[i] for i in case["targets"]]
            kf = [kf[i] for i in case["targets"]]
        want_nd = [[i for i in r if not any(box_inside(g, k, case["cloud"][i]) for g, k in zip(gts, kf))] for r in want]
        if obs["nondet_rows"] != [r for r in want_nd if r]:
            return ("add_frame_result: pointcloud_failed_non_detection is not the list of non-empty remainders (rows of the manager's arrays outside "
                    f"every box scaled with the frame configuration): {str(obs['nondet_rows'])[:150]} vs {str([r for r in want_nd if r])[:150]}")
        if not obs.get("stored", True):
            return "add_frame_result did not append exactly the returned result to frame_results"
        o2 = dict(obs)
        o2["nondet"] = [[ci, [r.index(i) for i in nd]] for ci, (r, nd) in enumerate(zip(want, want_nd)) if nd]
        who = "add_frame_result" + {"none": " (no frame config: the manager's parameters)", "different": " (frame config differs from the manager's)"}.get(case.get("mode"), "")
        return frame_oracle(fcfg, gts, case["cloud"], [[case["cloud"][i] for i in r] for r in want], o2, who)

    def nontrivial(self, case, obs):
        return bool(obs.get("cropped")) and any(obs["cropped"]) and len(case["gts"]) > 0

    def distribution(self, cases, obs):
        d = {"areas": 0, "objects": 0, "points": 0, "rows_in_areas": 0, "errors": 0,
             "frame_config": {"none": 0, "same": 0, "different": 0, "map_crop_only": 0}, "rows_removed_only_by_the_frame_config_boxes": 0,
             "objects_whose_count_differs_between_the_two_scales": 0, "map_frame_objects": 0, "map_objects_whose_scale_depends_on_the_transform": 0,
             "cloud_dtype": {"float64": 0, "float32": 0}, "area_vertices_as": {"tuples": 0, "lists": 0}}
        for c, o in zip(cases, obs):
            d["areas"] += len(c["areas"])
            d["objects"] += len(c["gts"])
            d["points"] += len(c["cloud"])
            d["frame_config"][c.get("mode", "same")] += 1
            d["frame_config_with_target_uuids(strict_subset)"] = d.get("frame_config_with_target_uuids(strict_subset)", 0) + (c.get("targets") is not None)
            d["cloud_dtype"][c.get("dtype", "float64")] += 1
            d["area_vertices_as"][c.get("inner", "tuples")] += 1
            d["objects_high_above_or_below_the_ego"] = d.get("objects_high_above_or_below_the_ego", 0) + sum(1 for g in c["gts"] if g.get("elevated"))
            if c.get("map"):
                d["map_frame_objects"] += len(c["gts"])
                d["map_objects_whose_scale_depends_on_the_transform"] += sum(
                    1 for g in c["gts"] if ideal_scale(g, c["cfg"]["s0"], c["cfg"]["s100"]) != ideal_scale({"pos": g["pos"]}, c["cfg"]["s0"], c["cfg"]["s100"]))
            if o.get("cropped") is None:
                d["errors"] += 1
            else:
                d["rows_in_areas"] += sum(len(r) for r in o["cropped"])
                if c.get("mode") == "different":
                    d["rows_removed_only_by_the_frame_config_boxes"] += sum(len(r) for r in o["cropped"]) - sum(len(r) for r in o.get("nondet_rows", []))
                    cf = c["fc"]
                    for g in c["gts"]:
                        a = sum(1 for row in c["cloud"] if box_inside(g, ideal_scale(g, c["cfg"]["s0"], c["cfg"]["s100"]), row))
                        b = sum(1 for row in c["cloud"] if box_inside(g, ideal_scale(g, cf["s0"], cf["s100"]), row))
                        d["objects_whose_count_differs_between_the_two_scales"] += a != b
        return d


class C12(Prop):
    id = "C12"
    props_file = "Props/C12.v"
    # redundant tie (core.gen_tie): these functions, translated from the source on every run, equal the hand model for all inputs
    gen_tie_theorems = ['GenTie_SensingFrameConfig___init__', 'GenTie_get_scale_factor', 'GenTie_get_scale_factor_outside', 'GenTie_get_bbox_scale', 'GenTie_DynamicObjectWithSensingResult___init__', 'GenTie_DynamicObjectWithSensingResult___init___outside', 'GenTie__evaluate_pointcloud_for_detection', 'GenTie__evaluate_pointcloud_for_detection_outside', 'GenTie__evaluate_pointcloud_for_non_detection', 'GenTie__evaluate_pointcloud_for_non_detection_outside', 'GenTie_evaluate_frame', 'GenTie_evaluate_frame_outside']
    gen_files = []
    design_ref = "DESIGN.md section 4, C12"
    technique = ("Rocq proof about an executable model of crop_pointcloud (per-edge uint8 winding counter), box corners and the sensing frame "
                 "evaluation; in-Coq correspondence with the real code on lattice clouds; exact-Fraction slab / crossing-number oracles")
    level_text = ("Theorems (Props/C12.v, closed under the global context) for ALL rationals / clouds / object lists: the division-based edge test is "
                  "the sign of a cross product; the uint8 counter is the sum of edge contributions mod 256; inside/outside selections partition "
                  "every cloud for any polygon, any vertex heights, 2, 3 or more columns; for a yaw-only box with ANY non-zero rational direction "
                  "(all four quadrants and the axis-aligned directions), any centre, size and scale k > 0, a row strictly inside the footprint scaled "
                  "by k and within [z-h/2, z+h/2] is selected and a row strictly outside is not (interior AND exterior proved, no sign case left); "
                  "k <= k' never removes an inside row (all rows, boundary included); every ground truth lands in exactly one of success / fail / "
                  "warning (warning iff Visibility.NONE, tested first; success iff count >= threshold); non-detection failures are exactly the rows of "
                  "the given clouds that are inside no scaled box, empty remainders dropped, second crop idempotent, manager arrays = inside the area "
                  "and inside no box. In the correspondence the manager's arrays are cut with the MANAGER's box scales (distance from the ego vehicle, "
                  "also for MAP-frame objects given with the frame's BASE_LINK->MAP transform) and add_frame_result classifies and cuts again with "
                  "the FRAME configuration (omitted = the manager's parameters, or different scales / threshold). The model is run against crop_pointcloud, DynamicObject.get_corners/crop_pointcloud/"
                  "get_inside_pointcloud_num/point_exist, get_bbox_scale, SensingFrameResult.evaluate_frame and "
                  "SensingEvaluationManager.crop_pointcloud/add_frame_result on every run; returned rows are compared as exact index lists in Coq.")
    level_note = ("Trusted: Coq kernel + vm_compute; hand-written models tied by this run's correspondence; exact Fraction encoding of floats. "
                  "Model boxes carry the rational rotation the quaternion approximates (corners compared within 1e-9); clouds are lattice points "
                  ">= 1/8 from every face so binary64 rounding cannot flip a decision; distances are rational (lattice positions with square norm). "
                  "General non-detection prisms are validated against an independent crossing-number evaluator in Python only.")
    rule = ("crop: lattice prisms (8 templates + star polygons, CW/CCW, rotated start vertex, 2-5 columns, non-constant vertex heights, multiply-wound "
            "and self-intersecting rings, malformed inputs) with clouds >= 1/8 from every edge incl. rows level with vertices; box: 22 rational yaws in "
            "all quadrants + axis-aligned + 6 tilted quaternions, fixed and distance-dependent scales, second scale k+dk for monotonicity; "
            "frame/manager: scenes with 0-6 objects incl. overlapping, visibility values and aliases, thresholds hit with equality; "
            "manager: add_frame_result with the frame config omitted / equal to / different from the manager's scales and threshold (1/3 each), plus "
            "crop-only scenes of MAP-frame objects with identity and non-identity BASE_LINK->MAP transforms; "
            "representations: float64 and float32 clouds (dtype and column count must come back unchanged), area vertices as tuples or lists, "
            "scale argument left at its default when k = 1, clouds that are not 2-D (flat and 3-D arrays) in the malformed stream, every frame "
            "evaluated a second time with a fresh SensingFrameResult over the same objects; "
            "every other 'different' manager case gives the FRAME configuration larger boxes than the manager's at every distance, so that the "
            "second cut of add_frame_result removes rows the manager's cut left in the areas; "
            "numeric edges: every eighth object of the frame / manager scenes hangs HIGH above or below the ego vehicle (|z| 8-14 m within 6 m in the "
            "ground plane, rational 3-D distance; 70 % of such scenes use a steep scale law box_scale_100m = 5) with extra rows between the box "
            "scaled at the 3-D distance and the one scaled at the ground-plane distance, so that the distance the scale law uses is pinned to "
            "the distance to the object; dense frame scenes in which one large object (listed first or second) holds MORE THAN 255 rows, with "
            "min_points_threshold at 256 / 257 / the count / count +- 1 / count - 200 (counts and masks kept in 8 bits wrap); "
            "non-trivial = both inside and outside rows (crop, box), at least two result classes (frame), rows in areas and objects (manager)")
    assumptions = [
        "finite coordinates (NaN/inf outside the model); numpy arrays are rectangular",
        "prisms as documented in crop_pointcloud: lower plane has the same xy shape as the upper plane (the closing-edge test reads area[n])",
        "fewer than 256 windings around a row (uint8 counter)",
        "rectangle theorems: yaw-only orientation; rows exactly on the footprint boundary follow the half-open edge rule and are not specified",
        "float rounding in pyquaternion/numpy is covered by the 1/8 decision margin of the generated clouds and the 1e-9 tolerance on corners/scales",
    ]
    not_proved = [
        "geometric exactness for general (non-convex) prisms: crossing-number oracle in Python only",
        "rows exactly on a box face or edge",
        "roll/pitch: the code crops a vertical prism over the projected footprint with z = centre +- h/2, which is not the tilted 3-D box "
        "(model and oracle follow the code; see report)",
        "nearest_point of DynamicObjectWithSensingResult; target_uuids filtering in add_frame_result (C10)",
        "add_frame_result / evaluate_frame on MAP-frame ground truths (the unchanged code raises ValueError 'transforms must be specified': "
        "evaluate_frame asks get_distance() without the frame's transforms); only manager.crop_pointcloud(..., transforms) is exercised there",
    ]

    def correspondences(self):
        return [CropCorr(), BoxCorr(), FrameCorr(), ManagerCorr()]


READY = True
PROP = C12()
