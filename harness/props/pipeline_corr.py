"""End-to-end correspondence for ONE frame of the 3D detection pipeline (used by C03 / C04, optionally C08).

`PipelineCorr` runs the REAL `PerceptionEvaluationManager.add_frame_result` on generated 3D scenes and asks the
composed Coq model (Model/Pipeline.v = Matching -> Filter -> PassFail -> AP) to reproduce EVERY observable from
PRE-matching facts only:
    per-object facts of the objects handed to the matcher (read through public getters),
    estimate x ground-truth tables: frame ids, centre-distance value, is_same_label, plane-distance value,
    heading weight (TPMetricsAph), and the configurations as the real config objects expose them.
Observables compared inside Coq: the matcher's index pairs in order, frame.object_results after the critical
filter, the critical ground truths, TP / FP / TN / FN lists, success / fail counts and, for every centre-distance
and plane-distance Map of frame.metrics_score, per label: tp_list, fp_list, AP, APH, num_ground_truth, mAP, mAPH;
also the exception class when add_frame_result raises (KeyError for a detection target outside the critical targets).

The Python `oracle` states the properties directly on the implementation's outputs (no model involved):
    #TP counted by Ap(L) <= num_ground_truth(L) = number of critical ground truths labelled L,
    every AP / APH / mAP / mAPH in [0, 1], APH <= AP, surviving results = TP + FP, |ordinary critical GT| = |TP| + |FN|,
    plus the complete C03 accounting oracle and one-to-one-ness of the matching.

Standalone use (see the report): a Prop subclass with `correspondences = [PipelineCorr()]`."""
import os
from fractions import Fraction

from harness.lib.core import BUILD, REPO, Corr, blit, llit, olit, qlit
from harness.props.C01 import read_facts
from harness.props.C03 import accounting_oracle, cfg_from_params, configs_vs_case, crit_config, eq_keys, frame_ground_truth, keys_vs_spec, pf_config
from harness.props.C10 import EGO_POSES, NAMES, UUIDS, build_object, cfg_lit, ego_to_frame, label_id, obj_lit, object_facts

os.environ.setdefault("TQDM_DISABLE", "1")
FIXTURE = os.path.join(REPO, "perception_eval", "test", "sample_data")

HEADER = ("From Coq Require Import List Bool ZArith String QArith.\n"
          "From PE Require Import Base.CaseUtil Model.Matching Model.Filter Model.PassFail Model.Pipeline.\n"
          "From PE Require Model.AP.\n"
          "Import ListNotations.\nOpen Scope string_scope.\nOpen Scope Q_scope.\nOpen Scope nat_scope.\nOpen Scope bool_scope.\n")

POLICIES = ["DEFAULT", "ALLOW_UNKNOWN", "ALLOW_ANY"]
LABEL_POOL = ["car", "bus", "pedestrian", "bicycle", "motorbike", "truck"]
# estimate offsets from "its" ground truth (metres, on the 1/8 lattice): symmetric pairs give exact ties,
# (3,4,5)/8-triangles hit the distance thresholds exactly
OFFSETS = [(0.0, 0.0), (0.5, 0.0), (-0.5, 0.0), (0.0, 0.5), (1.0, 0.0), (0.0, -1.0), (0.375, 0.5), (0.75, 1.0), (1.5, 2.0),
           (2.0, 0.0), (0.0, 2.0), (0.25, 0.0), (3.0, 4.0), (1.5, 0.0), (0.625, 0.0), (-1.25, 0.0)]
# every pool holds the falsy-but-valid 0: a threshold / radius of exactly 0 is a bound nothing is strictly better than, not "no bound"
THR_CENTER = [0.5, 0.625, 1.0, 1.25, 1.5, 2.0, 2.5, 5.0, 0.0]
THR_PLANE = [0.5, 1.0, 1.0, 2.0, 3.0, 0.0]
RADII = [0.5, 1.0, 1.25, 2.0, 2.5, 5.0, 100.0, 0.0]
YAW_Q = [[1.0, 0.0, 0.0, 0.0], [0.0, 0.0, 0.0, 1.0], [0.6, 0.0, 0.0, 0.8], [0.8, 0.0, 0.0, -0.6], [0.28, 0.0, 0.0, 0.96]]
_MANAGERS = {}


# ------------------------------------------------------------------------------------------------
# building the real manager / objects
# ------------------------------------------------------------------------------------------------
def manager_for(case):
    """A real PerceptionEvaluationManager on the bundled fixture (no dataset is loaded); cached per configuration."""
    from perception_eval.config import PerceptionEvaluationConfig
    from perception_eval.manager import PerceptionEvaluationManager

    ev = case["eval"]
    key = (case["frame"], tuple(ev["targets"]), case["policy"], bool(case["fpv"]), repr(ev.get("radii")), repr(ev.get("center")),
           repr(ev.get("plane")), repr(ev.get("max_x")), repr(ev.get("max_y")), repr(ev.get("conf")), repr(ev.get("max_dist")),
           repr(ev.get("min_dist")), repr(ev.get("min_pts")), repr(ev.get("ignore")))
    if key not in _MANAGERS:
        n = len(ev["targets"])
        d = {"evaluation_task": "fp_validation" if case["fpv"] else "detection", "target_labels": list(ev["targets"]),
             "min_point_numbers": ev.get("min_pts") or [0] * n, "max_matchable_radii": ev.get("radii"), "label_prefix": "autoware",
             "merge_similar_labels": False, "matching_label_policy": case["policy"]}
        if ev.get("max_dist") is not None:
            d["max_distance"], d["min_distance"] = ev["max_dist"], ev["min_dist"]       # a distance ring instead of the x/y box
        else:
            d["max_x_position"], d["max_y_position"] = ev.get("max_x", 1000.0), ev.get("max_y", 1000.0)
        if ev.get("ignore") is not None:
            d["ignore_attributes"] = list(ev["ignore"])
        if ev.get("conf") is not None:
            d["confidence_threshold"] = ev["conf"]
        if not case["fpv"]:
            d["center_distance_thresholds"] = ev.get("center")
            d["plane_distance_thresholds"] = ev.get("plane")
        # detection: on the bundled fixture; fp_validation: the fixture's labels are rejected by the loader -> no dataset
        paths = [] if case["fpv"] else [FIXTURE]
        ec = PerceptionEvaluationConfig(paths, case["frame"],
                                        os.path.join(BUILD, "pipeline_results", str(os.getpid())), d, False)
        _MANAGERS[key] = PerceptionEvaluationManager(ec)
    return _MANAGERS[key]


def expected_eval_cfg(case):
    """the evaluator-level filter criteria as the configuration dict of `manager_for` documents them (a number applies to every target
    label, a list gives one entry per target label), in the JSON shape of harness/props/C10.py"""
    ev = case["eval"]
    n = len(ev["targets"])

    def per_label(v):
        return None if v is None else ([float(x) for x in v] if isinstance(v, list) else [float(v)] * n)

    cfg = {"targets": [("autoware", t) for t in ev["targets"]], "ignore": ev.get("ignore"), "max_x": None, "max_y": None, "max_dist": None,
           "min_dist": None, "min_pts": [int(x) for x in (ev.get("min_pts") or [0] * n)], "conf": per_label(ev.get("conf")), "uuids": None}
    if ev.get("max_dist") is not None:
        cfg["max_dist"], cfg["min_dist"] = per_label(ev["max_dist"]), per_label(ev["min_dist"])
    else:
        cfg["max_x"], cfg["max_y"] = per_label(ev.get("max_x", 1000.0)), per_label(ev.get("max_y", 1000.0))
    return cfg


def build_scene(case):
    ests = [build_object(d, d.get("frame", case["frame"])) for d in case["ests"]]
    gts = [build_object(d, d.get("frame", case["frame"])) for d in case["gts"]]
    return ests, gts, frame_ground_truth(case, gts)


def pair_tables(fe, fg, policy, transforms):
    """estimate x ground-truth tables the matcher does not look at: plane distance, heading weight.
    Read from a DynamicObjectWithPerceptionResult built for EVERY same-frame pair (not only the matched ones)."""
    from perception_eval.evaluation import DynamicObjectWithPerceptionResult
    from perception_eval.evaluation.metrics.detection.tp_metrics import TPMetricsAp, TPMetricsAph

    aph, ap = TPMetricsAph(), TPMetricsAp()
    plane, heading, unit = [], [], True
    for e in fe:
        prow, hrow = [], []
        for g in fg:
            if e.frame_id != g.frame_id:
                prow.append(None)
                hrow.append(0.0)
                continue
            r = DynamicObjectWithPerceptionResult(e, g, policy, transforms=transforms)
            v = r.plane_distance.value
            prow.append(None if v is None or v != v else float(v))
            hrow.append(float(aph.get_value(r)))
            unit = unit and ap.get_value(r) == 1.0
        plane.append(prow)
        heading.append(hrow)
    return plane, heading, unit


def observe_maps(ms):
    """centre-distance and plane-distance Maps of a MetricsScore, in the order evaluate_detection creates them"""
    out = {"center": [], "plane": [], "other_modes": []}

    def num(x):
        return None if x == float("inf") else float(x)

    def ap_obs(a):
        return {"tp": [float(x) for x in a.tp_list], "fp": [float(x) for x in a.fp_list], "ap": num(a.ap), "ngt": int(a.num_ground_truth),
                "n": int(a.objects_results_num), "label": label_id(a.target_labels[0]), "thr": float(a.matching_threshold_list[0])}

    for m in ms.maps:
        d = {"aps": [ap_obs(a) for a in m.aps], "aphs": [ap_obs(a) for a in m.aphs], "map": num(m.map), "maph": num(m.maph),
             "thr": [float(t) for t in m.matching_threshold_list]}
        k = {"CENTERDISTANCE": "center", "PLANEDISTANCE": "plane"}.get(m.matching_mode.name)
        if k is None:
            out["other_modes"].append(m.matching_mode.name)
        else:
            out[k].append(d)
    return out


def index_pairs(results, ei, gi):
    return [[ei.get(id(r.estimated_object), -1), None if r.ground_truth_object is None else gi.get(id(r.ground_truth_object), -1)]
            for r in results]


# ------------------------------------------------------------------------------------------------
# generation
# ------------------------------------------------------------------------------------------------
def _obj(label, frame, ego, xy, conf, uuid, pts, quat_i=0, size=(2.0, 1.0, 1.0), z=0.0, attrs=()):
    """object at the ego-relative lattice point xy with ego-relative yaw YAW_Q[quat_i], rendered in `frame`"""
    from pyquaternion import Quaternion

    q = Quaternion(YAW_Q[quat_i])
    if frame == "map":
        q = Quaternion(ego["quat"]) * q
    return {"family": "autoware", "label": label, "name": NAMES[label][0], "attrs": list(attrs), "conf": conf, "uuid": uuid, "pts": pts,
            "pos": ego_to_frame(frame, ego, (xy[0], xy[1], z)), "quat": [float(v) for v in q.elements], "size": list(size), "frame": frame,
            "ego_xy": [float(xy[0]), float(xy[1])], "yaw_i": quat_i}


def gen_case(rng, stream):
    frame = "base_link" if rng.random() < 0.45 else "map"
    ego = EGO_POSES[0] if frame == "base_link" and rng.random() < 0.5 else rng.choice(EGO_POSES)
    other = "map" if frame == "base_link" else "base_link"
    n_t = rng.choice([1, 2, 2, 3, 3, 4])
    targets = rng.sample(LABEL_POOL[:5], n_t)
    if rng.random() < 0.12:
        targets.append("unknown")          # unknown as an evaluator target: unknown estimates use their own bounds
    small = stream == "boundary"
    ng = rng.choice([0, 1, 1, 2, 3]) if small else rng.randint(2, 8)
    ne = rng.choice([0, 1, 2, 3]) if small else rng.randint(2, 9)
    conf_pool = [0.25, 0.5, 0.75] if rng.random() < 0.35 else [k / 64.0 for k in range(0, 65)]       # confidences of exactly 0 and 1 included
    gts, used = [], set()
    while len(gts) < ng:
        p = (float(rng.randint(-11, 11)), float(rng.randint(-5, 5)))
        if rng.random() < 0.3:
            p = (float(rng.choice([-10, 10, 8, 6, 3, -3, 12, 14])), float(rng.choice([-5, 5, 0, 4, -4, 7])))
        lab = rng.choice(targets * 3 + ["false_positive", "false_positive", "truck", "unknown"])
        qi = rng.randrange(len(YAW_Q))
        if gts and rng.random() < 0.1:
            p = tuple(rng.choice(gts)["ego_xy"])     # at the very position of another ground truth: the keys differ by label / orientation
        if (p, lab, qi) in used:
            continue                        # ground truths with identical __eq__ keys are outside the quantifier
        used.add((p, lab, qi))
        gts.append(_obj(lab, frame if rng.random() < 0.95 else other, ego, p, 1.0, rng.choice(UUIDS), rng.choice([0, 1, 3, 5, 10]),
                        qi, rng.choice([(2.0, 1.0, 1.0), (4.0, 2.0, 1.5), (1.0, 1.0, 2.0)]),
                        attrs=rng.sample(["vehicle_state.parked", "cycle_state.without_rider"], rng.choice([0, 0, 0, 1]))))
    ests = []
    for _ in range(ne):
        conf = rng.choice(conf_pool)
        if gts and rng.random() < 0.8:
            g = rng.choice(gts)                       # several estimates may contest one ground truth
            r = rng.random()
            lab = g["label"] if (r < 0.68 and g["label"] != "false_positive") else ("unknown" if r < 0.82 else rng.choice(targets + ["truck"]))
            dx, dy = rng.choice(OFFSETS)
            sgn = rng.choice([-1, 1])
            same_box = rng.random() < 0.7
            qi = g["yaw_i"] if same_box else rng.randrange(len(YAW_Q))
            ests.append(_obj(lab, g["frame"] if rng.random() < 0.95 else other, ego, (g["ego_xy"][0] + sgn * dx, g["ego_xy"][1] + sgn * dy), conf,
                             None, None, qi, tuple(g["size"]) if same_box else (2.0, 1.0, 1.0)))
        else:
            lab = rng.choice(targets + ["unknown", "truck"])
            ests.append(_obj(lab, frame, ego, (rng.randint(-112, 112) / 8.0, rng.randint(-56, 56) / 8.0), conf, None, None, rng.randrange(len(YAW_Q))))
    rng.shuffle(ests)
    # evaluator (manager-level) configuration
    ev = {"targets": targets, "max_x": rng.choice([1000.0, 1000.0, 13.0]), "max_y": rng.choice([1000.0, 1000.0, 6.5])}
    r = rng.random()
    if r < 0.2:
        # the evaluator's other range kind: a distance ring (one number, or one per target label)
        del ev["max_x"], ev["max_y"]
        ev["max_dist"] = rng.choice([1000.0, 13.0, 12.5]) if rng.random() < 0.5 else [rng.choice([1000.0, 13.0, 10.0]) for _ in targets]
        ev["min_dist"] = rng.choice([0.0, 0.0, 3.0]) if rng.random() < 0.5 else [rng.choice([0.0, 0.0, 3.0, 5.0]) for _ in targets]
    if rng.random() < 0.2:
        ev["min_pts"] = [rng.choice([0, 1, 3, 5]) for _ in targets]          # evaluator-level minimum point numbers other than 0
    if rng.random() < 0.12:
        ev["ignore"] = rng.choice([["vehicle_state.parked"], ["cycle_state.without_rider", "construction"], []])
    r = rng.random()
    ev["radii"] = None if r < 0.25 else (rng.choice(RADII) if r < 0.5 else [rng.choice(RADII) for _ in targets])
    n_c = rng.choice([1, 1, 2])
    ev["center"] = [[rng.choice(THR_CENTER) for _ in targets] for _ in range(n_c)]
    ev["plane"] = None if rng.random() < 0.3 else [[rng.choice(THR_PLANE) for _ in targets]]
    if rng.random() < 0.15:
        ev["conf"] = rng.choice([0.25, 0.5, 0.0])
    # critical filter: its targets usually contain the evaluator's (otherwise the metrics raise KeyError)
    ct = list(targets)
    rng.shuffle(ct)
    r = rng.random()
    if r < 0.25:
        ct += rng.sample([l for l in LABEL_POOL + ["unknown"] if l not in ct], 1)
    elif r < 0.29 and len(ct) > 1:
        ct.pop()                             # a detection target without critical entry: KeyError
    crit = {"targets": ct}
    n_c = len(ct)
    if rng.random() < 0.55:
        crit["max_x"] = [rng.choice([10.0, 8.0, 12.0, 12.0, 3.0, 100.0, 100.0]) for _ in range(n_c)]
        crit["max_y"] = [rng.choice([5.0, 4.0, 6.0, 100.0, 100.0]) for _ in range(n_c)]
    else:
        crit["max_dist"] = [rng.choice([10.0, 5.0, 12.5, 100.0, 100.0]) for _ in range(n_c)]
        crit["min_dist"] = [rng.choice([0.0, 0.0, 0.0, 3.0, 5.0]) for _ in range(n_c)]
    if rng.random() < 0.3:
        crit["min_pts"] = [rng.choice([0, 1, 3, 5]) for _ in range(n_c)]
    if rng.random() < 0.25:
        crit["conf"] = [rng.choice([0.0, 0.0, 0.25, 0.5, 0.5, 0.75, 1.0]) for _ in range(n_c)]
    if rng.random() < 0.12:
        crit["uuids"] = rng.sample(UUIDS, rng.choice([0, 2, 3, 4]))
    if rng.random() < 0.15:
        crit["ignore"] = rng.choice([[], ["vehicle_state.parked"], ["bus"]])
    pf = {"targets": rng.choice([ct, ct, targets, rng.sample(LABEL_POOL, rng.choice([1, 2, 3])), None])}
    n_pf = len(pf["targets"]) if pf["targets"] else 9           # None: every label of the family is a target
    pf["thresholds"] = None if rng.random() < 0.12 else [rng.choice(THR_PLANE) for _ in range(n_pf)]
    return {"frame": frame, "ego": ego, "ests": ests, "gts": gts, "policy": rng.choice(POLICIES), "fpv": rng.random() < 0.15,
            "eval": ev, "crit": crit, "pf": pf, "stream": stream}


def _fixed(frame, ego, policy="ALLOW_UNKNOWN", fpv=False, **over):
    """every status, two labels, an unknown estimate matched under ALLOW_UNKNOWN, FP-labelled ground truths hit and
    missed, a score exactly on the pass/fail threshold and on the AP threshold, a confidence tie, objects outside
    the critical range (the scene of Props/Pipeline.v's non-vacuity example)"""
    G = lambda lab, xy, u, pts=3: _obj(lab, frame, ego, xy, 1.0, u, pts)            # noqa: E731
    E = lambda lab, xy, c, qi=0: _obj(lab, frame, ego, xy, c, None, None, qi)       # noqa: E731
    c = {"frame": frame, "ego": ego, "policy": policy, "fpv": fpv, "stream": "regression",
         "gts": [G("car", (1.0, 0.0), "a"), G("car", (4.0, 2.0), "b"), G("pedestrian", (-3.0, 1.0), "c"),
                 G("false_positive", (4.0, -4.0), "d"), G("false_positive", (-6.0, -4.0), "e"), G("car", (0.0, 3.0), "a"),
                 G("false_positive", (0.0, -2.0), "b"), G("car", (30.0, 0.0), "c"), G("pedestrian", (7.0, 4.0), "d")],
         "ests": [E("car", (1.5, 0.0), 0.5), E("car", (5.0, 2.0), 0.5), E("unknown", (-3.0, 1.5), 0.75), E("car", (2.0, -4.0), 0.25),
                  E("car", (-6.5, -4.0), 0.625), E("car", (8.0, 4.0), 0.5), E("car", (30.5, 0.0), 0.875), E("pedestrian", (7.0, 4.25), 0.375, 1),
                  E("car", (-8.0, 3.0), 0.125)],
         "eval": {"targets": ["car", "pedestrian"], "max_x": 1000.0, "max_y": 1000.0, "radii": [2.5, 2.5], "center": [[1.0, 0.5], [2.0, 2.0]],
                  "plane": [[1.0, 1.0]]},
         "crit": {"targets": ["car", "pedestrian"], "max_x": [10.0, 10.0], "max_y": [5.0, 5.0]},
         "pf": {"targets": ["car", "pedestrian"], "thresholds": [1.0, 1.0]}}
    c.update(over)
    return c


def regressions():
    out = []
    for frame, ego in (("base_link", EGO_POSES[0]), ("map", EGO_POSES[1]), ("map", EGO_POSES[3])):
        for pol in POLICIES:
            out.append(_fixed(frame, ego, pol))
        out.append(_fixed(frame, ego, fpv=True))
        out.append(_fixed(frame, ego, pf={"targets": ["car", "pedestrian"], "thresholds": None}))
        out.append(_fixed(frame, ego, pf={"targets": None, "thresholds": [1.0] * 9}))     # = the scene of Props/Pipeline.v
        out.append(_fixed(frame, ego, pf={"targets": None, "thresholds": [3.0] * 9}))
        out.append(_fixed(frame, ego, crit={"targets": ["car"], "max_x": [10.0], "max_y": [5.0]}))          # KeyError: pedestrian
        out.append(_fixed(frame, ego, crit={"targets": ["pedestrian", "car", "bus"], "max_dist": [10.0, 12.5, 5.0], "min_dist": [0.0, 1.0, 0.0]}))
        # the witness of the former `transform=` typo (F1): an estimate far outside the critical region
        G = lambda lab, xy, u: _obj(lab, frame, ego, xy, 1.0, u, 3)      # noqa: E731
        E = lambda lab, xy, c: _obj(lab, frame, ego, xy, c, None, None)  # noqa: E731
        out.append({"frame": frame, "ego": ego, "policy": "DEFAULT", "fpv": False, "stream": "regression",
                    "gts": [G("car", (1.5, 0.0), "a"), G("car", (30.5, 0.0), "b")], "ests": [E("car", (1.0, 0.0), 0.5), E("car", (30.0, 0.0), 0.75)],
                    "eval": {"targets": ["car"], "max_x": 1000.0, "max_y": 1000.0, "radii": None, "center": [[1.0]], "plane": [[2.0]]},
                    "crit": {"targets": ["car"], "max_x": [10.0], "max_y": [10.0]}, "pf": {"targets": ["car"], "thresholds": [1.0]}})
        # empty lists
        out.append(dict(out[-1], gts=[]))
        out.append(dict(out[-2], ests=[]))
        out.append(dict(out[-3], ests=[], gts=[]))
    return out


# ------------------------------------------------------------------------------------------------
# Coq literals
# ------------------------------------------------------------------------------------------------
def nat_l(xs):
    return llit([str(int(x)) for x in xs])


def oq_table(t):
    return llit([llit([olit(v, qlit) for v in row]) for row in t])


def pairs_lit(ps):
    return llit([f"({e}, {olit(g, str)})" for e, g in ps])


def ap_obs_lit(a):
    return f"({llit([qlit(x) for x in a['tp']])}, {llit([qlit(x) for x in a['fp']])}, {olit(a['ap'], qlit)}, {a['ngt']})"


def map_obs_lit(m):
    return (f"({llit([ap_obs_lit(a) for a in m['aps']])}, {llit([ap_obs_lit(a) for a in m['aphs']])}, "
            f"{olit(m['map'], qlit)}, {olit(m['maph'], qlit)})")


def scene_terms(obs):
    """(let-bound) Coq terms of the inputs: object lists, facts, tables, configurations"""
    f = obs["facts"]
    ests = llit([obj_lit(i, o, 1000 + i) for i, o in enumerate(obs["est_facts"])])
    gts = llit([obj_lit(i, o, obs["gt_keys"][i]) for i, o in enumerate(obs["gt_facts"])])
    radii = olit(obs["radii"], lambda l: llit([qlit(x) for x in l]))
    facts = (f"(scene_facts {nat_l(obs['eval_targets'])} {radii} {nat_l(f['est_frame'])} {nat_l(f['gt_frame'])} "
             f"{oq_table(f['value'])} {llit([llit([blit(b) for b in row]) for row in f['same_label']])} ests gts)")
    tables = f"(mkTables {oq_table(obs['plane'])} {llit([llit([qlit(x) for x in row]) for row in obs['heading']])})"
    pf = (f"(mkPF {olit(obs['pf_targets'], lambda l: llit([str(x) for x in l]))} "
          f"{olit(obs['pf_thresholds'], lambda l: llit([qlit(x) for x in l]))})")
    det = (f"(mkDet {nat_l(obs['det_targets'])} {llit([llit([qlit(x) for x in l]) for l in obs['det_center']])} "
           f"{llit([llit([qlit(x) for x in l]) for l in obs['det_plane']])})")
    return ests, gts, facts, tables, cfg_lit(obs["crit"]), pf, det


def observed_lit(obs):
    if "error" in obs:
        return {"TypeError": "ObsType", "IndexError": "ObsIndex", "KeyError": "ObsKey"}.get(obs["error"])
    return (f"(ObsDone {pairs_lit(obs['matched'])} {pairs_lit(obs['results'])} {nat_l(obs['gts'])} {pairs_lit(obs['tp'])} "
            f"{pairs_lit(obs['fp'])} {nat_l(obs['tn'])} {nat_l(obs['fn'])} {obs['num_success']} {obs['num_fail']} "
            f"{llit([map_obs_lit(m) for m in obs['maps']['center']])} {llit([map_obs_lit(m) for m in obs['maps']['plane']])})")


# ------------------------------------------------------------------------------------------------
class PipelineCorr(Corr):
    name = "frame_pipeline"
    header = HEADER
    requires = ["Model/Pipeline.vo", "Model/Matching.vo", "Model/Filter.vo", "Model/PassFail.vo", "Model/AP.vo", "Base/CaseUtil.vo"]
    shard = 24
    n_quick = 160
    n_thorough = 3000

    def cases(self, tier, rng):
        import shutil

        shutil.rmtree(os.path.join(BUILD, "pipeline_results"), ignore_errors=True)
        out = regressions()
        n = self.n_quick if tier == "quick" else self.n_thorough
        for _ in range(n):
            out.append(gen_case(rng, "typical" if rng.random() < 0.75 else "boundary"))
        return out

    def run_impl(self, case):
        from perception_eval.evaluation.matching import MatchingLabelPolicy
        from perception_eval.evaluation.matching.objects_filter import filter_objects
        from perception_eval.evaluation.result.object_result import get_object_results

        try:
            manager = manager_for(case)
            ec = manager.evaluator_config
            ests, gts, fgt = build_scene(case)
            crit, pf = crit_config(ec, case["crit"]), pf_config(ec, case["pf"])
        except Exception as e:     # a (mutated) configuration class may reject a well-formed configuration: an observation
            return {"error": "config", "error_text": f"building the evaluator / frame configurations raised {type(e).__name__}: {e}"[:300]}
        policy = MatchingLabelPolicy.from_str(case["policy"])
        # ---- PRE-matching facts: the objects the manager hands to the matcher (public filter, the manager's parameters)
        fe = filter_objects(list(ests), False, transforms=fgt.transforms, **ec.filtering_params)
        fg = filter_objects(list(gts), True, transforms=fgt.transforms, **ec.filtering_params)
        ei = {id(o): i for i, o in enumerate(fe)}
        gi = {id(o): i for i, o in enumerate(fg)}
        radii = ec.filtering_params["max_matchable_radii"]
        facts, ok, _live, on_radius = read_facts(fe, fg, manager.target_labels, radii, policy, "CENTERDISTANCE", fgt.transforms)
        plane, heading, unit = pair_tables(fe, fg, policy, fgt.transforms)
        det = ec.metrics_config.detection_config
        obs = {
            "est_facts": [object_facts(o, fgt.transforms) for o in fe], "gt_facts": [object_facts(o, fgt.transforms) for o in fg],
            "gt_keys": eq_keys(fg), "facts": facts, "ok": ok, "on_radius": on_radius, "plane": plane, "heading": heading, "ap_weight_is_1": unit,
            "eval_targets": [label_id(l) for l in manager.target_labels], "radii": None if radii is None else [float(x) for x in radii],
            "crit": cfg_from_params(crit.filtering_params),
            "pf_targets": None if pf.target_labels is None else [label_id(l) for l in pf.target_labels],
            "pf_thresholds": pf.matching_threshold_list,
            "det_targets": [] if det is None else [label_id(l) for l in det.target_labels],
            "det_center": [] if det is None else [[float(x) for x in l] for l in det.center_distance_thresholds],
            "det_plane": [] if det is None else [[float(x) for x in l] for l in det.plane_distance_thresholds],
            "n_in": [len(ests), len(gts)],
            # the manager-level filter that precedes the matcher (C10's model must select the same objects)
            "pre": {"cfg": cfg_from_params(ec.filtering_params), "est_all": [object_facts(o, fgt.transforms) for o in ests],
                    "gt_all": [object_facts(o, fgt.transforms) for o in gts],
                    "kept_est": [i for i, o in enumerate(ests) if id(o) in ei], "kept_gt": [i for i, o in enumerate(gts) if id(o) in gi]},
        }
        matched = get_object_results(ec.evaluation_task, list(fe), list(fg), manager.target_labels, policy,
                                     matchable_thresholds=radii, transforms=fgt.transforms)
        obs["matched"] = index_pairs(matched, ei, gi)
        # ---- the real thing
        manager.frame_results.clear()          # every case is a first frame
        n_before = len(fgt.objects)
        try:
            fr = manager.add_frame_result(100, fgt, list(ests), crit, pf)
        except (KeyError, TypeError, IndexError) as e:
            obs["error"] = type(e).__name__
            obs["error_text"] = str(e)[:200]
            return obs
        p = fr.pass_fail_result
        obs.update({
            "results": index_pairs(fr.object_results, ei, gi), "gts": [gi.get(id(o), -1) for o in fr.frame_ground_truth.objects],
            "tp": index_pairs(p.tp_object_results, ei, gi), "fp": index_pairs(p.fp_object_results, ei, gi),
            "tn": [gi.get(id(o), -1) for o in p.tn_objects], "fn": [gi.get(id(o), -1) for o in p.fn_objects],
            "num_success": p.get_num_success(), "num_fail": p.get_num_fail(),
            "maps": observe_maps(fr.metrics_score), "num_ground_truth": int(fr.metrics_score.num_ground_truth),
            "dataset_frame_untouched": len(fgt.objects) == n_before and all(a is b for a, b in zip(fgt.objects, gts)),
        })
        return obs

    # ---- Coq side
    def _lets(self, obs):
        ests, gts, facts, tables, crit, pf, det = scene_terms(obs)
        return (f"let ests := {ests} in let gts := {gts} in let F := {facts} in let T := {tables} in "
                f"let crit := {crit} in let pf := {pf} in let det := {det} in "), obs

    def coq_term(self, case, obs):
        o = observed_lit(obs)
        if o is None:
            return "false"
        lets, _ = self._lets(obs)
        f = obs["facts"]
        pre = obs["pre"]
        pre_cfg = cfg_lit(pre["cfg"])
        pre_term = (f"check_filter_objects {pre_cfg} true false {llit([obj_lit(i, o) for i, o in enumerate(pre['est_all'])])} (Ok {nat_l(pre['kept_est'])}) && "
                    f"check_filter_objects {pre_cfg} true true {llit([obj_lit(i, o) for i, o in enumerate(pre['gt_all'])])} (Ok {nat_l(pre['kept_gt'])})")
        return (f"({pre_term} && {lets}check_scene_facts F {llit([blit(b) for b in f['est_unknown']])} {llit([blit(b) for b in f['gt_fp']])} "
                f"{llit([olit(t, qlit) for t in f['gt_thr']])} && keys_distinct gts && "
                f"check_pipeline CENTERDISTANCE P_{case['policy']} {blit(case['fpv'])} F T ests gts crit pf det {o})")

    def coq_debug(self, case, obs):
        # beta-redexes instead of `let`: elaborating a tuple under `let`-bound literals of this size exhausts memory
        if obs.get("error") == "config":
            return None
        ests, gts, facts, tables, crit, pf, det = scene_terms(obs)
        pol, fpv = f"P_{case['policy']}", blit(case["fpv"])
        body = (f"(scene_ok F T ests gts, get_object_results CENTERDISTANCE {pol} {fpv} F, "
                f"match add_frame_result CENTERDISTANCE {pol} {fpv} F T ests gts crit pf det with "
                f"| Done fr cm pm => Some (map res_pair (f_results fr), ids (f_gts fr), map res_pair (f_tp fr), map res_pair (f_fp fr), "
                f"ids (f_tn fr), ids (f_fn fr), map (fun m => (mo_nums m, map AP.tp_list (mo_aps m), map AP.ap (mo_aps m), map AP.ap (mo_aphs m), mo_map m)) (cm ++ pm)) "
                f"| _ => None end)")
        return (f"(fun ests gts => (fun F T crit pf det => {body}) {facts} {tables} {crit} {pf} {det}) {ests} {gts}")

    # ---- the properties, stated on the implementation's outputs
    def oracle(self, case, obs):
        if obs.get("error") == "config":
            return f"{obs['error_text']} (evaluator {case['eval']}, critical filter {case['crit']}, pass/fail {case['pf']}: a well-formed configuration)"
        if "error" in obs:
            ct = obs["crit"]["targets"] or []
            crit_ids = {label_id(_enum(v)) for _, v in ct}
            if obs["error"] == "KeyError" and not case["fpv"] and any(t not in crit_ids for t in obs["det_targets"]):
                return None            # a detection target label without entry in the critical filter: documented misuse
            return f"add_frame_result raised {obs['error']} ({obs.get('error_text')}) on a well-formed frame"
        # "in whichever frame the objects are expressed": the ego-relative coordinates every filter of the pipeline works with (read through
        # the getters the filter calls) must be the coordinates the objects were generated at in the ego frame
        from harness.props.C10 import facts_vs_generator

        m = (facts_vs_generator(case["ests"], obs["pre"]["est_all"], "base_link", None, "estimate")
             or facts_vs_generator(case["gts"], obs["pre"]["gt_all"], "base_link", None, "ground truth"))
        if m:
            return m
        # "all manager filter settings": the objects the evaluator hands to the matcher are exactly the ones its documented criteria keep
        from harness.props.C10 import doc_keep

        pre = obs["pre"]
        want_cfg = expected_eval_cfg(case)        # from the configuration DICT the evaluator was given, not from its filtering_params
        for who, is_gt, facts_all, kept in (("estimates", False, pre["est_all"], pre["kept_est"]), ("ground truths", True, pre["gt_all"], pre["kept_gt"])):
            want = [i for i, f in enumerate(facts_all) if doc_keep(f, want_cfg, is_gt, True)]
            if want != kept:
                return (f"evaluator configured with {case['eval']}: the {who} handed to the matcher are {kept} but the configured criteria "
                        f"select {want}")
        # the configuration OBJECTS hold what the case configured (everything below reads thresholds / criteria through those objects)
        msg = configs_vs_case(case, obs)
        if msg:
            return msg
        ev = case["eval"]
        n_t = len(ev["targets"])
        want_radii = None if ev.get("radii") is None else ([float(x) for x in ev["radii"]] if isinstance(ev["radii"], list) else [float(ev["radii"])] * n_t)
        if obs["radii"] != want_radii:
            return f"evaluator configured with max_matchable_radii = {ev.get('radii')} for {ev['targets']}: the matcher is given {obs['radii']}"
        if not case["fpv"]:
            for kind in ("center", "plane"):
                want_lists = [[float(x) for x in l] for l in (ev.get(kind) or [])]
                got_maps = obs["maps"][kind]
                if [m["thr"] for m in got_maps] != want_lists:
                    return (f"{kind}-distance thresholds {ev.get(kind)} are configured for {ev['targets']} but the frame's Maps of that mode use "
                            f"{[m['thr'] for m in got_maps]}")
                for mi, m in enumerate(got_maps):
                    for li, (a, h) in enumerate(zip(m["aps"], m["aphs"])):
                        if a["label"] != obs["det_targets"][li] or a["thr"] != want_lists[mi][li] or h["thr"] != a["thr"] or h["label"] != a["label"]:
                            return (f"{kind} Map {mi}: the Ap / Aph at position {li} are for label {a['label']} / {h['label']} with threshold "
                                    f"{a['thr']} / {h['thr']} but the configuration gives label {obs['det_targets'][li]} the threshold {want_lists[mi][li]}")
        gf = obs["gt_facts"]
        tp, fp, tn, fn, surv, crit_gts = obs["tp"], obs["fp"], obs["tn"], obs["fn"], obs["results"], obs["gts"]
        if any(e < 0 or (g is not None and g < 0) for e, g in tp + fp + surv + obs["matched"]) or any(g < 0 for g in tn + fn + crit_gts):
            return "an object that was not handed to the matcher is reported"
        if not obs["dataset_frame_untouched"]:
            return "add_frame_result changed the object list of the ground-truth frame it was given"
        # one-to-one matching (C01) as the frame sees it
        for name, ps in (("matcher output", obs["matched"]), ("frame.object_results", surv)):
            es = [e for e, _ in ps]
            gs = [g for _, g in ps if g is not None]
            if len(set(es)) != len(es):
                return f"{name}: an estimate appears in two results: {ps}"
            if len(set(gs)) != len(gs):
                return f"{name}: a ground truth is paired with two estimates: {ps}"
        # results = TP + FP ; |ordinary critical GT| = |TP| + |FN|
        if sorted(e for e, _ in tp + fp) != sorted(e for e, _ in surv):
            return f"surviving results {sorted(e for e, _ in surv)} are not TP + FP {sorted(e for e, _ in tp + fp)}"
        # __eq__ keys: decided on the generated ground truths (label, position, orientation), not through `==`
        k = keys_vs_spec(case["gts"], case["frame"], obs["gt_keys"], obs["pre"]["kept_gt"])
        if k not in (None, "skip"):
            return k
        distinct_keys = k is None
        n_ord = sum(1 for g in crit_gts if not gf[g]["is_fp"])
        if distinct_keys and n_ord != len(tp) + len(fn):
            return f"{n_ord} ordinary critical ground truths but TP + FN = {len(tp)} + {len(fn)}"
        # per label and Map: #TP <= num_ground_truth = critical ground truths of that label ; scores in [0,1] ; APH <= AP
        crit_ids = {label_id(_enum(v)) for _, v in (obs["crit"]["targets"] or [])}
        n_crit = {}
        for g in crit_gts:
            n_crit[gf[g]["lid"]] = n_crit.get(gf[g]["lid"], 0) + 1
        total = 0
        for kind in ("center", "plane"):
            for mi, m in enumerate(obs["maps"][kind]):
                for a, h in zip(m["aps"], m["aphs"]):
                    L = a["label"]
                    if a["ngt"] != n_crit.get(L, 0) or h["ngt"] != a["ngt"]:
                        return f"{kind} Map {mi}: num_ground_truth[{L}] = {a['ngt']} but {n_crit.get(L, 0)} critical ground truths carry that label"
                    n_tp = a["tp"][-1] if (a["n"] > 0 and a["tp"]) else 0.0
                    # TP iff the result is in L's bucket, its ground truth carries L, the pair is label-compatible and the
                    # matching value is STRICTLY better than the threshold (inverted for an FP-labelled ground truth)
                    table = obs["facts"]["value"] if kind == "center" else obs["plane"]
                    want_tp = 0
                    for e, g in surv:
                        el = obs["est_facts"][e]["lid"]
                        bucket = el if el in crit_ids else (None if g is None else gf[g]["lid"])
                        if bucket != L or g is None or gf[g]["lid"] != L:
                            continue
                        v = table[e][g]
                        better = v is not None and Fraction(v) < Fraction(a["thr"])
                        want_tp += (not better) if gf[g]["is_fp"] else (better and obs["ok"][e][g])
                    if n_tp != want_tp:
                        return (f"{kind} Map {mi}: Ap of label {L} (threshold {a['thr']}) counts {n_tp} TP but {want_tp} results of its bucket are "
                                f"label-compatible with a ground truth of that label and strictly better than the threshold")
                    if n_tp != int(n_tp):
                        return f"{kind} Map {mi}: AP TP count {n_tp} of label {L} is not an integer"
                    if n_tp > a["ngt"]:
                        return f"{kind} Map {mi}: Ap of label {L} counts {int(n_tp)} TP but there are only {a['ngt']} ground truths of that label"
                    for nm, x in (("AP", a["ap"]), ("APH", h["ap"])):
                        if x is not None and not (-1e-12 <= x <= 1 + 1e-12):
                            return f"{kind} Map {mi}: {nm}[{L}] = {x} outside [0, 1]"
                    if a["ap"] is not None and h["ap"] is not None and h["ap"] > a["ap"] + 1e-12:
                        return f"{kind} Map {mi}: APH[{L}] = {h['ap']} exceeds AP = {a['ap']}"
                    if (a["ap"] is None) != (a["n"] == 0):
                        return f"{kind} Map {mi}: AP[{L}] defined = {a['ap'] is not None} with {a['n']} results in the bucket"
                for nm, x in (("mAP", m["map"]), ("mAPH", m["maph"])):
                    if x is not None and not (-1e-12 <= x <= 1 + 1e-12):
                        return f"{kind} Map {mi}: {nm} = {x} outside [0, 1]"
        if not case["fpv"]:
            total = sum(n_crit.get(L, 0) for L in set(obs["det_targets"]))
            want = sum(n_crit.get(label_id(_enum(v)), 0) for _, v in (obs["crit"]["targets"] or []))
            if obs["num_ground_truth"] != want:
                return f"metrics_score.num_ground_truth = {obs['num_ground_truth']} but {want} critical ground truths carry a critical target label"
            del total
        if obs["maps"]["other_modes"]:
            return f"unexpected Maps {obs['maps']['other_modes']} (no IoU thresholds were configured)"
        # the complete C03 accounting oracle on the same outputs
        if distinct_keys:
            idx = {(e, g): k for k, (e, g) in enumerate(map(tuple, obs["matched"]))}
            sub = dict(obs, skip_generator_check=True, pairs=obs["matched"],
                       label_ok=[False if g is None else obs["ok"][e][g] for e, g in obs["matched"]],
                       score=[None if g is None else obs["plane"][e][g] for e, g in obs["matched"]])
            del idx
            msg = accounting_oracle(case, sub)
            if msg:
                return msg
        return None

    def nontrivial(self, case, obs):
        if "tp" not in obs:
            return False
        kinds = sum(1 for k in ("tp", "fp", "tn", "fn") if obs[k])
        defined = any(a["ap"] is not None for m in obs["maps"]["center"] for a in m["aps"])
        return kinds >= 2 and (defined or case["fpv"]) and any(g is not None for _, g in obs["matched"])

    def describe(self, case, obs):
        keep = ("matched", "results", "gts", "tp", "fp", "tn", "fn", "num_success", "num_fail", "error", "num_ground_truth")
        small = {k: obs[k] for k in keep if k in obs}
        if "maps" in obs:
            small["center_maps"] = [{"aps": [a["ap"] for a in m["aps"]], "aphs": [a["ap"] for a in m["aphs"]], "map": m["map"],
                                     "ngt": [a["ngt"] for a in m["aps"]], "tp": [a["tp"][-1:] for a in m["aps"]]} for m in obs["maps"]["center"]]
        return {"case": {k: case[k] for k in ("frame", "ego", "policy", "fpv", "eval", "crit", "pf", "stream")},
                "n_est": len(case["ests"]), "n_gt": len(case["gts"]), "observed": small}

    def distribution(self, cases, obs):
        d = {"frames": {}, "policies": {}, "streams": {}, "fp_validation": 0, "raised": {}, "est_in": 0, "gt_in": 0, "est_to_matcher": 0,
             "gt_to_matcher": 0, "pairs": 0, "pairs_label_incompatible": 0, "unknown_est_matched": 0, "results_surviving": 0, "gts_critical": 0,
             "TP": 0, "FP": 0, "TN": 0, "FN": 0, "fp_labelled_gt": 0, "mixed_frame_scenes": 0, "confidence_ties": 0,
             "gts_sharing_a_position": 0, "evaluator_filter": {}, "center_on_ap_threshold": 0, "plane_on_pf_threshold": 0, "center_on_radius": 0, "maps": 0, "aps_defined": 0, "aps_undefined": 0,
             "aps_strictly_between_0_1": 0, "ap_tp_equals_num_gt": 0, "buckets_with_foreign_gt_label": 0}

        def bump(h, k):
            h[str(k)] = h.get(str(k), 0) + 1

        for c, o in zip(cases, obs):
            if "facts" not in o:
                continue
            bump(d["frames"], c["frame"]); bump(d["policies"], c["policy"]); bump(d["streams"], c["stream"])
            d["fp_validation"] += bool(c["fpv"])
            if c["fpv"]:
                d["fp_validation_by_policy"] = d.get("fp_validation_by_policy", {})
                bump(d["fp_validation_by_policy"], c["policy"])
            zero = lambda v: v is not None and (0 in [x for l in v for x in (l if isinstance(l, list) else [l])] if isinstance(v, list) else v == 0)  # noqa: E731
            for k in ("radii", "center", "plane", "conf"):
                if zero(c["eval"].get(k)):
                    d["evaluator_bound_exactly_0"] = d.get("evaluator_bound_exactly_0", {})
                    bump(d["evaluator_bound_exactly_0"], k)
            d["pass_fail_threshold_exactly_0"] = d.get("pass_fail_threshold_exactly_0", 0) + bool(c["pf"]["thresholds"] and 0 in c["pf"]["thresholds"])
            for k in ("max_dist", "min_pts", "ignore", "conf"):
                if c["eval"].get(k) is not None:
                    bump(d["evaluator_filter"], k)
            spots = [tuple(g["ego_xy"]) for g in c["gts"]]
            d["gts_sharing_a_position"] += len(spots) - len(set(spots))
            d["est_in"] += o["n_in"][0]; d["gt_in"] += o["n_in"][1]
            d["est_to_matcher"] += len(o["est_facts"]); d["gt_to_matcher"] += len(o["gt_facts"])
            d["mixed_frame_scenes"] += len(set(o["facts"]["est_frame"] + o["facts"]["gt_frame"])) > 1
            confs = [f["conf"] for f in o["est_facts"]]
            d["confidence_ties"] += len(set(confs)) < len(confs)
            d["center_on_radius"] += o["on_radius"]
            d["fp_labelled_gt"] += sum(1 for f in o["gt_facts"] if f["is_fp"])
            for e, g in o["matched"]:
                if g is not None:
                    d["pairs"] += 1
                    d["pairs_label_incompatible"] += not o["ok"][e][g]
                    d["unknown_est_matched"] += bool(o["est_facts"][e]["is_unknown"])
                    v = o["facts"]["value"][e][g]
                    d["center_on_ap_threshold"] += any(v == t for l in o["det_center"] for t in l)
                    if o["pf_thresholds"]:
                        d["plane_on_pf_threshold"] += o["plane"][e][g] in o["pf_thresholds"]
            if "error" in o:
                bump(d["raised"], o["error"])
                continue
            d["results_surviving"] += len(o["results"]); d["gts_critical"] += len(o["gts"])
            for k in ("tp", "fp", "tn", "fn"):
                d[k.upper()] += len(o[k])
            for m in o["maps"]["center"] + o["maps"]["plane"]:
                d["maps"] += 1
                for a in m["aps"]:
                    d["aps_defined"] += a["ap"] is not None
                    d["aps_undefined"] += a["ap"] is None
                    d["aps_strictly_between_0_1"] += a["ap"] is not None and 0.0 < a["ap"] < 1.0
                    d["ap_tp_equals_num_gt"] += a["n"] > 0 and a["ngt"] > 0 and a["tp"][-1] == a["ngt"]
            crit_ids = {label_id(_enum(v)) for _, v in (o["crit"]["targets"] or [])}
            for e, g in o["results"]:
                if g is not None and o["est_facts"][e]["lid"] not in crit_ids:
                    d["buckets_with_foreign_gt_label"] += 1
        return d


def _enum(value):
    from perception_eval.common.label import AutowareLabel

    for m in AutowareLabel:
        if m.value == value:
            return m
    raise ValueError(value)


def exact_le(a, b):
    return Fraction(a) <= Fraction(b)
