"""C15 -- configurations are validated; thresholds normalised to one value per label."""
import atexit
import copy
import enum
import itertools
import json
import os
import shutil
from numbers import Real

from harness.lib import core
from harness.lib.core import Corr, Prop, qlit, slit, llit, blit

# ------------------------------------------------------------------------------------------------
# Python values <-> JSON-able encoding <-> Coq [pyval] literals
#   list -> list, tuple -> {"tuple": [...]}, numbers / bool / str / None as themselves
# ------------------------------------------------------------------------------------------------


def enc(v):
    if isinstance(v, enum.Enum):
        return "enum:" + v.name  # only EvaluationTask members are generated (see live())
    if isinstance(v, tuple):
        return {"tuple": [enc(x) for x in v]}
    if isinstance(v, list):
        return [enc(x) for x in v]
    if v is None or isinstance(v, (bool, int, float, str)):
        return v
    return {"opaque": type(v).__name__}


def dec(j):
    if isinstance(j, dict):
        return tuple(dec(x) for x in j["tuple"])
    if isinstance(j, list):
        return [dec(x) for x in j]
    return j


def pv(j):
    """Coq literal of an encoded value."""
    if isinstance(j, dict):
        if "tuple" in j:
            return "(Tuple " + llit([pv(x) for x in j["tuple"]]) + ")"
        return '(Str "<opaque>")'
    if isinstance(j, list):
        return "(List " + llit([pv(x) for x in j]) + ")"
    if j is None:
        return "NoneV"
    if isinstance(j, bool):
        return f"(Bool {blit(j)})"
    if isinstance(j, (int, float)):
        return f"(Num {qlit(j)})"
    if isinstance(j, str):
        return f"(Str {slit(j)})"
    raise ValueError(j)


def depth(j):
    if isinstance(j, dict):
        j = j.get("tuple", [])
    if isinstance(j, list):
        return 1 + max([depth(x) for x in j], default=0)
    return 0


# ------------------------------------------------------------------------------------------------
# Part 1: set_thresholds
# ------------------------------------------------------------------------------------------------
ATOMS = [1.0, 2, True, "a", None, [], [1.0]]
SCALARS = [1.0, 2, True, "a", None]


def is_real(x):
    return isinstance(x, Real)


def documented(spec, n, nest):
    """The documented normal form of `spec` for n target labels (docstrings of threshold.py), or
    None when the specification is malformed and has to be rejected.  Written from the
    documentation, independently of the implementation and of the Coq model."""
    if is_real(spec):
        if nest:
            return [[spec] * n] if n >= 1 else None
        return [spec] * n
    if not isinstance(spec, list) or len(spec) == 0:
        return None
    if all(is_real(t) for t in spec):
        if not nest:
            if len(spec) == 1:
                return [spec[0]] * n
            return list(spec) if len(spec) == n else None
        if n < 1:
            return None
        if len(spec) == n:
            return [list(spec)]
        return [[t] * n for t in spec]
    if not nest or n < 1:
        return None
    rows = []
    for r in spec:
        if not isinstance(r, list) or not all(is_real(t) for t in r):
            return None
        if len(r) == 1:
            rows.append([r[0]] * n)
        elif len(r) == n:
            rows.append(list(r))
        else:
            return None
    return rows


def has_tuple(j):
    if isinstance(j, dict):
        return True
    if isinstance(j, list):
        return any(has_tuple(x) for x in j)
    return False


def same(a, b):
    """Equality that also distinguishes bool from number and list from tuple."""
    if isinstance(a, (list, tuple)) or isinstance(b, (list, tuple)):
        return type(a) is type(b) and len(a) == len(b) and all(same(x, y) for x, y in zip(a, b))
    if isinstance(a, bool) or isinstance(b, bool):
        return isinstance(a, bool) and isinstance(b, bool) and a == b
    return type(a) in (int, float) and type(b) in (int, float) and a == b or (type(a) is type(b) and a == b)


def divides_some(spec):
    """is `spec` a list of 2..3 reals, or a list of lists one of which holds 2..3 reals (nothing else than reals anywhere)?"""
    if not isinstance(spec, list) or not spec:
        return False
    if all(is_real(t) for t in spec):
        return len(spec) in (2, 3)
    return all(isinstance(r, list) and all(is_real(t) for t in r) for r in spec) and any(len(r) in (2, 3) for r in spec)



def _REAL_CONVERTERS():
    import fractions

    import numpy as np

    return [("numpy.float32", np.float32), ("numpy.float64", np.float64), ("numpy.int64-or-float32", lambda x: np.int64(x) if float(x).is_integer() else np.float32(x)),
            ("fractions.Fraction", fractions.Fraction)]


def _map_numbers(v, conv):
    """the same nested specification with every number (bools excluded) converted by `conv`"""
    if isinstance(v, bool) or v is None or isinstance(v, str):
        return v
    if isinstance(v, (list, tuple)):
        return type(v)(_map_numbers(x, conv) for x in v)
    return conv(v)


def has_bool(v):
    v = dec(v) if not isinstance(v, (list, tuple, bool, int, float, str, type(None))) else v
    if isinstance(v, bool):
        return True
    if isinstance(v, (list, tuple)):
        return any(has_bool(x) for x in v)
    return False


class ThresholdCorr(Corr):
    name = "set_thresholds"
    header = ("From Coq Require Import String List Bool QArith.\nFrom PE Require Import Base.CaseUtil Model.PyVal Model.Threshold.\n"
              "Import ListNotations.\nOpen Scope string_scope.\nOpen Scope nat_scope.\n")
    requires = ["Model/Threshold.vo", "Base/CaseUtil.vo"]
    shard = 400

    def cases(self, tier, rng):
        thorough = tier != "quick"
        L = 4 if thorough else 3
        ns = list(range(0, 5 if thorough else 4))
        specs = []
        # witnesses first (the repaired F9, zero labels, doc examples)
        specs += [[[1.0, "a"]], [[[1.0]]], 1.0, [], [[2.0], [3.0, 4.0]], [1.0, [2.0]], [[1.0, 2.0, 3.0]], [1.0, 2.0]]
        specs += [[0.5, 1.5], [0.5, 1.5, 2.5], [[0.5, 1.5]], [[1.0], [0.5, 1.5]], [[0.5, 1.5, 2.5], [1.0]], [[0.5, 1.5], [2.5, 3.5]], [0, 0.0], [[0, 0.0, 0]]]
        # nesting 0 and 1: every atom, every list of <= L atoms
        specs += list(ATOMS)
        flat = [list(t) for k in range(0, L + 1) for t in itertools.product(ATOMS, repeat=k)]
        specs += flat
        # nesting 2: [row] for every row of <= L atoms
        rows_L = [list(t) for k in range(0, L + 1) for t in itertools.product(ATOMS, repeat=k)]
        singles = [[r] for r in rows_L]
        # pairs over M = scalars + rows of <= 2 atoms
        M = list(SCALARS) + [list(t) for k in range(0, 3) for t in itertools.product(ATOMS, repeat=k)]
        pairs = [[a, b] for a in M for b in M]
        # triples (4-tuples thorough) over a small mixed element set
        M3 = [1.0, "a", None, [], [1.0], [1.0, 2], ["a"], [1.0, 2, True], [1.0, "a", 2], [[1.0]], [None]]
        triples = [list(t) for t in itertools.product(M3, repeat=3)]
        if thorough:
            specs += singles + pairs + triples
            specs += [list(t) for t in itertools.product(M3, repeat=4)]
            # pairs over rows of <= 3 atoms from a reduced atom set
            A3 = [1.0, True, "a", [1.0]]
            R3 = list(SCALARS) + [list(t) for k in range(0, 4) for t in itertools.product(A3, repeat=k)]
            specs += [[a, b] for a in R3 for b in R3]
        else:
            specs += rng.sample(singles, 250) + rng.sample(pairs, 1200) + rng.sample(triples, 450)
        # beyond the exhaustive family: random deeper / longer / tuple / other-string specs
        for _ in range(4000 if thorough else 500):
            specs.append(self._random_spec(rng, 0))
        seen = set()
        out = []
        for s in specs:
            j = enc(s)
            key = core.canon(j)
            if key in seen:
                continue
            seen.add(key)
            k_ns = ns if not has_tuple(j) and depth(j) <= 3 else sorted(set(ns) | {5})
            if divides_some(s):
                # a list (or a row) of 2 or 3 numbers: also for 4 and 6 labels, counts it DIVIDES without being equal to them or to 1
                # (tiling such a list up to the label count instead of rejecting it would go unnoticed for 0..3 labels)
                k_ns = sorted(set(k_ns) | {4, 6})
            out.append({"spec": j, "ns": k_ns})
        return out

    def _random_spec(self, rng, d):
        r = rng.random()
        if d >= 3 or r < 0.3:
            return rng.choice([1.0, 2, True, False, 0, -1.5, 0.5, 3, "a", "", "ab", None, 100.0])
        items = [self._random_spec(rng, d + 1 + (rng.random() < 0.5)) for _ in range(rng.choice([0, 1, 1, 2, 2, 3, 3, 4, 5]))]
        if rng.random() < 0.6:
            # mostly homogeneous rows of numbers: the accepted region
            k = rng.choice([1, 2, 3, 4, 5])
            width = rng.choice([1, 2, 3])
            if rng.random() < 0.5:
                items = [rng.choice([1.0, 2, 0.5, True]) for _ in range(k)]
            else:
                items = [[rng.choice([1.0, 2, 0.5, True]) for _ in range(rng.choice([1, width]))] for _ in range(k)]
                if rng.random() < 0.3:
                    i = rng.randrange(len(items))
                    items[i] = rng.choice([items[i] + [1.0], (1.0,), "a", None, [], items[i][:-1] + ["a"], [items[i]]])
        return tuple(items) if rng.random() < 0.12 else items

    def run_impl(self, case):
        from perception_eval.common.threshold import ThresholdError, set_thresholds

        res = []
        for n in case["ns"]:
            for nest in (False, True):
                spec = dec(case["spec"])
                try:
                    out = set_thresholds(spec, n, nest)
                except ThresholdError:
                    res.append({"n": n, "nest": nest, "error": "ThresholdError"})
                    continue
                except TypeError:
                    res.append({"n": n, "nest": nest, "error": "TypeError"})
                    continue
                r = {"n": n, "nest": nest, "ok": enc(out)}
                try:
                    r["again"] = {"ok": enc(set_thresholds(dec(enc(out)), n, nest))}
                except (ThresholdError, TypeError) as e:
                    r["again"] = {"error": type(e).__name__}
                # the same specification with its numbers carried by other real-number types (numpy scalars as array-derived
                # configurations yield them, fractions): "non-numeric entries are rejected" -- these ARE numbers (numbers.Real)
                r["other_real_types"] = {}
                for tname, conv in _REAL_CONVERTERS():
                    try:
                        alt = set_thresholds(_map_numbers(spec, conv), n, nest)
                        r["other_real_types"][tname] = {"ok": enc(_map_numbers(alt, float))}
                    except (ThresholdError, TypeError) as e:
                        r["other_real_types"][tname] = {"error": type(e).__name__}
                res.append(r)
        return res

    @staticmethod
    def _res(o):
        return f"(Err {o['error']})" if "error" in o else f"(Ok {pv(o['ok'])})"

    def coq_term(self, case, obs):
        items = [f"({o['n']}, {blit(o['nest'])}, {self._res(o)})" for o in obs]
        return f"check_spec {pv(case['spec'])} {llit(items)}"

    def coq_debug(self, case, obs):
        return "map (fun x => set_thresholds " + pv(case["spec"]) + " (fst x) (snd x)) " + \
            llit([f"({o['n']}, {blit(o['nest'])})" for o in obs])

    def oracle(self, case, obs):
        spec = dec(case["spec"])
        for o in obs:
            n, nest = o["n"], o["nest"]
            what = f"set_thresholds({spec!r}, {n}, {nest})"
            if "ok" in o:
                out = dec(o["ok"])
                # one real value per target label
                if nest:
                    good = isinstance(out, list) and len(out) > 0 and all(
                        isinstance(r, list) and len(r) == n and all(is_real(x) for x in r) for r in out)
                else:
                    good = isinstance(out, (list, tuple)) and len(out) == n and all(is_real(x) for x in out)
                if not good:
                    return f"{what} returned {out!r}: not {'rows of ' if nest else ''}exactly {n} real values"
                # normalising a normalised value changes nothing
                if n >= 1 and ("ok" not in o["again"] or not same(dec(o["again"]["ok"]), out)):
                    return f"{what} = {out!r} but normalising that again gives {o['again']}"
                # numbers of any real type are numbers: the same specification is accepted with the same values
                if not has_bool(case["spec"]):
                    for tname, alt in o.get("other_real_types", {}).items():
                        if "ok" not in alt or not same(dec(alt["ok"]), _map_numbers(out, float)):
                            return f"{what} = {out!r} but with its numbers given as {tname} the result is {alt}"
            if has_tuple(case["spec"]):
                continue  # tuples are outside the documented input types: only the two laws above
            want = documented(spec, n, nest)
            if want is None and "ok" in o:
                return f"{what}: malformed specification accepted, returned {dec(o['ok'])!r}"
            if want is not None and "ok" not in o:
                return f"{what}: documented specification rejected with {o['error']} (expected {want!r})"
            if want is not None and not same(dec(o["ok"]), want):
                return f"{what} returned {dec(o['ok'])!r}, documented normal form is {want!r}"
        return None

    def nontrivial(self, case, obs):
        return depth(case["spec"]) >= 1

    def distribution(self, cases, obs):
        d = {"specs": len(cases), "calls": 0, "accepted_flat": 0, "accepted_nested": 0, "ThresholdError": 0, "TypeError": 0,
             "by_depth": {}, "with_tuple": 0,
             "calls_where_a_list_or_row_length_properly_divides_the_label_count": sum(
                 1 for c in cases if divides_some(dec(c["spec"])) for n in c["ns"] if n in (4, 6)) * 2}
        for c, ob in zip(cases, obs):
            dp = str(depth(c["spec"]))
            d["by_depth"][dp] = d["by_depth"].get(dp, 0) + 1
            d["with_tuple"] += has_tuple(c["spec"])
            if not isinstance(ob, list):
                continue
            for o in ob:
                d["calls"] += 1
                if "ok" in o:
                    d["accepted_nested" if o["nest"] else "accepted_flat"] += 1
                else:
                    d[o["error"]] += 1
        return d



# ------------------------------------------------------------------------------------------------
# Part 2: configuration acceptance
# ------------------------------------------------------------------------------------------------
TMP_ROOT = os.path.join(core.BUILD, "C15_tmp")
ERRORS = ("ThresholdError", "TypeError", "ValueError", "KeyError", "RuntimeError", "MetricsParameterError",
          "NotImplementedError", "AttributeError", "AssertionError")
TASKS_3D = ("detection", "tracking", "prediction", "fp_validation")
TASKS_2D = ("detection2d", "tracking2d", "classification2d", "fp_validation2d")
# the keys of evaluation_config_dict: docs/en/perception/design.md tables + the two newer switches
DOCUMENTED_KEYS = [
    "evaluation_task", "target_labels", "ignore_attributes", "max_x_position", "max_y_position", "max_distance",
    "min_distance", "min_point_numbers", "max_matchable_radii", "confidence_threshold", "target_uuids",
    "label_prefix", "merge_similar_labels", "allow_matching_unknown", "count_label_number",
    "center_distance_thresholds", "plane_distance_thresholds", "iou_2d_thresholds", "iou_3d_thresholds",
    "matching_label_policy", "uuid_matching_first"]
FILTER_LISTS = [("max_x_position_list", "max_x_position"), ("max_y_position_list", "max_y_position"),
                ("max_distance_list", "max_distance"), ("min_distance_list", "min_distance"),
                ("max_matchable_radii", "max_matchable_radii"), ("min_point_numbers", "min_point_numbers"),
                ("confidence_threshold_list", "confidence_threshold")]
METRIC_KEYS = ["center_distance_thresholds", "plane_distance_thresholds", "iou_2d_thresholds", "iou_3d_thresholds"]
LABELS4 = ["car", "bicycle", "pedestrian", "motorbike"]


def cleanup_tmp():
    shutil.rmtree(TMP_ROOT, ignore_errors=True)


atexit.register(cleanup_tmp)


def base_config(task, variant="autoware"):
    """A valid dictionary for `task` (taken from test/perception_lsim.py, perception_lsim2d.py,
    perception_fp_validation_lsim.py)."""
    if task in TASKS_2D and variant == "traffic_light":
        d = {"evaluation_task": task, "target_labels": ["green", "red", "yellow", "unknown"], "max_distance": 150.0,
             "min_distance": 0.0, "allow_matching_unknown": True, "merge_similar_labels": False,
             "label_prefix": "traffic_light", "count_label_number": True}
        if task in ("detection2d", "tracking2d"):
            d.update(center_distance_thresholds=[100, 200], iou_2d_thresholds=[0.5])
        return d
    if task in TASKS_2D:
        d = {"evaluation_task": task, "target_labels": list(LABELS4), "ignore_attributes": ["cycle_state.without_rider"],
             "allow_matching_unknown": True, "merge_similar_labels": False, "label_prefix": "autoware",
             "count_label_number": True}
        if task in ("detection2d", "tracking2d"):
            d.update(center_distance_thresholds=[100, 200], iou_2d_thresholds=[0.5])
        return d
    d = {"evaluation_task": task, "target_labels": list(LABELS4), "ignore_attributes": ["cycle_state.without_rider"],
         "max_x_position": 102.5, "max_y_position": 100.0,
         "center_distance_thresholds": [[1.0, 1.0, 1.0, 1.0], [2.0, 2.0, 2.0, 2.0]], "plane_distance_thresholds": [2.0, 3.0],
         "iou_2d_thresholds": [0.5, 0.5, 0.5, 0.5], "iou_3d_thresholds": [0.5], "min_point_numbers": [0, 0, 0, 0],
         "max_matchable_radii": 5.0, "label_prefix": "autoware", "merge_similar_labels": False,
         "allow_matching_unknown": True}
    if variant == "distance":
        del d["max_x_position"], d["max_y_position"]
        d.update(max_distance=[100.0, 90.0, 80.0, 70.0], min_distance=10.0)
    if task == "fp_validation":
        for k in METRIC_KEYS + ["min_point_numbers"]:
            d.pop(k, None)
    return d


def base_frame(task):
    return "base_link" if task in TASKS_3D or task in ("sensing", "foo") else "cam_front"


# The tasks each manager supports, pinned (NOT read from the class under test: the model reads the translated
# `_support_tasks`, so an oracle that read it too would accept whatever that list says).
_GOLDEN = {}


def supported(cls):
    if not _GOLDEN:
        _GOLDEN.update(json.load(open(os.path.join(core.ROOT, "corpus", "C15", "golden", "supported_tasks.json"))))
    return _GOLDEN[cls]


# EvaluationTask members by name -> value.  A member given as `evaluation_task` stands for its value
# (EvaluationTask.__eq__ compares with str by value); encoded in cases as "enum:<NAME>".
ENUM_TASKS = {"DETECTION": "detection", "TRACKING": "tracking", "PREDICTION": "prediction", "SENSING": "sensing",
              "DETECTION2D": "detection2d", "TRACKING2D": "tracking2d", "CLASSIFICATION2D": "classification2d",
              "FP_VALIDATION": "fp_validation", "FP_VALIDATION2D": "fp_validation2d"}


def is_enum_task(k, j):
    return k == "evaluation_task" and isinstance(j, str) and j.startswith("enum:")


def plain(k, j):
    """Encoded dictionary value -> the encoded value the model and the oracle reason about."""
    return ENUM_TASKS[j[5:]] if is_enum_task(k, j) else j


def live(k, j):
    """Encoded dictionary value -> the Python value handed to the library."""
    if is_enum_task(k, j):
        from perception_eval.common.evaluation_task import EvaluationTask

        return EvaluationTask[j[5:]]
    return dec(j)


def frames_of(case):
    """The frame ids of a case as a list of strings (str -> one id; list / tuple -> its items)."""
    fr = dec(case["frame"])
    return [fr] if isinstance(fr, str) else list(fr)


# documented label names (docs/en/perception/label.md): name -> member, without / with merge_similar_labels
PINNED_LABELS = {
    ("autoware", False): {"car": "CAR", "bicycle": "BICYCLE", "pedestrian": "PEDESTRIAN", "motorbike": "MOTORBIKE",
                          "bus": "BUS", "truck": "TRUCK"},
    ("autoware", True): {"car": "CAR", "bicycle": "BICYCLE", "pedestrian": "PEDESTRIAN", "motorbike": "BICYCLE",
                         "bus": "CAR", "truck": "CAR"},
}
PER_LABEL_SCALARS = {"center_distance_thresholds": [[1.0], [2.0]], "plane_distance_thresholds": [2.0, 3.0], "iou_2d_thresholds": 0.5,
                     "iou_3d_thresholds": [0.5], "min_point_numbers": 0, "max_distance": 100.0, "min_distance": [10.0],
                     "max_x_position": 102.5, "max_y_position": [100.0], "max_matchable_radii": 5.0}


def any_label_count(cfg):
    """A copy of `cfg` whose per-label values are scalars / singletons, valid for any number of target labels."""
    c = copy.deepcopy(cfg)
    for k, v in PER_LABEL_SCALARS.items():
        if k in c:
            c[k] = copy.deepcopy(v)
    return c


CORRUPT = [5.0, "a", [], [1.0], [1.0, 2.0], [[1.0]], True, 0, [1.0, 2.0, 3.0, 4.0], [[1.0, 2.0, 3.0, 4.0]], [1.0, "a", 2.0, 3.0],
           [[1.0], [1.0, 2.0]], "autoware", ["car", "bus"], (1.0, 2.0, 3.0, 4.0)]
ADDITIONS = {
    "max_x_position": 100.0, "max_y_position": [50.0], "max_distance": 100.0, "min_distance": 10.0,
    "confidence_threshold": 0.5, "target_uuids": ["u1", "u2"], "matching_label_policy": "allow_any",
    "count_label_number": False, "uuid_matching_first": True, "min_point_numbers": 0, "max_matchable_radii": [3.0],
    "center_distance_thresholds": [1.0], "plane_distance_thresholds": 2.0, "iou_2d_thresholds": [[0.5]],
    "iou_3d_thresholds": [0.25, 0.5], "ignore_attributes": ["x"], "target_labels": ["car"],
    # unknown keys (the second is the one the repository's own tests and sample scenario pass)
    "foo_thresholds": [0.8], "iou_bev_thresholds": [0.5],
    # ... and unknown keys that do not look like thresholds: two typos of filter keys, one key of the sensing configuration
    "max_x_postion": 100.0, "min_points_number": [0], "box_scale_0m": 1.0,
}
HARMLESS_ADDITIONS = ("confidence_threshold", "target_uuids", "matching_label_policy", "count_label_number",
                      "uuid_matching_first", "ignore_attributes")
KEY_SPECIFIC = {
    "evaluation_task": ["sensing", "foo", "Detection", None, 5.0, ["detection"]] + list(TASKS_3D) + list(TASKS_2D)
                       + ["enum:DETECTION", "enum:TRACKING", "enum:FP_VALIDATION", "enum:DETECTION2D", "enum:CLASSIFICATION2D", "enum:SENSING"],
    "label_prefix": ["autoware", "traffic_light", "blinker", "brake_lamp", "Autoware", None, 5.0, ["autoware"]],
    "matching_label_policy": ["default", "ALLOW_UNKNOWN", "allow_any", "strict", "", None, 5.0, ["default"], 0],
    "target_labels": [None, [], ["car"], ["car", "bus", "zzz"], "car", "", 5.0, [5.0], ["car", 5.0], ("car", "bus"), [[]],
                      ["car", "car"], ["car", "truck"]],
    "merge_similar_labels": [True, None, "a"], "allow_matching_unknown": [False, None, "a"],
    "count_label_number": [False, None], "uuid_matching_first": [True, None],
    "ignore_attributes": [None, [], "a"], "target_uuids": [None, [], "a"],
}


def mutations_of(cfg):
    """All single-key edits of a dictionary: (kind, key, value)."""
    out = []
    for k in cfg:
        out.append(("delete", k, None))
        if cfg[k] is not None:
            out.append(("none", k, None))
        vals = KEY_SPECIFIC.get(k, CORRUPT)
        for v in vals:
            if enc(v) != enc(cfg[k]) and v is not None:
                out.append(("corrupt", k, v))
    for k, v in ADDITIONS.items():
        if k not in cfg:
            out.append(("add", k, v))
    return out


def apply_mutation(cfg, m):
    kind, k, v = m
    if kind == "delete":
        cfg.pop(k, None)
    elif kind == "none":
        cfg[k] = None
    else:
        cfg[k] = v


def cfg_lit(items):
    """Coq literal of an association list [(key, encoded value)]."""
    return llit([f"({slit(k)}, {pv(v)})" for k, v in items])


def opt_lit(j):
    return "None" if j is None else f"(Some {pv(j)})"



class Interner:
    """Names for repeated literals: the generated case files define each distinct (key, value) entry
    and each distinct observed value once (parsing string/number literals dominates coqc's time)."""

    def __init__(self):
        self.defs = []
        self.names = {}

    def name(self, kind, key, typ, lit):
        k = (kind, key)
        if k not in self.names:
            nm = f"{kind}{len(self.names)}"
            self.names[k] = nm
            self.defs.append(f"Definition {nm} : {typ} := {lit()}.")
        return self.names[k]

    def entry(self, k, v):
        return self.name("e", core.canon([k, v]), "string * pyval", lambda: f"({slit(k)}, {pv(v)})")

    def value(self, v):
        return self.name("v", core.canon(v), "pyval", lambda: pv(v))

    def cfg(self, items):
        return llit([self.entry(k, v) for k, v in items])

    def opt(self, j):
        return "None" if j is None else f"(Some {self.value(j)})"

    def text(self):
        return "\n".join(self.defs) + "\n"


def probe_config(cfg, frame="base_link"):
    from perception_eval.config import PerceptionEvaluationConfig

    try:
        PerceptionEvaluationConfig(["/nonexistent"], frame, os.path.join(TMP_ROOT, f"r{os.getpid()}"), dict(cfg), load_raw_data=False)
    except Exception as e:  # noqa: BLE001 - classification only
        return type(e).__name__
    return "accepted"


def witness_F7():
    d = base_config("detection")
    d.update(max_distance=100.0, min_distance=10.0)
    return d


def witness_F8():
    d = base_config("detection")
    d["foo_thresholds"] = [0.8]
    return d


_SW = {}


def switches():
    """Defect switches (DESIGN 2.3): which variant of the model the implementation is today."""
    if not _SW:
        _SW["both"] = probe_config(witness_F7()) == "RuntimeError"
        _SW["unknown"] = probe_config(witness_F8()) == "MetricsParameterError"
    return _SW


CONFIG_HEADER = ("From Coq Require Import String List Bool QArith.\nFrom PE Require Import Base.CaseUtil Model.PyVal Model.Threshold Model.Config.\n"
                 "Import ListNotations.\nOpen Scope string_scope.\nOpen Scope nat_scope.\n")


class ConfigCorr(Corr):
    name = "config"
    requires = ["Model/Config.vo", "Base/CaseUtil.vo"]
    shard = 300

    def __init__(self):
        self.intern = Interner()

    @property
    def header(self):
        return CONFIG_HEADER + self.intern.text()

    def _mk(self, cfg, frame, valid=False, tag=""):
        return {"cfg": [[k, enc(v)] for k, v in cfg.items()], "frame": enc(frame), "valid": valid, "tag": tag}

    def cases(self, tier, rng):
        thorough = tier != "quick"
        out = []
        # witnesses and regression inputs first
        out.append(self._mk(witness_F7(), "base_link", tag="F7 witness"))
        out.append(self._mk(witness_F8(), "base_link", tag="F8 witness"))
        cdir = os.path.join(core.ROOT, "corpus", "C15")
        if os.path.isdir(cdir):
            for fn in sorted(os.listdir(cdir)):
                if fn.endswith(".json"):
                    j = json.load(open(os.path.join(cdir, fn)))
                    if j.get("correspondence") == self.name:
                        out.append({"cfg": j["cfg"], "frame": j["frame"], "valid": j.get("valid", False), "tag": "corpus " + fn})
        bases = []
        for task in TASKS_3D:
            bases.append((task, "xy", base_config(task)))
            bases.append((task, "distance", base_config(task, "distance")))
        for task in TASKS_2D:
            bases.append((task, "autoware", base_config(task)))
            bases.append((task, "traffic_light", base_config(task, "traffic_light")))
        for task in ("sensing", "foo"):
            bases.append((task, "xy", base_config(task)))
        n_pairs = 700 if thorough else 45
        for task, variant, b in bases:
            frame = base_frame(task)
            out.append(self._mk(b, frame, valid=task in TASKS_3D + TASKS_2D and task != "prediction", tag=f"base {task}/{variant}"))
            # frame ids: count and spelling
            for fr in (["base_link", "map"], ["cam_front", "cam_back"], "map", "cam_front", "BASE_LINK", "foo", [], ["base_link"], ["base_link", "foo"]):
                if fr != frame:
                    out.append(self._mk(b, fr, tag=f"frames {task}/{variant}"))
            # ... and as tuples (frame_id: Union[str, Sequence[str]]): one id is as good as the plain string
            supported_task = task in TASKS_3D + TASKS_2D and task != "prediction"
            for fr in ((frame,), ("base_link", "map"), ("cam_front", "cam_back"), ()):
                out.append(self._mk(b, fr, valid=supported_task and fr == (frame,), tag=f"frames (tuple) {task}/{variant}"))
            # target labels: repeated names, names that merge to one label, an order that is neither sorted nor the
            # enum's, with per-label values that fit any number of labels; merge_similar_labels on and off
            if task != "foo":
                tls = ([["red", "green"], ["green", "green"]] if variant == "traffic_light" else
                       [["car", "car"], ["car", "truck"], ["truck", "car", "bus"], ["pedestrian", "car"], ["motorbike", "bicycle", "car"]])
                for tl in tls:
                    for merge in (False, True):
                        c = any_label_count(b)
                        c.update(target_labels=list(tl), merge_similar_labels=merge)
                        out.append(self._mk(c, frame, valid=supported_task and len(set(tl)) == len(tl) and not merge,
                                            tag=f"target_labels {tl} merge={merge} {task}/{variant}"))
            # ... and the SAME labels in another order while the per-label lists hold a DIFFERENT value for every label: the lists are
            # positional, so every list must come out exactly as given (not re-sorted along the labels' enum order)
            if supported_task and len(b.get("target_labels") or []) == 4:
                for perm in ((2, 3, 0, 1), (3, 1, 2, 0)):
                    c = copy.deepcopy(b)
                    c["target_labels"] = [b["target_labels"][i] for i in perm]
                    for k, v in (("max_x_position", [102.5, 90.0, 80.0, 70.0]), ("max_y_position", [40.0, 30.0, 20.0, 10.0]),
                                 ("max_distance", [100.0, 90.0, 80.0, 70.0]), ("min_distance", [1.0, 2.0, 3.0, 0.0]),
                                 ("min_point_numbers", [3, 2, 1, 0]), ("max_matchable_radii", [5.0, 4.0, 3.0, 2.0])):
                        if k in c:
                            c[k] = list(v)
                    c["confidence_threshold"] = [0.5, 0.25, 0.0, 0.75]
                    for k in METRIC_KEYS:
                        if k in c:
                            c[k] = [[1.0, 2.0, 3.0, 4.0], [0.5]]
                    out.append(self._mk(c, frame, valid=True, tag=f"labels permuted {perm}, distinct per-label values {task}/{variant}"))
            muts = mutations_of(b)
            for m in muts:
                c = copy.deepcopy(b)
                apply_mutation(c, m)
                ok = m[0] == "add" and m[1] in HARMLESS_ADDITIONS and task in TASKS_3D + TASKS_2D and task != "prediction"
                out.append(self._mk(c, frame, valid=ok, tag=f"{m[0]} {m[1]} {task}/{variant}"))
            # two keys: every pair of simple edits of the four range keys, then a sample of all other pairs
            rk = ("max_x_position", "max_y_position", "max_distance", "min_distance")
            rmuts = [m for m in muts if m[1] in rk and (m[0] != "corrupt" or enc(m[2]) in (5.0, "a", [1.0], [1.0, 2.0, 3.0, 4.0]))]
            if task in TASKS_3D + ("detection2d",):
                for i, a in enumerate(rmuts):
                    for bb in rmuts[i + 1:]:
                        if a[1] != bb[1]:
                            c = copy.deepcopy(b)
                            apply_mutation(c, a)
                            apply_mutation(c, bb)
                            out.append(self._mk(c, frame, tag=f"{a[0]} {a[1]} + {bb[0]} {bb[1]} {task}/{variant}"))
            # all four range keys present, some of them falsy-but-not-None (0.0, 0, per-label zeros):
            # "is None" vs truthiness confusions only show on such values
            if task in TASKS_3D + ("sensing",):
                falsy = [0.0, 0, [0.0, 0.0, 0.0, 0.0]]
                combos = []
                for i, k in enumerate(rk):
                    for fv in falsy:
                        combos.append({kk: (fv if kk == k else 100.0) for kk in rk})
                combos.append({kk: 100.0 for kk in rk})
                for i in range(len(rk)):
                    for j in range(i + 1, len(rk)):
                        combos.append({kk: (0.0 if kk in (rk[i], rk[j]) else 50.0) for kk in rk})
                for cmb in (combos if thorough or variant == "xy" else combos[:6]):
                    c = copy.deepcopy(b)
                    c.update(cmb)
                    out.append(self._mk(c, frame, tag=f"all four range keys, falsy values {task}/{variant}"))
            # falsy but VALID values of optional keys, one at a time: a threshold of exactly 0 / 0.0 / [0], an empty uuid / attribute
            # list, a switch set to False -- they are values ("is None" is the test for "not given"), so the configuration is accepted
            # and a zero threshold is normalised to one zero per label like any other number
            if supported_task:
                falsy_ok = {"confidence_threshold": [0.0, 0, [0.0]], "max_matchable_radii": [0.0, [0]], "min_point_numbers": [0, [0]],
                            "target_uuids": [[]], "ignore_attributes": [[]], "merge_similar_labels": [False], "allow_matching_unknown": [False],
                            "count_label_number": [False], "uuid_matching_first": [False]}
                if "max_distance" in b:
                    falsy_ok["min_distance"] = [0.0, 0, [0.0]]
                if "max_x_position" in b:
                    falsy_ok["max_x_position"] = [0.0, [0]]
                    falsy_ok["max_y_position"] = [0]
                for key, vals in falsy_ok.items():
                    for fv in vals:
                        if key in b and enc(b[key]) == enc(fv):
                            continue
                        c = copy.deepcopy(b)
                        c[key] = copy.deepcopy(fv)
                        out.append(self._mk(c, frame, valid=True, tag=f"falsy but valid {key}={fv!r} {task}/{variant}"))
            pairs = [(a, bb) for i, a in enumerate(muts) for bb in muts[i + 1:] if a[1] != bb[1]]
            for a, bb in (pairs if len(pairs) <= n_pairs else rng.sample(pairs, n_pairs)):
                c = copy.deepcopy(b)
                apply_mutation(c, a)
                apply_mutation(c, bb)
                out.append(self._mk(c, frame if rng.random() < 0.9 else rng.choice([["base_link", "map"], "cam_front", "map"]),
                                    tag=f"{a[0]} {a[1]} + {bb[0]} {bb[1]} {task}/{variant}"))
        return out

    def run_impl(self, case):
        from perception_eval.config import PerceptionEvaluationConfig

        cfg = {k: live(k, v) for k, v in case["cfg"]}
        frame = dec(case["frame"])
        support = list(PerceptionEvaluationConfig._support_tasks)
        try:
            c = PerceptionEvaluationConfig(["/nonexistent"], frame, os.path.join(TMP_ROOT, f"r{os.getpid()}"), cfg, load_raw_data=False)
        except Exception as e:  # noqa: BLE001
            name = type(e).__name__
            if name not in ERRORS:
                raise
            return {"error": name, "support_tasks": support}

        def mc(x):
            return None if x is None else [enc(getattr(x, k)) for k in METRIC_KEYS]

        def names(x):
            return None if x is None else [l.name for l in x.target_labels]

        m = c.metrics_config
        # oracle-only: the target labels every part of the configuration holds, by member name, and what the
        # given names convert to one by one through a FRESH converter built the way the constructor builds its own
        labels = {"config": [l.name for l in c.target_labels],
                  "filtering_params": [l.name for l in c.filtering_params["target_labels"]],
                  "metrics_params": [l.name for l in c.metrics_params["target_labels"]],
                  "metrics_config": names(m), "det": names(m.detection_config), "trk": names(m.tracking_config),
                  "cls": names(m.classification_config)}
        tl = cfg.get("target_labels")
        want = None
        if tl is None or (isinstance(tl, (list, tuple)) and all(isinstance(x, str) for x in tl)):
            from perception_eval.common.label import LabelConverter

            fresh = LabelConverter(c.evaluation_task.value, cfg.get("merge_similar_labels", False), cfg["label_prefix"], False)
            want = [fresh.convert_name(x).name for x in tl] if tl else [l.name for l in fresh.label_type]
        return {"ok": {"n": len(c.target_labels), "labels": labels, "want_labels": want,
                       "filters": [enc(c.filtering_params[name]) for name, _ in FILTER_LISTS],
                       "det": mc(m.detection_config), "trk": mc(m.tracking_config), "cls": mc(m.classification_config),
                       "n_frames": len(c.frame_ids),
                       "input_unchanged": [[k, enc(v)] for k, v in cfg.items()] == case["cfg"]
                       and (not isinstance(frame, list) or enc(frame) == case["frame"])},
                "support_tasks": support}

    def _frames(self, case):
        return frames_of(case)

    def _model_cfg(self, case):
        """The dictionary as the model sees it: an EvaluationTask member is its value."""
        return [[k, plain(k, v)] for k, v in case["cfg"]]

    def coq_term(self, case, obs):
        sw = switches()
        swl = f"{{| rejects_both_ranges := {blit(sw['both'])}; rejects_unknown_keys := {blit(sw['unknown'])} |}}"
        if "error" in obs:
            o = f"(Err {obs['error']})"
        else:
            ok = obs["ok"]

            def ol(x):
                return "None" if x is None else "(Some " + llit([self.intern.value(y) for y in x]) + ")"

            o = ("(Ok {| o_n := %d; o_filters := %s; o_det := %s; o_trk := %s; o_cls := %s |})"
                 % (ok["n"], llit([self.intern.opt(x) for x in ok["filters"]]), ol(ok["det"]), ol(ok["trk"]), ol(ok["cls"])))
        return f"check_accept {swl} {self.intern.cfg(self._model_cfg(case))} {llit([slit(f) for f in self._frames(case)])} {o}"

    def coq_debug(self, case, obs):
        sw = switches()
        swl = f"{{| rejects_both_ranges := {blit(sw['both'])}; rejects_unknown_keys := {blit(sw['unknown'])} |}}"
        return f"accept {swl} {cfg_lit(self._model_cfg(case))} {llit([slit(f) for f in self._frames(case)])}"

    # ---- the property, stated directly on what the implementation answered
    def classify(self, case, obs):
        """List of (class, message) of everything the property forbids in this answer."""
        cfg = {k: dec(plain(k, v)) for k, v in case["cfg"]}
        bad = []
        if "ok" not in obs:
            if case.get("valid"):
                bad.append(("valid-rejected", f"valid configuration ({case['tag']}) rejected with {obs['error']}"))
            return bad
        ok = obs["ok"]
        n = ok["n"]
        task = cfg.get("evaluation_task")
        # the manager's tasks are pinned (corpus/C15/golden), not read from the class under test
        if "evaluation_task" not in cfg or not isinstance(task, str) or task not in supported("perception"):
            bad.append(("unsupported-task", f"accepted although evaluation_task={task!r} is not a task of PerceptionEvaluationManager "
                                            f"{supported('perception')} (the class lists {obs['support_tasks']})"))
        if "label_prefix" not in cfg:
            bad.append(("mandatory", "accepted without label_prefix"))
        if task == "detection" and cfg.get("min_point_numbers") is None:
            bad.append(("mandatory", "detection accepted without min_point_numbers"))
        xy = cfg.get("max_x_position") is not None and cfg.get("max_y_position") is not None
        dist = cfg.get("max_distance") is not None and cfg.get("min_distance") is not None
        if task in TASKS_3D + ("sensing",):
            if not xy and not dist:
                bad.append(("no-range", "3D task accepted with neither max_x/y_position nor max/min_distance"))
            if ok["n_frames"] != 1:
                bad.append(("frames", f"3D task accepted with {ok['n_frames']} frame ids"))
        # per-label lists: exactly one real value per target label, and the documented normal form of what was given
        if n < 1:
            bad.append(("lists", "no target label"))
        tl = cfg.get("target_labels")
        if isinstance(tl, list) and tl and all(isinstance(x, str) for x in tl) and n != len(tl):
            bad.append(("lists", f"{len(tl)} target labels given but {n} exposed"))
        # the labels themselves: one list, in the order given, in every part of the configuration (per-label
        # thresholds are positional: the same length with other labels or another order misassigns them)
        labels = ok.get("labels")
        if labels is not None:
            got = labels["config"]
            for part, val in labels.items():
                if val is not None and val != got:
                    bad.append(("labels", f"target labels of {part} are {val} but the configuration's are {got}"))
            if ok["want_labels"] is not None and got != ok["want_labels"]:
                bad.append(("labels", f"target_labels={tl!r} exposed as {got}; converted name by name, in the order given: {ok['want_labels']}"))
            prefix, merge = cfg.get("label_prefix"), cfg.get("merge_similar_labels", False)
            pinned = PINNED_LABELS.get((prefix, merge)) if isinstance(prefix, str) and isinstance(merge, bool) else None
            if pinned and isinstance(tl, list) and tl and all(isinstance(x, str) for x in tl) and len(got) == len(tl):
                for i, x in enumerate(tl):
                    if x in pinned and got[i] != pinned[x]:
                        bad.append(("labels", f"target_labels={tl!r} (merge_similar_labels={cfg.get('merge_similar_labels', False)!r}) "
                                              f"exposed as {got}: entry {i} should be {pinned[x]}"))
                        break
        used = {"max_x_position": xy, "max_y_position": xy, "max_distance": dist and not xy, "min_distance": dist and not xy}
        for (name, key), val in zip(FILTER_LISTS, ok["filters"]):
            given = cfg.get(key)
            if not used.get(key, given is not None):
                if val is not None and key not in used:
                    bad.append(("lists", f"{name} is {dec(val)!r} although {key} was not given"))
                if val is not None and key in used and not (xy and dist):
                    bad.append(("lists", f"{name} is set although its range kind was not given"))
                continue
            v = None if val is None else dec(val)
            if not (isinstance(v, (list, tuple)) and len(v) == n and all(is_real(x) for x in v)):
                bad.append(("lists", f"{name} = {v!r} is not a list of {n} real numbers (given {key}={given!r})"))
                continue
            if not has_tuple(enc(given)):
                want = documented(given, n, False)
                if want is None or not same(list(v), want):
                    bad.append(("lists", f"{name} = {v!r} but {key}={given!r} normalises to {want!r}"))
        for cname in ("det", "trk", "cls"):
            if ok[cname] is None:
                continue
            for key, val in zip(METRIC_KEYS, ok[cname]):
                v = dec(val)
                given = cfg.get(key)
                if not (isinstance(v, list) and all(isinstance(r, list) and len(r) == n and all(is_real(x) for x in r) for r in v)):
                    bad.append(("lists", f"{cname}.{key} = {v!r}: rows are not {n} real numbers each"))
                elif not has_tuple(enc(given)):
                    want = documented(given, n, True) if (given is not None and given != []) else []   # presence, not truthiness: 0 / 0.0 is a threshold (/repo 9bf00e4)
                    if want is None or not same(v, want):
                        bad.append(("lists", f"{cname}.{key} = {v!r} but {given!r} normalises to {want!r}"))
        want_cfgs = {"det": task in ("detection", "detection2d", "tracking", "tracking2d"), "trk": task in ("tracking", "tracking2d"),
                     "cls": task == "classification2d"}
        for cname, w in want_cfgs.items():
            if w != (ok[cname] is not None):
                bad.append(("metrics-config", f"{cname} config {'missing' if w else 'unexpected'} for task {task!r}"))
        if not ok["input_unchanged"]:
            bad.append(("mutated", "the caller's dictionary was modified"))
        # the two recorded findings, last (so they never mask anything else)
        if task in TASKS_3D + ("sensing",) and xy and dist:
            bad.append(("F7", "[both range kinds given] accepted with max_x/y_position and max/min_distance all given; "
                              "documented: RuntimeError"))
        unknown = sorted(k for k in cfg if k not in DOCUMENTED_KEYS)
        if unknown:
            bad.append(("F8", f"[unknown metric parameter key] accepted with unknown key(s) {unknown}; documented: MetricsParameterError"))
        return bad

    def oracle(self, case, obs):
        bad = self.classify(case, obs)
        return f"PerceptionEvaluationConfig ({case['tag']}): {bad[0][1]}" if bad else None

    def nontrivial(self, case, obs):
        return True

    def distribution(self, cases, obs):
        d = {"accepted": 0, "errors": {}, "per_task": {}, "known_classes": {"F7": 0, "F8": 0}, "switches": dict(switches()),
             "task_as_enum_member": 0, "frames_as_tuple": 0, "target_label_order_cases": 0, "target_label_lists_compared": 0,
             "unknown_key_accepted": {}, "supported_tasks_pinned": supported("perception"),
             "falsy_but_valid_values": sum(1 for c in cases if c["tag"].startswith("falsy but valid")),
             "permuted_labels_with_distinct_per_label_values": sum(1 for c in cases if c["tag"].startswith("labels permuted"))}
        for c, o in zip(cases, obs):
            d["task_as_enum_member"] += any(is_enum_task(k, v) for k, v in c["cfg"])
            d["frames_as_tuple"] += isinstance(c["frame"], dict)
            d["target_label_order_cases"] += c["tag"].startswith("target_labels ")
            if isinstance(o, dict) and "ok" in o:
                d["target_label_lists_compared"] += o["ok"].get("want_labels") is not None
                for k, _ in c["cfg"]:
                    if k not in DOCUMENTED_KEYS:
                        d["unknown_key_accepted"][k] = d["unknown_key_accepted"].get(k, 0) + 1
            t = dict(c["cfg"]).get("evaluation_task")
            t = t if isinstance(t, str) else "<corrupt>"
            d["per_task"][t] = d["per_task"].get(t, 0) + 1
            if not isinstance(o, dict) or "__harness_exception__" in o:
                continue
            if "ok" in o:
                d["accepted"] += 1
                for cls, _ in self.classify(c, o):
                    if cls in d["known_classes"]:
                        d["known_classes"][cls] += 1
            else:
                d["errors"][o["error"]] = d["errors"].get(o["error"], 0) + 1
        cleanup_tmp()
        return d


# ---- CriticalObjectFilterConfig / PerceptionPassFailConfig
CRIT_KEYS = ["max_x_position_list", "max_y_position_list", "max_distance_list", "min_distance_list", "min_point_numbers",
             "confidence_threshold_list"]
PF_KEYS = ["matching_threshold_list", "confidence_threshold_list"]
LIST_VALUES = [None, [], [1.0], [1.0, 2.0, 3.0], [1.0, 2.0, 3.0, 4.0], [1.0, 2.0, 3.0, 4.0, 5.0], [1.0, "a", 2.0, 3.0], 5.0, "a", "abcd",
               (1.0, 2.0, 3.0, 4.0), [[1.0, 2.0, 3.0, 4.0]], [True, 0, 2, 3.5], [None, None, None, None], 0, [1.0, 2.0]]
_EVAL = {}
# evaluator configurations the per-frame configs are built from; the last two only for the 3D / 2D dispatch of the range rule
EVAL_KINDS = {"3d": ("detection", "autoware"), "2d": ("detection2d", "autoware"), "tl": ("classification2d", "traffic_light"),
              "fp3d": ("fp_validation", "autoware"), "trk2d": ("tracking2d", "autoware")}
KINDS_3D = ("3d", "fp3d")  # pinned: detection and fp_validation are 3D tasks, the others 2D (docs/en/perception/design.md)


def evaluator(kind):
    if kind not in _EVAL:
        from perception_eval.config import PerceptionEvaluationConfig

        task, variant = EVAL_KINDS[kind]
        _EVAL[kind] = PerceptionEvaluationConfig(["/nonexistent"], base_frame(task), os.path.join(TMP_ROOT, f"r{os.getpid()}"),
                                                 base_config(task, variant), load_raw_data=False)
    return _EVAL[kind]


class FrameConfigCorr(Corr):
    name = "frame_configs"
    requires = ["Model/Config.vo", "Base/CaseUtil.vo"]
    shard = 400

    def __init__(self):
        self.intern = Interner()

    @property
    def header(self):
        return CONFIG_HEADER + self.intern.text()

    def cases(self, tier, rng):
        thorough = tier != "quick"
        out = []
        for kind in ("3d", "2d", "tl"):
            labels = ["green", "red", "yellow", "unknown"] if kind == "tl" else list(LABELS4)
            bases = [
                {"target_labels": labels, "max_x_position_list": [100.0, 100.0, 100.0, 100.0], "max_y_position_list": [100.0, 90.0, 80.0, 70.0],
                 "min_point_numbers": [0, 0, 0, 0]},
                {"target_labels": labels, "max_distance_list": [100.0, 100.0, 100.0, 100.0], "min_distance_list": [0.0, 1.0, 2.0, 3.0],
                 "confidence_threshold_list": [0.5, 0.5, 0.5, 0.5]},
                {"target_labels": labels},
            ]
            # the same labels in another order, every list with a different value per label (the lists are positional)
            pc = {"target_labels": [labels[2], labels[3], labels[0], labels[1]], "max_x_position_list": [100.0, 90.0, 80.0, 70.0],
                  "max_y_position_list": [10.0, 20.0, 30.0, 40.0], "min_point_numbers": [3, 2, 1, 0], "confidence_threshold_list": [0.5, 0.25, 0.0, 0.75]}
            out.append({"cls": "critical", "eval": kind, "args": [[k, enc(v)] for k, v in pc.items()], "valid": True})
            for b in bases:
                out.append({"cls": "critical", "eval": kind, "args": [[k, enc(v)] for k, v in b.items()], "valid": kind != "3d" or len(b) > 1})
                if kind == "3d":
                    # the 3D / 2D dispatch of "a range kind is needed" for two more tasks: bases and every edit of a range key
                    for k2 in ("fp3d", "trk2d"):
                        out.append({"cls": "critical", "eval": k2, "args": [[k, enc(v)] for k, v in b.items()], "valid": k2 == "trk2d" or len(b) > 1})
                        for k in CRIT_KEYS[:4]:
                            for v in LIST_VALUES:
                                c = dict(b)
                                c[k] = v
                                out.append({"cls": "critical", "eval": k2, "args": [[kk, enc(vv)] for kk, vv in c.items()], "valid": False})
                singles = [(k, v) for k in CRIT_KEYS for v in LIST_VALUES] + \
                          [("target_labels", v) for v in (None, [], ["car"], labels + ["bus"], "car", 5.0, [5.0])]
                for k, v in singles:
                    c = dict(b)
                    c[k] = v
                    out.append({"cls": "critical", "eval": kind, "args": [[kk, enc(vv)] for kk, vv in c.items()], "valid": False})
                pairs = [(a, bb) for i, a in enumerate(singles) for bb in singles[i + 1:] if a[0] != bb[0]]
                for a, bb in rng.sample(pairs, 1500 if thorough else 120):
                    c = dict(b)
                    c[a[0]] = a[1]
                    c[bb[0]] = bb[1]
                    out.append({"cls": "critical", "eval": kind, "args": [[kk, enc(vv)] for kk, vv in c.items()], "valid": False})
            pb = {"target_labels": labels, "matching_threshold_list": [2.0, 2.0, 2.0, 2.0]}
            out.append({"cls": "passfail", "eval": kind, "args": [[k, enc(v)] for k, v in pb.items()], "valid": True})
            pp = {"target_labels": [labels[3], labels[0], labels[2], labels[1]], "matching_threshold_list": [4.0, 1.0, 3.0, 0.0],
                  "confidence_threshold_list": [0.0, 0.75, 0.25, 0.5]}
            out.append({"cls": "passfail", "eval": kind, "args": [[k, enc(v)] for k, v in pp.items()], "valid": True})
            for k in PF_KEYS:
                for v in LIST_VALUES:
                    for tl in (labels, None, ["car"], labels + ["bus"]):
                        c = dict(pb)
                        c[k] = v
                        c["target_labels"] = tl
                        out.append({"cls": "passfail", "eval": kind, "args": [[kk, enc(vv)] for kk, vv in c.items()], "valid": False})
        return out

    def run_impl(self, case):
        from perception_eval.evaluation.result.perception_frame_config import CriticalObjectFilterConfig, PerceptionPassFailConfig

        ev = evaluator(case["eval"])
        args = {k: dec(v) for k, v in case["args"]}
        keys = CRIT_KEYS if case["cls"] == "critical" else PF_KEYS
        try:
            if case["cls"] == "critical":
                tl = args.pop("target_labels", None)
                c = CriticalObjectFilterConfig(ev, tl, **args)
            else:
                tl = args.pop("target_labels", None)
                c = PerceptionPassFailConfig(ev, tl, **args)
        except Exception as e:  # noqa: BLE001
            name = type(e).__name__
            if name not in ERRORS:
                raise
            return {"error": name}
        return {"ok": {"n": len(c.target_labels), "lists": [enc(getattr(c, k)) for k in keys],
                       "same_object": [getattr(c, k) is args.get(k) for k in keys]}}

    def coq_term(self, case, obs):
        ev = evaluator(case["eval"])
        n_all = len(list(ev.label_converter.label_type))
        if "error" in obs:
            o = f"(Err {obs['error']})"
        else:
            o = f"(Ok ({obs['ok']['n']}, {llit([self.intern.opt(x) for x in obs['ok']['lists']])}))"
        if case["cls"] == "critical":
            return f"check_critical {blit(case['eval'] not in KINDS_3D)} {n_all} {self.intern.cfg(case['args'])} {o}"
        return f"check_passfail {n_all} {self.intern.cfg(case['args'])} {o}"

    def coq_debug(self, case, obs):
        ev = evaluator(case["eval"])
        n_all = len(list(ev.label_converter.label_type))
        if case["cls"] == "critical":
            return f"critical_accept {blit(case['eval'] not in KINDS_3D)} {n_all} {cfg_lit(case['args'])}"
        return f"passfail_accept {n_all} {cfg_lit(case['args'])}"

    def oracle(self, case, obs):
        args = {k: dec(v) for k, v in case["args"]}
        what = f"{'CriticalObjectFilterConfig' if case['cls'] == 'critical' else 'PerceptionPassFailConfig'}({args!r}) [{case['eval']}]"
        if "ok" not in obs:
            return f"{what}: valid per-frame configuration rejected with {obs['error']}" if case.get("valid") else None
        ok = obs["ok"]
        n = ok["n"]
        tl = args.get("target_labels")
        if isinstance(tl, list) and tl and all(isinstance(x, str) for x in tl) and n != len(tl):
            return f"{what}: {len(tl)} target labels given but {n} exposed"
        if n < 1:
            return f"{what}: no target label"
        keys = CRIT_KEYS if case["cls"] == "critical" else PF_KEYS
        for k, val in zip(keys, ok["lists"]):
            if val is None:
                continue
            v = dec(val)
            if not (isinstance(v, (list, tuple, str)) and len(v) == n and all(is_real(x) for x in v)):
                return f"{what}: accepted with {k} = {v!r}, not {n} real numbers"
            if not same(v, args.get(k)):
                return f"{what}: {k} = {v!r} is not the list that was given ({args.get(k)!r})"
        if case["cls"] == "critical":
            x, y, d, e = ok["lists"][:4]
            if case["eval"] in KINDS_3D and not ((x is not None and y is not None) or (d is not None and e is not None)):
                return f"{what}: 3D task accepted without a complete range kind"
            for k, val in zip(keys[4:], ok["lists"][4:]):
                if args.get(k) is not None and val is None:
                    return f"{what}: {k} was given but is not exposed"
        else:
            for k, val in zip(keys, ok["lists"]):
                if args.get(k) is not None and val is None:
                    return f"{what}: {k} was given but is not exposed"
        return None

    def nontrivial(self, case, obs):
        return len(case["args"]) > 1

    def distribution(self, cases, obs):
        d = {"critical": 0, "passfail": 0, "accepted": 0, "errors": {}, "per_evaluator": {}}
        for c, o in zip(cases, obs):
            d[c["cls"]] += 1
            d["per_evaluator"][c["eval"]] = d["per_evaluator"].get(c["eval"], 0) + 1
            if isinstance(o, dict) and "ok" in o:
                d["accepted"] += 1
            elif isinstance(o, dict) and "error" in o:
                d["errors"][o["error"]] = d["errors"].get(o["error"], 0) + 1
        _EVAL.clear()
        cleanup_tmp()
        return d


# ---- the key tables of the model against the source (own small ast extraction; the shared
#      translator only extracts the supported-task lists)
class KeysCorr(Corr):
    name = "config_keys"
    header = ("From Coq Require Import String List Bool.\nFrom PE Require Import Base.CaseUtil Base.StrUtil Model.PyVal Model.Config.\n"
              "Import ListNotations.\nOpen Scope string_scope.\n")
    requires = ["Model/Config.vo", "Base/CaseUtil.vo"]

    def cases(self, tier, rng):
        return [{"what": "keys"}]

    def run_impl(self, case):
        import ast

        root = os.path.join(core.REPO, "perception_eval", "perception_eval")
        read = set()
        m_keys = None
        for rel in ("config/perception_evaluation_config.py", "config/_evaluation_config_base.py"):
            tree = ast.parse(open(os.path.join(root, rel)).read())
            for node in ast.walk(tree):
                # e_cfg.get("k"[, default]) / e_cfg["k"] / evaluation_config_dict["k"]
                if isinstance(node, ast.Call) and isinstance(node.func, ast.Attribute) and node.func.attr == "get" \
                        and isinstance(node.func.value, ast.Name) and node.func.value.id in ("e_cfg", "evaluation_config_dict") \
                        and node.args and isinstance(node.args[0], ast.Constant) and isinstance(node.args[0].value, str):
                    read.add(node.args[0].value)
                if isinstance(node, ast.Subscript) and isinstance(node.value, ast.Name) and node.value.id in ("e_cfg", "evaluation_config_dict"):
                    sl = node.slice
                    if isinstance(sl, ast.Constant) and isinstance(sl.value, str):
                        read.add(sl.value)
                if isinstance(node, ast.AnnAssign) and isinstance(node.target, ast.Name) and node.target.id == "m_params" \
                        and isinstance(node.value, ast.Dict):
                    m_keys = [k.value for k in node.value.keys]
        import inspect

        from perception_eval.evaluation.metrics.config._metrics_config_base import _MetricsConfigBase
        from perception_eval.evaluation.metrics.config.classification_metrics_config import ClassificationMetricsConfig
        from perception_eval.evaluation.metrics.config.detection_metrics_config import DetectionMetricsConfig
        from perception_eval.evaluation.metrics.config.tracking_metrics_config import TrackingMetricsConfig

        sigs = {c.__name__: list(inspect.signature(c).parameters) for c in
                (DetectionMetricsConfig, TrackingMetricsConfig, ClassificationMetricsConfig)}
        src = inspect.getsource(_MetricsConfigBase.__init__)
        return {"read": sorted(read), "m_params": m_keys, "signatures": sigs,
                "thresholds_by_presence": all(f"if {k} is not None and {k} != []:" in src for k in METRIC_KEYS)}

    def coq_term(self, case, obs):
        L = llit([slit(k) for k in obs["read"]])
        M = llit([slit(k) for k in (obs["m_params"] or []) if k != "target_labels"])
        return (f"(forallb (fun k => mem_str k {L}) read_keys && forallb (fun k => mem_str k read_keys) {L} && "
                f"list_eqb String.eqb metric_keys {M} && {blit(obs['thresholds_by_presence'])})")

    def coq_debug(self, case, obs):
        return "(read_keys, metric_keys)"

    def oracle(self, case, obs):
        if obs["m_params"] is None:
            return "m_params literal not found in _extract_params"
        for cname, sig in obs["signatures"].items():
            extra = [k for k in obs["m_params"] if k not in sig]
            if extra:
                return f"_extract_params passes {extra} which {cname} does not take"
        und = [k for k in obs["read"] if k not in DOCUMENTED_KEYS]
        if und:
            return f"the constructor reads undocumented key(s) {und}"
        return None


# ---- get_label_threshold on normalised lists
class LabelThresholdCorr(Corr):
    name = "get_label_threshold"
    header = ("From Coq Require Import String List Bool QArith.\nFrom PE Require Import Base.CaseUtil Model.PyVal Model.Threshold.\n"
              "Import ListNotations.\nOpen Scope string_scope.\n")
    requires = ["Model/Threshold.vo", "Base/CaseUtil.vo"]

    def cases(self, tier, rng):
        names = ["CAR", "BICYCLE", "PEDESTRIAN", "MOTORBIKE", "BUS", "UNKNOWN"]
        out = []
        for _ in range(1500 if tier != "quick" else 300):
            k = rng.choice([0, 1, 2, 3, 4, 4, 5])
            targets = [rng.choice(names) for _ in range(k)] if rng.random() < 0.4 else rng.sample(names, k)
            r = rng.random()
            m = k if r < 0.6 else rng.choice([0, max(k - 1, 0), k + 1])
            th = None if rng.random() < 0.08 else [rng.randrange(0, 64) / 8 for _ in range(m)]
            out.append({"label": rng.choice(names), "targets": None if rng.random() < 0.05 else targets, "thresholds": th})
        return out

    def run_impl(self, case):
        from perception_eval.common.label import AutowareLabel, Label
        from perception_eval.common.threshold import LabelThreshold, get_label_threshold

        lab = Label(AutowareLabel[case["label"]], case["label"].lower())
        targets = None if case["targets"] is None else [AutowareLabel[t] for t in case["targets"]]
        try:
            r = get_label_threshold(lab, targets, case["thresholds"])
            r2 = LabelThreshold(lab, targets).get_label_threshold(case["thresholds"])
        except IndexError:
            return {"error": "IndexError"}
        return {"value": r, "same_via_class": r == r2}

    def coq_term(self, case, obs):
        ts = "None" if case["targets"] is None else "(Some " + llit([slit(t) for t in case["targets"]]) + ")"
        th = "None" if case["thresholds"] is None else "(Some " + llit([qlit(x) for x in case["thresholds"]]) + ")"
        if "error" in obs:
            pat = "IndexErr => true"
        elif obs["value"] is None:
            pat = "NoThreshold => true"
        else:
            pat = f"Found a => Qeqb a {qlit(obs['value'])}"
        return (f"(match @get_label_threshold Q {slit(case['label'])} {ts} {th} with {pat} | _ => false end && "
                f"{blit(obs.get('same_via_class', True))})")

    def oracle(self, case, obs):
        t, th = case["targets"], case["thresholds"]
        if t is None or th is None or len(th) != len(t):
            return None  # only lists normalised to one value per label are in the property
        if "error" in obs:
            return f"get_label_threshold({case['label']}, {t}, {th}) raised IndexError on a normalised list"
        if case["label"] in t:
            want = th[t.index(case["label"])]
            if obs["value"] != want:
                return f"get_label_threshold({case['label']}, {t}, {th}) = {obs['value']!r}, expected the value at the label's index {want!r}"
        elif obs["value"] is not None:
            return f"get_label_threshold({case['label']}, {t}, {th}) = {obs['value']!r} for a label that is not a target"
        return None

    def nontrivial(self, case, obs):
        return bool(case["targets"]) and bool(case["thresholds"])


# ---- SensingEvaluationConfig: the other anchored configuration class, instantiated
#      (the model has no sensing constructor: the Coq term below composes the model's own pieces -- the translated
#      sensing task list, set_task, label_count, check_frames -- in the order _EvaluationConfigBase.__init__ runs)
SENSING_HEADER = (CONFIG_HEADER.replace("Model.Config.", "Model.Config Base.StrUtil Model.EnumParse Gen.Enums Gen.ConfigTables.") +
                  "Definition sensing_accept (c : cfg) (frames : list string) : res nat :=\n"
                  "  match lookup \"evaluation_task\" c with\n"
                  "  | None => Err KeyError\n"
                  "  | Some (Str s) =>\n"
                  "      if mem_str s sensing_support_tasks then\n"
                  "        match run_parser EvaluationTask_enum set_task s with\n"
                  "        | Member k =>\n"
                  "            bind (label_count (match lookup \"label_prefix\" c with None => (\"label_prefix\", Str \"autoware\") :: c | Some _ => c end)) (fun _ =>\n"
                  "            bind (check_frames k frames) (fun _ => Ok (length frames)))\n"
                  "        | _ => Err ValueError\n"
                  "        end\n"
                  "      else Err ValueError\n"
                  "  | Some _ => Err ValueError\n"
                  "  end.\n")
SENSING_DEFAULTS = [("target_uuids", None), ("box_scale_0m", 1.0), ("box_scale_100m", 1.0), ("min_points_threshold", 1)]  # docs/en/sensing/design.md


class SensingConfigCorr(Corr):
    name = "sensing_config"
    header = SENSING_HEADER
    requires = ["Model/Config.vo", "Base/CaseUtil.vo"]
    shard = 400

    def cases(self, tier, rng):
        tasks = [t for t in KEY_SPECIFIC["evaluation_task"] if t is not None] + ["Sensing", "SENSING", "", "enum:PREDICTION"]
        frames = ["base_link", "map", "BASE_LINK", ["base_link"], ("map",), ["base_link", "map"], ("base_link", "map"),
                  ["cam_front", "cam_back"], "cam_front", "lidar_top", "foo", [], (), ["base_link", "foo"], ["map", "map"]]
        extras = [{}, {"target_uuids": ["u1", "u2"], "box_scale_0m": 1.5, "box_scale_100m": 2.0, "min_points_threshold": 3},
                  {"box_scale_0m": 0.5}, {"label_prefix": "autoware"}, {"label_prefix": "traffic_light"}, {"label_prefix": "foo"},
                  {"label_prefix": "blinker"}, {"label_prefix": None}, {"merge_similar_labels": True, "count_label_number": False},
                  {"target_uuids": None, "min_points_threshold": 0},
                  # falsy values are values: they are exposed as given, not replaced by the defaults
                  {"target_uuids": [], "box_scale_0m": 0.0, "box_scale_100m": 0, "min_points_threshold": 0},
                  {"box_scale_100m": 0.0, "count_label_number": False, "merge_similar_labels": False}]
        out = []

        def mk(task, frame, extra, drop_task=False):
            cfg = {} if drop_task else {"evaluation_task": task}
            cfg.update(copy.deepcopy(extra))
            ids = [frame] if isinstance(frame, str) else list(frame)
            valid = (not drop_task and task in ("sensing", "enum:SENSING") and len(ids) == 1 and ids[0].lower() in ("base_link", "map")
                     and cfg.get("label_prefix", "autoware") in ("autoware", "traffic_light"))
            out.append({"cfg": [[k, enc(v)] for k, v in cfg.items()], "frame": enc(frame), "valid": valid})

        core_tasks = ("sensing", "enum:SENSING", "Sensing", "detection", "enum:DETECTION", "foo", "fp_validation", "classification2d")
        for t in tasks:
            for fr in (frames if tier != "quick" or t in core_tasks else frames[:1] + frames[4:7]):
                mk(t, fr, extras[0])
        for fr in frames:
            mk(None, fr, extras[1], drop_task=True)
        for t in ("sensing", "enum:SENSING", "detection", "foo"):
            for fr in ("base_link", ["map"], ("base_link", "map"), "cam_front"):
                for e in extras[1:]:
                    mk(t, fr, e)
        if tier != "quick":
            for t in tasks:
                for fr in frames:
                    for e in extras[1:]:
                        mk(t, fr, e)
        return out

    def run_impl(self, case):
        from perception_eval.config import SensingEvaluationConfig

        cfg = {k: live(k, v) for k, v in case["cfg"]}
        frame = dec(case["frame"])
        try:
            c = SensingEvaluationConfig(["/nonexistent"], frame, os.path.join(TMP_ROOT, f"r{os.getpid()}"), cfg, load_raw_data=False)
        except Exception as e:  # noqa: BLE001
            name = type(e).__name__
            if name not in ERRORS:
                raise
            return {"error": name}
        return {"ok": {"n_frames": len(c.frame_ids), "task": c.evaluation_task.value, "label_type": c.label_converter.label_type.__name__,
                       "exposed": [[k, enc({**c.filtering_params, **c.metrics_params}.get(k, "<absent>"))] for k, _ in SENSING_DEFAULTS],
                       "input_unchanged": [[k, enc(v)] for k, v in cfg.items()] == case["cfg"]
                       and (not isinstance(frame, list) or enc(frame) == case["frame"])}}

    def coq_term(self, case, obs):
        o = f"(Err {obs['error']})" if "error" in obs else f"(Ok {obs['ok']['n_frames']})"
        cfg = [[k, plain(k, v)] for k, v in case["cfg"]]
        return f"res_eqb Nat.eqb (sensing_accept {cfg_lit(cfg)} {llit([slit(f) for f in frames_of(case)])}) {o}"

    def coq_debug(self, case, obs):
        cfg = [[k, plain(k, v)] for k, v in case["cfg"]]
        return f"sensing_accept {cfg_lit(cfg)} {llit([slit(f) for f in frames_of(case)])}"

    def oracle(self, case, obs):
        cfg = {k: dec(plain(k, v)) for k, v in case["cfg"]}
        what = f"SensingEvaluationConfig({cfg!r}, frame_id={dec(case['frame'])!r})"
        if "ok" not in obs:
            return f"{what}: valid sensing configuration rejected with {obs['error']}" if case.get("valid") else None
        ok = obs["ok"]
        task = cfg.get("evaluation_task")
        if "evaluation_task" not in cfg or not isinstance(task, str) or task not in supported("sensing"):
            return f"{what}: accepted although evaluation_task={task!r} is not a task of SensingEvaluationManager {supported('sensing')}"
        if ok["task"] != task:
            return f"{what}: evaluation_task exposed as {ok['task']!r}"
        if ok["n_frames"] != 1:
            return f"{what}: sensing (a 3D task) accepted with {ok['n_frames']} frame ids"
        for (k, default), (_, val) in zip(SENSING_DEFAULTS, ok["exposed"]):
            want = cfg.get(k, default)
            if not same(dec(val), want):
                return f"{what}: {k} exposed as {dec(val)!r}, {'given' if k in cfg else 'documented default'} {want!r}"
        if "label_prefix" not in cfg and ok["label_type"] != "AutowareLabel":
            return f"{what}: label_prefix not given (documented default 'autoware') but labels are {ok['label_type']}"
        if not ok["input_unchanged"]:
            return f"{what}: the caller's dictionary / frame list was modified"
        return None

    def nontrivial(self, case, obs):
        return True

    def distribution(self, cases, obs):
        d = {"cases": len(cases), "accepted": 0, "errors": {}, "task_as_enum_member": 0, "frames_as_tuple": 0}
        for c, o in zip(cases, obs):
            d["task_as_enum_member"] += any(is_enum_task(k, v) for k, v in c["cfg"])
            d["frames_as_tuple"] += isinstance(c["frame"], dict)
            if isinstance(o, dict) and "ok" in o:
                d["accepted"] += 1
            elif isinstance(o, dict) and "error" in o:
                d["errors"][o["error"]] = d["errors"].get(o["error"], 0) + 1
        cleanup_tmp()
        return d


# ---- check_thresholds / check_nested_thresholds called directly (set_thresholds only hands them pre-normalised values)
def normal_form(spec, n, nest):
    """Is `spec` already one real value per label (flat) / non-empty rows of one real value per label (nested)?"""
    if not isinstance(spec, list):
        return False
    if not nest:
        return len(spec) == n and all(is_real(t) for t in spec)
    return len(spec) > 0 and n >= 1 and all(isinstance(r, list) and len(r) == n and all(is_real(t) for t in r) for r in spec)


class CheckersCorr(Corr):
    name = "check_thresholds"
    header = ThresholdCorr.header
    requires = ThresholdCorr.requires
    shard = 400

    def cases(self, tier, rng):
        thorough = tier != "quick"
        ns = list(range(0, 5 if thorough else 4))
        specs = [[0.5, 1.5], [0.5, 1.5, 2.5], [[0.5, 1.5]], [[0.5, 1.5], [2.5, 3.5]], [[0.5, 1.5, 2.5], [1.0, 2.0, 3.0]],
                 [[1.0, "a"]], [[[1.0]]], 1.0, [], [[]], [[], []], [[2.0], [3.0, 4.0]], [1.0, [2.0]], [[1.0, 2.0, 3.0]], [1.0, 2.0], "ab", None,
                 (1.0, 2.0), [(1.0, 2.0)], ([1.0, 2.0],), [[1.0, 2.0], (1.0, 2.0)], [[1.0, 2.0], "ab"], [[1.0, 2.0], None], [[1.0, 2.0], 3.0]]
        # already normal values for every n, and their near misses: a short / long / empty / non-numeric / non-list row
        vals = [1.0, 2, True, 0.5]
        for n in ns + [5]:
            for k in (1, 2, 3, 1, 2, 4):
                rows = [[rng.choice(vals) for _ in range(n)] for _ in range(k)]
                specs.append(copy.deepcopy(rows))
                specs.append(list(rows[0]))
                if k == 4:
                    continue
                i = rng.randrange(k)
                for bad in (rows[i] + [1.0], rows[i][:-1], [], rows[i][:-1] + ["a"], rows[i][:-1] + [None], rows[i][:-1] + [[1.0]],
                            tuple(rows[i]), "a" * n, None, 1.0):
                    r2 = copy.deepcopy(rows)
                    r2[i] = bad
                    specs.append(r2)
        L = 3
        flat = [list(t) for k in range(0, L + 1) for t in itertools.product(ATOMS, repeat=k)]
        M = list(SCALARS) + [list(t) for k in range(0, 3) for t in itertools.product(ATOMS, repeat=k)]
        pairs = [[a, b] for a in M for b in M]
        singles = [[r] for r in flat]
        if thorough:
            specs += flat + singles + pairs
        else:
            specs += rng.sample(flat, 100) + rng.sample(singles, 60) + rng.sample(pairs, 100)
        t = ThresholdCorr()
        for _ in range(1500 if thorough else 60):
            specs.append(t._random_spec(rng, 0))
        seen, out = set(), []
        for s in specs:
            j = enc(s)
            key = core.canon(j)
            if key not in seen:
                seen.add(key)
                k_ns = ns if depth(j) <= 2 and not has_tuple(j) else sorted(set(ns) | {5})
                out.append({"spec": j, "ns": sorted(set(k_ns) | {4, 6}) if divides_some(s) else k_ns})
        return out

    def run_impl(self, case):
        from perception_eval.common.threshold import ThresholdError, check_nested_thresholds, check_thresholds

        res = []
        for n in case["ns"]:
            for nest in (False, True):
                spec = dec(case["spec"])
                try:
                    out = (check_nested_thresholds if nest else check_thresholds)(spec, n)
                except ThresholdError:
                    res.append({"n": n, "nest": nest, "error": "ThresholdError"})
                    continue
                except TypeError:
                    res.append({"n": n, "nest": nest, "error": "TypeError"})
                    continue
                res.append({"n": n, "nest": nest, "ok": enc(out), "same_object": out is spec, "unchanged": enc(spec) == case["spec"]})
        return res

    def coq_term(self, case, obs):
        items = [f"({o['n']}, {blit(o['nest'])}, {ThresholdCorr._res(o)})" for o in obs]
        return ("forallb (fun x : nat * bool * res pyval => match x with (n, nest, o) => obs_eqb ((if nest then check_nested_thresholds else check_thresholds) "
                f"{pv(case['spec'])} n) o end) {llit(items)}")

    def coq_debug(self, case, obs):
        return ("map (fun x : nat * bool => (if snd x then check_nested_thresholds else check_thresholds) " + pv(case["spec"]) + " (fst x)) " +
                llit([f"({o['n']}, {blit(o['nest'])})" for o in obs]))

    def oracle(self, case, obs):
        spec = dec(case["spec"])
        for o in obs:
            n, nest = o["n"], o["nest"]
            what = f"{'check_nested_thresholds' if nest else 'check_thresholds'}({spec!r}, {n})"
            if "ok" in o:
                out = dec(o["ok"])
                # whatever passes a checker holds one real value per label (tuples included)
                if nest:
                    good = isinstance(out, (list, tuple, str)) and all(
                        isinstance(r, list) and len(r) == n and n >= 1 and all(is_real(x) for x in r) for r in out)
                else:
                    good = isinstance(out, (list, tuple, str)) and len(out) == n and all(is_real(x) for x in out)
                if not good:
                    return f"{what} passed {out!r}: not {'rows of ' if nest else ''}exactly {n} real values"
                if not o["same_object"] or not o["unchanged"]:
                    return f"{what}: a checker has to hand back the very list it was given, unchanged (returned {out!r})"
            if has_tuple(case["spec"]) or isinstance(spec, str) or (nest and spec == []):
                continue  # tuples / strings are outside the documented types; the empty list of rows is not specified
            if normal_form(spec, n, nest) and "ok" not in o:
                return f"{what}: a list already holding one real value per label was rejected with {o['error']}"
            if not normal_form(spec, n, nest) and "ok" in o:
                return f"{what}: malformed list passed the check"
        return None

    def nontrivial(self, case, obs):
        return depth(case["spec"]) >= 1

    def distribution(self, cases, obs):
        d = {"specs": len(cases), "calls": 0, "passed_flat": 0, "passed_nested": 0, "ThresholdError": 0, "TypeError": 0}
        for c, ob in zip(cases, obs):
            if not isinstance(ob, list):
                continue
            for o in ob:
                d["calls"] += 1
                if "ok" in o:
                    d["passed_nested" if o["nest"] else "passed_flat"] += 1
                else:
                    d[o["error"]] += 1
        return d


class C15(Prop):
    id = "C15"
    props_file = "Props/C15.v"
    # redundant tie (core.gen_tie): these functions, translated from the source on every run, equal the hand model for all inputs
    gen_tie_theorems = ['GenTie_get_thresholds', 'GenTie_get_nested_thresholds', 'GenTie_check_thresholds', 'GenTie_check_nested_thresholds', 'GenTie_set_thresholds', 'GenTie_check_tasks', 'GenTie_set_target_lists', 'GenTie_extract_label_params', 'GenTie_extract_label_params_model', 'GenTie_extract_params', 'GenTie_extract_params_model', 'GenTie_critical_init', 'GenTie_critical_call', 'GenTie_critical_call_outside', 'GenTie_passfail_init', 'GenTie_passfail_call', 'GenTie_passfail_call_outside', 'GenTie_sensing_extract_params']
    gen_files = ["ConfigTables.v", "Enums.v", "LabelTables.v"]
    design_ref = "DESIGN.md section 4, C15"
    technique = ("Rocq proof about executable Gallina models of common/threshold.py and of configuration acceptance "
                 "(PerceptionEvaluationConfig, CriticalObjectFilterConfig, PerceptionPassFailConfig) over a Python value universe; "
                 "supported-task list, task/frame/policy enums and label enums regenerated from the source; in-Coq correspondence")
    level_text = ("Theorems (Props/C15.v, closed under the global context) hold for ALL Python values of the modelled universe (numbers, bool, "
                  "str, None, arbitrarily nested lists/tuples), all numbers of labels and all dictionaries: set_thresholds accepts exactly the "
                  "well-formed specifications and returns exactly their normal form (no padding, no truncation, non-numeric entries rejected), "
                  "results hold one real value per label, normal forms are fixed points, scalars/singletons broadcast; an accepted "
                  "configuration has a supported task, a range kind and one frame id for 3D, the mandatory parameters, and exposes only "
                  "per-label lists of len(target_labels) real numbers; per-frame configurations hold only checked lists. The full acceptance "
                  "statement is proved for the documented behaviour and refuted for today's code with the two recorded witnesses (F7, F8); "
                  "the exact guard is proved. The models are compared with the real functions on an exhaustive family of threshold "
                  "specifications and on every 1-key (sampled 2-key) edit of valid dictionaries for every task. Runtime (oracle) only, not "
                  "theorems: the accepted task is in a PINNED list of the manager's tasks (corpus/C15/golden/supported_tasks.json), not the "
                  "class's own list; the target labels of the configuration, filtering_params, metrics_params, MetricsScoreConfig and every "
                  "metrics sub-config are one list equal to the given names converted one by one in the order given; SensingEvaluationConfig "
                  "is instantiated (accepted only for task 'sensing' with exactly one frame id; documented defaults exposed); "
                  "check_thresholds / check_nested_thresholds called directly pass exactly the already normal lists and return the same object.")
    level_note = ("Trusted: Coq kernel+vm_compute; translator/py_to_coq.py for Gen/*.v; the hand-written models (tied by this run's "
                  "correspondence, incl. an ast check of the key tables); values outside the universe (numpy scalars, nan/inf, dict, objects) "
                  "are not modelled; exception classes are modelled, messages are not. The F7/F8 'repaired' variants of the model are one "
                  "plausible repair each; a different repair of /repo needs the model updated.")
    rule = ("set_thresholds: witnesses, all 7 atoms, all lists of <=3 (4) atoms, [row] for all rows of <=3 (4) atoms, pairs over scalars+rows "
            "of <=2 atoms, triples over 11 mixed elements (sampled in quick, exhaustive in thorough) + random deeper/tuple/str specs, each for "
            "n in 0..3 (0..4) and both nest flags, plus idempotence re-run; config: F7/F8 witnesses, corpus, 18 valid bases (8 tasks x 2 "
            "variants + 2 unsupported tasks), 9 frame-id variants, every delete/None/corrupt(15 values or key-specific)/add(19 keys) of one "
            "key, all range-key pairs, sampled other pairs; per-frame configs: 3 evaluator configs x 3 bases x 6 keys x 16 values + pairs; "
            "non-trivial = spec of depth >= 1 / every config case; "
            "config also: evaluation_task as an EvaluationTask member (6 members), frame ids as tuples (4 variants per base), unknown keys "
            "that are not threshold-like (max_x_postion, min_points_number, box_scale_0m; class F8), target-label lists with repeated / merging / "
            "unsorted names x merge on/off with per-label values valid for any label count (label NAMES and order observed in every "
            "part of the configuration), supported tasks pinned in corpus/C15/golden; "
            "sensing_config: SensingEvaluationConfig over 24 task values (str / enum member / corrupt / missing) x 15 frame-id variants "
            "(str, list, tuple; 0-2 ids) + 9 parameter sets (documented keys, label_prefix variants); "
            "check_thresholds: both checkers directly on already-normal lists for n in 0..3,5 (1-4 rows), 10 near misses of each (long / short / "
            "empty / non-numeric / non-list / tuple row), samples of the set_thresholds family, n in 0..3 (0..4); "
            "per-frame configs also on fp_validation and tracking2d evaluators (range keys only); "
            "order: every valid 4-label base and the per-frame configs also with the SAME labels in two other orders and a different value "
            "per label in every per-label list (lists are positional: each must come out exactly as given); "
            "numeric edges: lists / rows of 2 or 3 numbers are also normalised and checked for 4 and 6 labels (a length that properly divides "
            "the label count must be rejected, not tiled); every valid base with ONE optional key set to a falsy but valid value "
            "(confidence_threshold / max_matchable_radii / min_point_numbers / min_distance / max_x_position = 0, 0.0 or [0]; empty "
            "target_uuids / ignore_attributes; switches False) must be ACCEPTED with a zero per label; sensing parameters 0 / 0.0 / [] "
            "are exposed as given, not replaced by their defaults")
    assumptions = [
        "Python values restricted to int/float (finite), bool, str, None, list, tuple",
        "number of target labels >= 1 for idempotence (set_target_lists never returns an empty list; C15_zero_labels states the n = 0 behaviour)",
        "translator validated by C14/C20 correspondences; key tables validated by the config_keys correspondence of this run",
    ]
    not_proved = [
        "full config_accept_sound for today's code: refuted by the two recorded witnesses (F7 both range kinds, F8 unknown key); proved for the repaired variant and as _partial/_guard_exact",
        "documented 'Mandatory: Yes' of the four metric threshold keys is not enforced by the code and not treated as mandatory (the repository's own tests omit them)",
        "CriticalObjectFilterConfig also accepts both range kinds (x/y wins); the property only speaks about its length checks",
        "exception messages; log/visualization directory creation",
    ]

    def correspondences(self):
        return [ThresholdCorr(), LabelThresholdCorr(), ConfigCorr(), FrameConfigCorr(), KeysCorr(), SensingConfigCorr(), CheckersCorr()]

    # ---- known findings: matched by id + call site + input class, never by message text alone
    def _known_class(self, corr_name, case, obs):
        if corr_name != "config" or not isinstance(obs, dict) or "ok" not in obs:
            return None
        bad = ConfigCorr().classify(case, obs)
        return bad[0][0] if bad else None

    def known_match(self, finding, corr_name, case, obs, msg):
        fid = finding.get("id")
        if fid == "F8" and switches()["unknown"]:
            # the recorded finding is "unknown keys are silently dropped": once the recorded witness is rejected, an
            # unknown key that still gets through (a typo of a filter key, say) is a partial repair, not that finding
            return False
        return fid in ("F7", "F8") and self._known_class(corr_name, case, obs) == fid

    def known_probe(self, finding):
        try:
            if finding.get("id") == "F7":
                return probe_config(witness_F7()) == "accepted"
            if finding.get("id") == "F8":
                return probe_config(witness_F8()) == "accepted"
            return False
        finally:
            cleanup_tmp()

    def search(self, rng, budget_s):
        """Oracle-only search that does not stop at instances of the listed findings."""
        import time

        known = [f for f in core.load_known() if f.get("property") == self.id and f.get("status") == "known"]
        t0 = time.time()
        try:
            for c in self.correspondences():
                for case in c.cases("thorough", rng):
                    if time.time() - t0 > budget_s:
                        return None
                    obs = core.safe_run(c, case)
                    if isinstance(obs, dict) and "__harness_exception__" in obs:
                        continue
                    msg = c.oracle(case, obs)
                    if msg and not any(self.known_match(f, c.name, case, obs, msg) for f in known):
                        return c, case, obs, msg
            return None
        finally:
            _EVAL.clear()
            cleanup_tmp()


READY = True
PROP = C15()
