"""C15 -- configurations are validated; thresholds normalised to one value per label."""
import itertools
import os
import shutil
from numbers import Real

from harness.lib import core
from harness.lib.core import Corr, Prop, qlit, slit, llit, blit

# ------------------------------------------------------------------------------------------------
# Python values <-> JSON-able encoding <-> Coq [pyval] literals
#   list -> list, tuple -> {"tuple": [...]}, numbers / bool / str / None as themselves
# ------------------------------------------------------------------------------------------------


def enc(v):
    if isinstance(v, tuple):
        return {"tuple": [enc(x) for x in v]}
    if isinstance(v, list):
        return [enc(x) for x in v]
    if v is None or isinstance(v, (bool, int, float, str)):
        return v
    return {"opaque": type(v).__name__}


def dec(j):
    if isinstance(j, dict):
        return tuple(dec(x) for x in j["tuple"])
    if isinstance(j, list):
        return [dec(x) for x in j]
    return j


def pv(j):
    """Coq literal of an encoded value."""
    if isinstance(j, dict):
        if "tuple" in j:
            return "(Tuple " + llit([pv(x) for x in j["tuple"]]) + ")"
        return '(Str "<opaque>")'
    if isinstance(j, list):
        return "(List " + llit([pv(x) for x in j]) + ")"
    if j is None:
        return "NoneV"
    if isinstance(j, bool):
        return f"(Bool {blit(j)})"
    if isinstance(j, (int, float)):
        return f"(Num {qlit(j)})"
    if isinstance(j, str):
        return f"(Str {slit(j)})"
    raise ValueError(j)


def depth(j):
    if isinstance(j, dict):
        j = j.get("tuple", [])
    if isinstance(j, list):
        return 1 + max([depth(x) for x in j], default=0)
    return 0


# ------------------------------------------------------------------------------------------------
# Part 1: set_thresholds
# ------------------------------------------------------------------------------------------------
ATOMS = [1.0, 2, True, "a", None, [], [1.0]]
SCALARS = [1.0, 2, True, "a", None]


def is_real(x):
    return isinstance(x, Real)


def documented(spec, n, nest):
    """The documented normal form of `spec` for n target labels (docstrings of threshold.py), or
    None when the specification is malformed and has to be rejected.  Written from the
    documentation, independently of the implementation and of the Coq model."""
    if is_real(spec):
        if nest:
            return [[spec] * n] if n >= 1 else None
        return [spec] * n
    if not isinstance(spec, list) or len(spec) == 0:
        return None
    if all(is_real(t) for t in spec):
        if not nest:
            if len(spec) == 1:
                return [spec[0]] * n
            return list(spec) if len(spec) == n else None
        if n < 1:
            return None
        if len(spec) == n:
            return [list(spec)]
        return [[t] * n for t in spec]
    if not nest or n < 1:
        return None
    rows = []
    for r in spec:
        if not isinstance(r, list) or not all(is_real(t) for t in r):
            return None
        if len(r) == 1:
            rows.append([r[0]] * n)
        elif len(r) == n:
            rows.append(list(r))
        else:
            return None
    return rows


def has_tuple(j):
    if isinstance(j, dict):
        return True
    if isinstance(j, list):
        return any(has_tuple(x) for x in j)
    return False


def same(a, b):
    """Equality that also distinguishes bool from number and list from tuple."""
    if isinstance(a, (list, tuple)) or isinstance(b, (list, tuple)):
        return type(a) is type(b) and len(a) == len(b) and all(same(x, y) for x, y in zip(a, b))
    if isinstance(a, bool) or isinstance(b, bool):
        return isinstance(a, bool) and isinstance(b, bool) and a == b
    return type(a) in (int, float) and type(b) in (int, float) and a == b or (type(a) is type(b) and a == b)


class ThresholdCorr(Corr):
    name = "set_thresholds"
    header = ("From Coq Require Import String List Bool QArith.\nFrom PE Require Import Base.CaseUtil Model.PyVal Model.Threshold.\n"
              "Import ListNotations.\nOpen Scope string_scope.\nOpen Scope nat_scope.\n")
    requires = ["Model/Threshold.vo", "Base/CaseUtil.vo"]
    shard = 400

    def cases(self, tier, rng):
        thorough = tier != "quick"
        L = 4 if thorough else 3
        ns = list(range(0, 5 if thorough else 4))
        specs = []
        # witnesses first (the repaired F9, zero labels, doc examples)
        specs += [[[1.0, "a"]], [[[1.0]]], 1.0, [], [[2.0], [3.0, 4.0]], [1.0, [2.0]], [[1.0, 2.0, 3.0]], [1.0, 2.0]]
        # nesting 0 and 1: every atom, every list of <= L atoms
        specs += list(ATOMS)
        flat = [list(t) for k in range(0, L + 1) for t in itertools.product(ATOMS, repeat=k)]
        specs += flat
        # nesting 2: [row] for every row of <= L atoms
        rows_L = [list(t) for k in range(0, L + 1) for t in itertools.product(ATOMS, repeat=k)]
        singles = [[r] for r in rows_L]
        # pairs over M = scalars + rows of <= 2 atoms
        M = list(SCALARS) + [list(t) for k in range(0, 3) for t in itertools.product(ATOMS, repeat=k)]
        pairs = [[a, b] for a in M for b in M]
        # triples (4-tuples thorough) over a small mixed element set
        M3 = [1.0, "a", None, [], [1.0], [1.0, 2], ["a"], [1.0, 2, True], [1.0, "a", 2], [[1.0]], [None]]
        triples = [list(t) for t in itertools.product(M3, repeat=3)]
        if thorough:
            specs += singles + pairs + triples
            specs += [list(t) for t in itertools.product(M3, repeat=4)]
            # pairs over rows of <= 3 atoms from a reduced atom set
            A3 = [1.0, True, "a", [1.0]]
            R3 = list(SCALARS) + [list(t) for k in range(0, 4) for t in itertools.product(A3, repeat=k)]
            specs += [[a, b] for a in R3 for b in R3]
        else:
            specs += rng.sample(singles, 250) + rng.sample(pairs, 1200) + rng.sample(triples, 450)
        # beyond the exhaustive family: random deeper / longer / tuple / other-string specs
        for _ in range(4000 if thorough else 500):
            specs.append(self._random_spec(rng, 0))
        seen = set()
        out = []
        for s in specs:
            j = enc(s)
            key = core.canon(j)
            if key in seen:
                continue
            seen.add(key)
            k_ns = ns if not has_tuple(j) and depth(j) <= 3 else sorted(set(ns) | {5})
            out.append({"spec": j, "ns": k_ns})
        return out

    def _random_spec(self, rng, d):
        r = rng.random()
        if d >= 3 or r < 0.3:
            return rng.choice([1.0, 2, True, False, 0, -1.5, 0.5, 3, "a", "", "ab", None, 100.0])
        items = [self._random_spec(rng, d + 1 + (rng.random() < 0.5)) for _ in range(rng.choice([0, 1, 1, 2, 2, 3, 3, 4, 5]))]
        if rng.random() < 0.6:
            # mostly homogeneous rows of numbers: the accepted region
            k = rng.choice([1, 2, 3, 4, 5])
            width = rng.choice([1, 2, 3])
            if rng.random() < 0.5:
                items = [rng.choice([1.0, 2, 0.5, True]) for _ in range(k)]
            else:
                items = [[rng.choice([1.0, 2, 0.5, True]) for _ in range(rng.choice([1, width]))] for _ in range(k)]
                if rng.random() < 0.3:
                    i = rng.randrange(len(items))
                    items[i] = rng.choice([items[i] + [1.0], (1.0,), "a", None, [], items[i][:-1] + ["a"], [items[i]]])
        return tuple(items) if rng.random() < 0.12 else items

    def run_impl(self, case):
        from perception_eval.common.threshold import ThresholdError, set_thresholds

        res = []
        for n in case["ns"]:
            for nest in (False, True):
                spec = dec(case["spec"])
                try:
                    out = set_thresholds(spec, n, nest)
                except ThresholdError:
                    res.append({"n": n, "nest": nest, "error": "ThresholdError"})
                    continue
                except TypeError:
                    res.append({"n": n, "nest": nest, "error": "TypeError"})
                    continue
                r = {"n": n, "nest": nest, "ok": enc(out)}
                try:
                    r["again"] = {"ok": enc(set_thresholds(dec(enc(out)), n, nest))}
                except (ThresholdError, TypeError) as e:
                    r["again"] = {"error": type(e).__name__}
                res.append(r)
        return res

    @staticmethod
    def _res(o):
        return f"(Err {o['error']})" if "error" in o else f"(Ok {pv(o['ok'])})"

    def coq_term(self, case, obs):
        items = [f"({o['n']}, {blit(o['nest'])}, {self._res(o)})" for o in obs]
        return f"check_spec {pv(case['spec'])} {llit(items)}"

    def coq_debug(self, case, obs):
        return "map (fun x => set_thresholds " + pv(case["spec"]) + " (fst x) (snd x)) " + \
            llit([f"({o['n']}, {blit(o['nest'])})" for o in obs])

    def oracle(self, case, obs):
        spec = dec(case["spec"])
        for o in obs:
            n, nest = o["n"], o["nest"]
            what = f"set_thresholds({spec!r}, {n}, {nest})"
            if "ok" in o:
                out = dec(o["ok"])
                # one real value per target label
                if nest:
                    good = isinstance(out, list) and len(out) > 0 and all(
                        isinstance(r, list) and len(r) == n and all(is_real(x) for x in r) for r in out)
                else:
                    good = isinstance(out, (list, tuple)) and len(out) == n and all(is_real(x) for x in out)
                if not good:
                    return f"{what} returned {out!r}: not {'rows of ' if nest else ''}exactly {n} real values"
                # normalising a normalised value changes nothing
                if n >= 1 and ("ok" not in o["again"] or not same(dec(o["again"]["ok"]), out)):
                    return f"{what} = {out!r} but normalising that again gives {o['again']}"
            if has_tuple(case["spec"]):
                continue  # tuples are outside the documented input types: only the two laws above
            want = documented(spec, n, nest)
            if want is None and "ok" in o:
                return f"{what}: malformed specification accepted, returned {dec(o['ok'])!r}"
            if want is not None and "ok" not in o:
                return f"{what}: documented specification rejected with {o['error']} (expected {want!r})"
            if want is not None and not same(dec(o["ok"]), want):
                return f"{what} returned {dec(o['ok'])!r}, documented normal form is {want!r}"
        return None

    def nontrivial(self, case, obs):
        return depth(case["spec"]) >= 1

    def distribution(self, cases, obs):
        d = {"specs": len(cases), "calls": 0, "accepted_flat": 0, "accepted_nested": 0, "ThresholdError": 0, "TypeError": 0,
             "by_depth": {}, "with_tuple": 0}
        for c, ob in zip(cases, obs):
            dp = str(depth(c["spec"]))
            d["by_depth"][dp] = d["by_depth"].get(dp, 0) + 1
            d["with_tuple"] += has_tuple(c["spec"])
            if not isinstance(ob, list):
                continue
            for o in ob:
                d["calls"] += 1
                if "ok" in o:
                    d["accepted_nested" if o["nest"] else "accepted_flat"] += 1
                else:
                    d[o["error"]] += 1
        return d


class C15(Prop):
    id = "C15"
    props_file = "Props/C15.v"
    gen_files = ["ConfigTables.v", "Enums.v"]
    design_ref = "DESIGN.md section 4, C15"
    technique = "Rocq proof about executable models of threshold.py and of configuration acceptance; in-Coq correspondence"
    level_text = ""
    level_note = ""
    rule = ""
    assumptions = []
    not_proved = []

    def correspondences(self):
        return [ThresholdCorr()]


READY = False
PROP = C15()
